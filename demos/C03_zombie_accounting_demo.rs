// in_memory
use indicatif::{InMemoryTerm, MultiProgress, ProgressBar, ProgressDrawTarget, ProgressFinish, ProgressStyle};

#[test]
fn rate_limited_ticks_with_a_waiting_zombie_do_not_eat_log_lines() {
    let in_mem = InMemoryTerm::new(20, 40);
    let mp = MultiProgress::with_draw_target(ProgressDrawTarget::term_like_with_hz(Box::new(in_mem.clone()), 1));
    let style = ProgressStyle::with_template("{msg}").unwrap();
    mp.println("log1").unwrap();
    mp.println("log2").unwrap();
    mp.println("log3").unwrap();
    let a = mp.add(ProgressBar::new(10).with_style(style.clone()).with_finish(ProgressFinish::AndLeave).with_message("a"));
    let b = mp.add(ProgressBar::new(10).with_style(style.clone()).with_finish(ProgressFinish::AndLeave).with_message("b"));
    let c = mp.add(ProgressBar::new(10).with_style(style.clone()).with_finish(ProgressFinish::AndLeave).with_message("c"));
    a.tick(); b.tick(); c.tick();
    // exhaust the limiter first (1 Hz, burst 20)
    for _ in 0..100 { c.tick(); }
    drop(b); // zombie, not at the head: waits
    drop(a); // head: reaped at once; now b is an un-reaped zombie at the head
    // exhaust the limiter, then keep ticking: every skipped draw used to count b's row again
    for _ in 0..200 { c.tick(); }
    mp.println("log4").unwrap();
    let out = in_mem.contents();
    for l in ["log1", "log2", "log3", "log4"] {
        assert!(out.contains(l), "log line {l} was erased; screen:\n{out}");
    }
}
