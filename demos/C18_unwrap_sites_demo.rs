// Native demonstration of the two C18 defects (a failing terminal turns into a panic + a poisoned lock):
// ProgressBar::set_tab_width and MultiProgress::suspend (MultiState::suspend) unwrap the result of the draw they trigger.
use std::io;
use std::panic::{catch_unwind, AssertUnwindSafe};
use std::sync::atomic::{AtomicBool, Ordering};
use std::sync::Arc;

use indicatif::{MultiProgress, ProgressBar, ProgressDrawTarget, TermLike};

#[derive(Debug, Clone, Default)]
struct Flaky {
    fail: Arc<AtomicBool>,
}
impl Flaky {
    fn op(&self) -> io::Result<()> {
        if self.fail.load(Ordering::SeqCst) {
            Err(io::Error::new(io::ErrorKind::BrokenPipe, "terminal gone"))
        } else {
            Ok(())
        }
    }
}
impl TermLike for Flaky {
    fn width(&self) -> u16 { 80 }
    fn height(&self) -> u16 { 24 }
    fn move_cursor_up(&self, _: usize) -> io::Result<()> { self.op() }
    fn move_cursor_down(&self, _: usize) -> io::Result<()> { self.op() }
    fn move_cursor_right(&self, _: usize) -> io::Result<()> { self.op() }
    fn move_cursor_left(&self, _: usize) -> io::Result<()> { self.op() }
    fn write_line(&self, _: &str) -> io::Result<()> { self.op() }
    fn write_str(&self, _: &str) -> io::Result<()> { self.op() }
    fn clear_line(&self) -> io::Result<()> { self.op() }
    fn flush(&self) -> io::Result<()> { self.op() }
}

#[test]
fn set_tab_width_with_a_failing_terminal() {
    let term = Flaky::default();
    let pb = ProgressBar::with_draw_target(Some(10), ProgressDrawTarget::term_like(Box::new(term.clone())));
    pb.set_message("a\tb");
    pb.inc(3);
    term.fail.store(true, Ordering::SeqCst);
    let r = catch_unwind(AssertUnwindSafe(|| pb.set_tab_width(4)));
    assert!(r.is_ok(), "set_tab_width panicked on a terminal I/O error");
    term.fail.store(false, Ordering::SeqCst);
    let r = catch_unwind(AssertUnwindSafe(|| {
        pb.inc(1);
        pb.position()
    }));
    assert_eq!(r.ok(), Some(4), "the bar is unusable (poisoned) after the failure");
}

#[test]
fn multi_suspend_with_a_failing_terminal() {
    let term = Flaky::default();
    let mp = MultiProgress::with_draw_target(ProgressDrawTarget::term_like(Box::new(term.clone())));
    let pb = mp.add(ProgressBar::new(10));
    let sib = mp.add(ProgressBar::new(10));
    pb.inc(3);
    sib.inc(1);
    term.fail.store(true, Ordering::SeqCst);
    let r = catch_unwind(AssertUnwindSafe(|| mp.suspend(|| 7)));
    assert_eq!(r.ok(), Some(7), "MultiProgress::suspend panicked on a terminal I/O error");
    term.fail.store(false, Ordering::SeqCst);
    let r = catch_unwind(AssertUnwindSafe(|| {
        pb.inc(1);
        sib.inc(1);
        (pb.position(), sib.position())
    }));
    assert_eq!(r.ok(), Some((4, 2)), "members are unusable (poisoned lock) after the failure");
    let r = catch_unwind(AssertUnwindSafe(|| pb.suspend(|| 9)));
    assert_eq!(r.ok(), Some(9));
}
