// in_memory
use indicatif::{InMemoryTerm, MultiProgress, ProgressBar, ProgressDrawTarget, ProgressFinish, ProgressStyle};

#[test]
fn bar_println_after_a_reaped_zombie_is_not_erased_later() {
    let in_mem = InMemoryTerm::new(20, 40);
    let mp = MultiProgress::with_draw_target(ProgressDrawTarget::term_like(Box::new(in_mem.clone())));
    let style = ProgressStyle::with_template("{msg}").unwrap();
    mp.println("log1").unwrap();
    let a = mp.add(ProgressBar::new(10).with_style(style.clone()).with_finish(ProgressFinish::AndLeave).with_message("a"));
    let b = mp.add(ProgressBar::new(10).with_style(style.clone()).with_message("b"));
    a.tick(); b.tick();
    drop(a); // head, visibly finished: reaped at once, its row stays as static text
    b.println("log2");
    b.println("log3");
    mp.println("log4").unwrap();
    let out = in_mem.contents();
    println!("{out}");
    for l in ["log1", "log2", "log3", "log4"] {
        assert!(out.contains(l), "log line {l} was erased; screen:\n{out}");
    }
    let p = |s: &str| out.find(s).unwrap();
    assert!(p("log1") < p("log2") && p("log2") < p("log3") && p("log3") < p("log4"), "order; screen:\n{out}");
}
