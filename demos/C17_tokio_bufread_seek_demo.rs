// features: tokio
// Native demonstration of the two C17 defects in the tokio adaptors:
//  * AsyncBufRead: poll_fill_buf counted the whole buffered slice on every poll (re-polling without consuming counted twice,
//    partially consumed data was counted in full) and consume() counted nothing;
//  * AsyncSeek: a completed seek did not set the position to the new offset.
use std::io::{Cursor, SeekFrom};
use std::pin::Pin;
use std::task::{Context, Poll, Waker};

use indicatif::ProgressBar;
use tokio::io::{AsyncBufRead, AsyncSeek, BufReader};

#[test]
fn tokio_bufread_counts_consumed_bytes_only() {
    let pb = ProgressBar::hidden();
    let data: Vec<u8> = (0..100u8).collect();
    let mut rd = pb.wrap_async_read(BufReader::new(Cursor::new(data)));
    let mut cx = Context::from_waker(Waker::noop());
    // look at the buffer twice without consuming anything
    for _ in 0..2 {
        match Pin::new(&mut rd).poll_fill_buf(&mut cx) {
            Poll::Ready(Ok(b)) => assert_eq!(b.len(), 100),
            other => panic!("unexpected {other:?}"),
        }
    }
    assert_eq!(pb.position(), 0, "nothing was consumed yet");
    Pin::new(&mut rd).consume(10);
    assert_eq!(pb.position(), 10);
    match Pin::new(&mut rd).poll_fill_buf(&mut cx) {
        Poll::Ready(Ok(b)) => assert_eq!(b.len(), 90),
        other => panic!("unexpected {other:?}"),
    }
    Pin::new(&mut rd).consume(90);
    assert_eq!(pb.position(), 100);
}

#[test]
fn tokio_seek_sets_the_position() {
    let pb = ProgressBar::hidden();
    let mut s = pb.wrap_async_read(Cursor::new(vec![0u8; 100]));
    let mut cx = Context::from_waker(Waker::noop());
    Pin::new(&mut s).start_seek(SeekFrom::Start(42)).unwrap();
    match Pin::new(&mut s).poll_complete(&mut cx) {
        Poll::Ready(Ok(off)) => assert_eq!(off, 42),
        other => panic!("unexpected {other:?}"),
    }
    assert_eq!(pb.position(), 42);
}
