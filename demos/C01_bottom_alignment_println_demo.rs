// in_memory
// Native demonstration of known finding C03-bottom-align-shrink-with-text-lines: with MultiProgressAlignment::Bottom, a
// println in the same draw in which the frame shrinks is erased by the next redraw.
use indicatif::{InMemoryTerm, MultiProgress, MultiProgressAlignment, ProgressBar, ProgressDrawTarget, ProgressStyle};

#[test]
fn println_after_remove_with_bottom_alignment_survives_the_next_redraw() {
    let in_mem = InMemoryTerm::new(12, 40);
    let mp = MultiProgress::with_draw_target(ProgressDrawTarget::term_like(Box::new(in_mem.clone())));
    mp.set_alignment(MultiProgressAlignment::Bottom);
    let style = ProgressStyle::with_template("{msg}").unwrap();
    let a = mp.add(ProgressBar::new(10).with_style(style.clone()).with_message("bar-a"));
    let b = mp.add(ProgressBar::new(10).with_style(style.clone()).with_message("bar-b"));
    let c = mp.add(ProgressBar::new(10).with_style(style.clone()).with_message("bar-c"));
    a.tick();
    b.tick();
    c.tick();
    // the frame shrinks from 3 rows to 1 ...
    mp.remove(&a);
    mp.remove(&b);
    // ... in the same draw that prints a log line
    mp.println("log-1").unwrap();
    assert!(in_mem.contents().contains("log-1"), "screen:\n{}", in_mem.contents());
    c.tick();
    c.tick();
    let out = in_mem.contents();
    assert!(out.contains("log-1"), "the printed line was erased by the next redraw; screen:\n{out}");
    assert!(out.contains("bar-c"));
    mp.println("log-2").unwrap();
    let out = in_mem.contents();
    let p1 = out.find("log-1").expect("log-1 erased");
    let p2 = out.find("log-2").expect("log-2 missing");
    assert!(p1 < p2, "log lines out of order:\n{out}");
}
