#![cfg_attr(kani, recursion_limit = "512")]
#![cfg_attr(kani, feature(formatting_options, pattern))]
#![cfg_attr(kani, allow(dead_code, unused_imports, unused_variables, unused_mut, unused_unsafe))]
