// Abstract terminal ("Scr") used by the C01/C02/C03/C04/C18/C19 harnesses: a TermLike with absolute row numbers,
// deferred wrap at the right edge, a visible window of `h` rows that follows the lowest row ever reached, and one
// tag byte per row (who painted the last non-blank glyph there). Semantics follow InMemoryTerm/vt100:
//   write_str  advances with deferred wrap; write_line = write_str + "\r\n"; clear_line = "\r" + erase row;
//   move_cursor_up clamps at the top of the visible window, move_cursor_down at its bottom.
// Validated against InMemoryTerm natively by engine/validate_stubs.py (translation validation of the model).
#[cfg(kani)]
pub(crate) mod verif_scr {
    use super::*;
    use std::cell::Cell;

    pub(crate) const NROWS: usize = 12;

    /// `rows!(r, { body })`: the body once per row index 0..NROWS without a loop (Kani has ONE unwind bound per harness;
    /// a 12-iteration harness loop would force every loop of the code under test to be unwound 13 times)
    macro_rules! rows {
        ($r:ident, $body:block) => {
            { let $r: usize = 0; $body } { let $r: usize = 1; $body } { let $r: usize = 2; $body } { let $r: usize = 3; $body }
            { let $r: usize = 4; $body } { let $r: usize = 5; $body } { let $r: usize = 6; $body } { let $r: usize = 7; $body }
            { let $r: usize = 8; $body } { let $r: usize = 9; $body } { let $r: usize = 10; $body } { let $r: usize = 11; $body }
        };
    }
    pub(crate) use rows;
    pub(crate) const CAP: usize = 24;
    /// a single write never spans more rows than this in the harnesses (else `ovf`)
    pub(crate) const MAXWRAP: usize = 4;
    pub(crate) const T_BLANK: u8 = 0; // never written / cleared
    pub(crate) const T_SPACE: u8 = 1; // only blanks written
    pub(crate) const T_LOG: u8 = b'L'; // log line present before the step
    pub(crate) const T_OLD: u8 = b'O'; // row of the previous frame

    #[derive(Debug)]
    pub(crate) struct Scr {
        pub w: usize,
        pub h: usize,
        pub row: Cell<usize>,
        pub col: Cell<usize>,
        pub maxrow: Cell<usize>,
        pub tags: [Cell<u8>; NROWS],
        /// set when the model's row budget is exceeded (harnesses assume it away and say so)
        pub ovf: Cell<bool>,
        /// number of terminal calls so far / index of the call that fails (C18); usize::MAX = never
        pub calls: Cell<usize>,
        pub fail_at: Cell<usize>,
        pub fail_sticky: Cell<bool>,
        pub flushes: Cell<usize>,
        /// every byte passed to write_str/write_line (except "\r"), first CAP bytes; `tab` = a TAB byte was seen
        pub cap: [Cell<u8>; CAP],
        pub cap_n: Cell<usize>,
        pub tab: Cell<bool>,
        pub capture: Cell<bool>,
    }
    unsafe impl Sync for Scr {}
    unsafe impl Send for Scr {}

    impl Scr {
        pub(crate) fn new(w: usize, h: usize) -> Self {
            Scr {
                w,
                h,
                row: Cell::new(0),
                col: Cell::new(0),
                maxrow: Cell::new(0),
                tags: Default::default(),
                ovf: Cell::new(false),
                calls: Cell::new(0),
                fail_at: Cell::new(usize::MAX),
                fail_sticky: Cell::new(false),
                flushes: Cell::new(0),
                cap: [const { Cell::new(0) }; CAP],
                cap_n: Cell::new(0),
                tab: Cell::new(false),
                capture: Cell::new(false),
            }
        }
        pub(crate) fn top(&self) -> usize {
            (self.maxrow.get() + 1).saturating_sub(self.h)
        }
        fn goto_row(&self, r: usize) {
            if r >= NROWS {
                self.ovf.set(true);
                return;
            }
            self.row.set(r);
            if r > self.maxrow.get() {
                self.maxrow.set(r);
            }
        }
        fn mark(&self, r: usize, tag: u8) {
            if r >= NROWS {
                self.ovf.set(true);
                return;
            }
            if tag != b' ' {
                self.tags[r].set(tag);
            } else if self.tags[r].get() == T_BLANK {
                self.tags[r].set(T_SPACE);
            }
        }
        /// loop-free: the captured bytes are exactly `want[..n]` followed by blanks only (the right-edge filler)
        pub(crate) fn cap_is(&self, want: &[u8; 16], n: usize) -> bool {
            let m = self.cap_n.get();
            if m < n {
                return false;
            }
            let mut ok = true;
            macro_rules! chk {
                ($i:expr) => {
                    if $i < n && $i < 16 {
                        ok &= self.cap[$i].get() == want[if $i < 16 { $i } else { 0 }];
                    } else if $i < m {
                        ok &= self.cap[$i].get() == b' ';
                    }
                };
            }
            chk!(0);
            chk!(1);
            chk!(2);
            chk!(3);
            chk!(4);
            chk!(5);
            chk!(6);
            chk!(7);
            chk!(8);
            chk!(9);
            chk!(10);
            chk!(11);
            chk!(12);
            chk!(13);
            chk!(14);
            chk!(15);
            chk!(16);
            chk!(17);
            chk!(18);
            chk!(19);
            chk!(20);
            chk!(21);
            chk!(22);
            chk!(23);
            ok
        }
        pub(crate) fn tag(&self, r: usize) -> u8 {
            self.tags[r].get()
        }
        pub(crate) fn is_blank(&self, r: usize) -> bool {
            let t = self.tags[r].get();
            t == T_BLANK || t == T_SPACE
        }
        fn tick(&self) -> io::Result<()> {
            let k = self.calls.get();
            self.calls.set(k + 1);
            let f = self.fail_at.get();
            if k == f || (self.fail_sticky.get() && f != usize::MAX && k > f) {
                return Err(io::Error::from(io::ErrorKind::BrokenPipe));
            }
            Ok(())
        }
        fn put(&self, s: &str) {
            let b = s.as_bytes();
            let n = b.len();
            if n == 0 {
                return;
            }
            if b[0] == b'\r' {
                self.col.set(0);
                return;
            }
            if self.capture.get() {
                // loop-free capture of up to 16 bytes per write (unwinding a loop here would multiply the cost of
                // every other loop in the harness, because Kani has one unwind bound per harness)
                macro_rules! cap1 {
                    ($i:expr) => {
                        if $i < n {
                            if b[$i] == b'\t' {
                                self.tab.set(true);
                            }
                            let k = self.cap_n.get();
                            if k < CAP {
                                self.cap[k].set(b[$i]);
                                self.cap_n.set(k + 1);
                            }
                        }
                    };
                }
                cap1!(0);
                cap1!(1);
                cap1!(2);
                cap1!(3);
                cap1!(4);
                cap1!(5);
                cap1!(6);
                cap1!(7);
                cap1!(8);
                cap1!(9);
                cap1!(10);
                cap1!(11);
                cap1!(12);
                cap1!(13);
                cap1!(14);
                cap1!(15);
                if n > 16 {
                    self.ovf.set(true);
                }
            }
            let tag = b[0];
            // deferred wrap: a cursor parked at col == w moves to the next row before printing
            let (mut r, c) = if self.col.get() >= self.w { (self.row.get() + 1, 0) } else { (self.row.get(), self.col.get()) };
            let total = c + n;
            let rows = (total + self.w - 1) / self.w; // rows touched
            if rows > MAXWRAP {
                self.ovf.set(true);
                return;
            }
            // constant-bounded loop (cheap for the model checker)
            let mut j = 0;
            while j < MAXWRAP {
                if j < rows {
                    self.mark(r, tag);
                    if j + 1 < rows {
                        r += 1;
                    }
                }
                j += 1;
            }
            self.goto_row(r);
            self.col.set(total - (rows - 1) * self.w);
        }
    }

    impl TermLike for Scr {
        fn width(&self) -> u16 {
            self.w as u16
        }
        fn height(&self) -> u16 {
            self.h as u16
        }
        fn move_cursor_up(&self, n: usize) -> io::Result<()> {
            self.tick()?;
            let t = self.top();
            let r = self.row.get().saturating_sub(n);
            self.row.set(if r < t { t } else { r });
            Ok(())
        }
        fn move_cursor_down(&self, n: usize) -> io::Result<()> {
            self.tick()?;
            // stops at the bottom row of the visible window (= lowest row ever reached once the window is full)
            let r = self.row.get() + n;
            let m = self.maxrow.get();
            let bottom = if m + 1 >= self.h { m } else { self.h - 1 };
            self.row.set(if r > bottom { bottom } else { r });
            Ok(())
        }
        fn move_cursor_right(&self, _n: usize) -> io::Result<()> {
            self.tick()
        }
        fn move_cursor_left(&self, _n: usize) -> io::Result<()> {
            self.tick()
        }
        fn write_line(&self, s: &str) -> io::Result<()> {
            self.tick()?;
            self.put(s);
            self.goto_row(self.row.get() + 1);
            self.col.set(0);
            Ok(())
        }
        fn write_str(&self, s: &str) -> io::Result<()> {
            self.tick()?;
            self.put(s);
            Ok(())
        }
        fn clear_line(&self) -> io::Result<()> {
            self.tick()?;
            self.tags[self.row.get()].set(T_BLANK);
            self.col.set(0);
            Ok(())
        }
        fn flush(&self) -> io::Result<()> {
            self.tick()?;
            self.flushes.set(self.flushes.get() + 1);
            Ok(())
        }
    }

    /// A line of `l` copies of one tag letter ('a'+k for text line k, 'A'+k for bar line k); fixed-capacity string.
    pub(crate) fn mk_line(letter: u8, l: usize) -> String {
        let mut s = String::from(match letter {
            b'a' => "aaaaaaaaaaaa",
            b'b' => "bbbbbbbbbbbb",
            b'c' => "cccccccccccc",
            b'd' => "dddddddddddd",
            b'A' => "AAAAAAAAAAAA",
            b'B' => "BBBBBBBBBBBB",
            b'C' => "CCCCCCCCCCCC",
            b'D' => "DDDDDDDDDDDD",
            b'x' => "xxxxxxxxxxxx",
            b'y' => "yyyyyyyyyyyy",
            _ => "zzzzzzzzzzzz",
        });
        assert!(l <= 12);
        unsafe {
            s.as_mut_vec().set_len(l);
        }
        s
    }

    pub(crate) fn hgt(len: usize, w: usize) -> usize {
        if len == 0 {
            1
        } else {
            (len + w - 1) / w
        }
    }

    /// Handle that can be boxed into a ProgressDrawTarget while the harness keeps access to the screen.
    #[derive(Debug)]
    pub(crate) struct ScrHandle(pub &'static Scr);
    impl TermLike for ScrHandle {
        fn width(&self) -> u16 {
            self.0.width()
        }
        fn height(&self) -> u16 {
            self.0.height()
        }
        fn move_cursor_up(&self, n: usize) -> io::Result<()> {
            self.0.move_cursor_up(n)
        }
        fn move_cursor_down(&self, n: usize) -> io::Result<()> {
            self.0.move_cursor_down(n)
        }
        fn move_cursor_right(&self, n: usize) -> io::Result<()> {
            self.0.move_cursor_right(n)
        }
        fn move_cursor_left(&self, n: usize) -> io::Result<()> {
            self.0.move_cursor_left(n)
        }
        fn write_line(&self, s: &str) -> io::Result<()> {
            self.0.write_line(s)
        }
        fn write_str(&self, s: &str) -> io::Result<()> {
            self.0.write_str(s)
        }
        fn clear_line(&self) -> io::Result<()> {
            self.0.clear_line()
        }
        fn flush(&self) -> io::Result<()> {
            self.0.flush()
        }
    }

    pub(crate) fn leak_scr(w: usize, h: usize) -> &'static Scr {
        Box::leak(Box::new(Scr::new(w, h)))
    }

    /// term_like target (no rate limiter) over the abstract screen
    pub(crate) fn scr_target(scr: &'static Scr) -> ProgressDrawTarget {
        ProgressDrawTarget::term_like(Box::new(ScrHandle(scr)))
    }

    /// term_like target whose rate limiter is in an arbitrary given state (used to start from an EXHAUSTED limiter)
    pub(crate) fn scr_target_limited(scr: &'static Scr, rate: u8, capacity: u8, prev: Instant, last: usize) -> ProgressDrawTarget {
        let mut rl = RateLimiter::new(rate);
        rl.capacity = capacity;
        rl.prev = prev;
        ProgressDrawTarget {
            kind: TargetKind::TermLike {
                inner: Box::new(ScrHandle(scr)),
                last_line_count: VisualLines::from(last),
                rate_limiter: Some(rl),
                draw_state: DrawState::default(),
            },
        }
    }

    /// rows currently accounted to the target (last_line_count)
    pub(crate) fn target_last(t: &ProgressDrawTarget) -> usize {
        match &t.kind {
            TargetKind::TermLike { last_line_count, .. } => last_line_count.as_usize(),
            TargetKind::Term { last_line_count, .. } => last_line_count.as_usize(),
            _ => 0,
        }
    }

    /// Put the screen into the state "log rows above, a previous frame of `b` rows ending at the cursor row `r0`"
    pub(crate) fn scr_with_frame(scr: &Scr, r0: usize, b: usize) {
        let fs = r0 + 1 - b;
        rows!(i, {
            if i < fs {
                scr.tags[i].set(T_LOG);
            } else if i <= r0 {
                scr.tags[i].set(T_OLD);
            }
        });
        if b > 0 {
            scr.row.set(r0);
            scr.col.set(scr.w);
            scr.maxrow.set(r0);
        } else {
            scr.row.set(r0 + 1);
            scr.col.set(0);
            scr.maxrow.set(r0 + 1);
        }
    }

    /// the lines last handed to draw_to_term by a Term/TermLike target (kept in its DrawState)
    pub(crate) fn target_lines(t: &ProgressDrawTarget) -> &Vec<LineType> {
        match &t.kind {
            TargetKind::TermLike { draw_state, .. } => &draw_state.lines,
            TargetKind::Term { draw_state, .. } => &draw_state.lines,
            _ => panic!("verif: target has no draw state"),
        }
    }

    /// 0 = Text, 1 = Bar, 2 = Empty
    pub(crate) fn line_kind(l: &LineType) -> u8 {
        match l {
            LineType::Text(_) => 0,
            LineType::Bar(_) => 1,
            LineType::Empty => 2,
        }
    }
}
