// C19 — inductive draw_to_term step on the abstract terminal (see step.rs / scr.rs).
// @file-encodes draw_target::DrawState::draw_to_term, draw_target::LineType::wrapped_height, draw_target::LineType::console_width, draw_target::DrawState::visual_line_count, draw_target::visual_line_count, draw_target::VisualLines arithmetic
// @file-assumes terminal = abstract screen model verif_scr::Scr (deferred wrap, visible window of H rows, cursor moves clamp at the window); console::measure_text_width = byte length (lines are ASCII tag letters); str::repeat replaced by a fixed-capacity filler; move_cursor=false; lines contain no newline (precondition established by the composition harnesses)
#[cfg(kani)]
mod verif_c19_step {
    use super::verif_step::*;
    use super::*;

    // @harness id=C19 tier=quick timeout=2400 mem=12
    // @bounds W=2 H=1, 2 lines (a symbolic number of text lines first, then bar lines), each 0..=4 columns; top alignment; previous frame b in 0..=H rows, any cursor column, parked/unparked start; some bar line does NOT fit into H rows (painting must stop at the first bar that does not fit)
    #[kani::proof]
    #[kani::unwind(7)]
    //@STUBS widthascii repeat
    fn c19_overflow_w2h1n2() {
        let c = step(2, 1, 2, false, 0, 2);
        kani::cover!(c & 1 != 0);
        kani::cover!(c & 1 != 0 && c & 32 != 0);
    }

    // @harness id=C19 tier=quick timeout=2400 mem=12
    // @bounds W=2 H=2, 2 lines (a symbolic number of text lines first, then bar lines), each 0..=4 columns; top alignment; previous frame b in 0..=H rows, any cursor column, parked/unparked start; some bar line does NOT fit into H rows (painting must stop at the first bar that does not fit)
    #[kani::proof]
    #[kani::unwind(7)]
    //@STUBS widthascii repeat
    fn c19_overflow_w2h2n2() {
        let c = step(2, 2, 2, false, 0, 2);
        kani::cover!(c & 1 != 0);
    }

    // @harness id=C19 tier=quick timeout=2400 mem=12
    // @bounds W=1 H=2, 2 lines (a symbolic number of text lines first, then bar lines), each 0..=2 columns; top alignment; previous frame b in 0..=H rows, any cursor column, parked/unparked start; some bar line does NOT fit into H rows (painting must stop at the first bar that does not fit)
    #[kani::proof]
    #[kani::unwind(7)]
    //@STUBS widthascii repeat
    fn c19_overflow_w1h2n2() {
        let c = step(1, 2, 2, false, 0, 2);
        kani::cover!(c & 1 != 0);
    }

    // @harness id=C19 tier=quick timeout=2400 mem=12
    // @bounds W=3 H=1, 1 lines (a symbolic number of text lines first, then bar lines), each 0..=6 columns; top alignment; previous frame b in 0..=H rows, any cursor column, parked/unparked start; some bar line does NOT fit into H rows (painting must stop at the first bar that does not fit)
    #[kani::proof]
    #[kani::unwind(7)]
    //@STUBS widthascii repeat
    fn c19_overflow_w3h1n1() {
        let c = step(3, 1, 1, false, 0, 2);
        kani::cover!(c & 1 != 0);
    }

    // @harness id=C19 tier=quick timeout=2400 mem=12
    // @bounds W=2 H=2, 2 lines (a symbolic number of text lines first, then bar lines), each 0..=4 columns; bottom alignment; previous frame b in 0..=H rows, any cursor column, parked/unparked start; some bar line does NOT fit into H rows (painting must stop at the first bar that does not fit)
    #[kani::proof]
    #[kani::unwind(7)]
    //@STUBS widthascii repeat
    fn c19_overflow_w2h2n2b() {
        let c = step(2, 2, 2, true, 0, 2);
        kani::cover!(c & 1 != 0);
    }

    // @harness id=C19 tier=thorough timeout=2400 mem=12
    // @bounds W=3 H=2, 3 lines (a symbolic number of text lines first, then bar lines), each 0..=6 columns; top alignment; previous frame b in 0..=H rows, any cursor column, parked/unparked start; some bar line does NOT fit into H rows (painting must stop at the first bar that does not fit)
    #[kani::proof]
    #[kani::unwind(7)]
    //@STUBS widthascii repeat
    fn c19_overflow_w3h2n3() {
        let c = step(3, 2, 3, false, 0, 2);
        kani::cover!(c & 1 != 0);
    }

    // @harness id=C19 tier=thorough timeout=2400 mem=12
    // @bounds W=2 H=3, 3 lines (a symbolic number of text lines first, then bar lines), each 0..=4 columns; top alignment; previous frame b in 0..=H rows, any cursor column, parked/unparked start; some bar line does NOT fit into H rows (painting must stop at the first bar that does not fit)
    #[kani::proof]
    #[kani::unwind(7)]
    //@STUBS widthascii repeat
    fn c19_overflow_w2h3n3() {
        let c = step(2, 3, 3, false, 0, 2);
        kani::cover!(c & 1 != 0);
    }

    // @harness id=C19 tier=thorough timeout=2400 mem=12
    // @bounds W=4 H=3, 3 lines (a symbolic number of text lines first, then bar lines), each 0..=8 columns; top alignment; previous frame b in 0..=H rows, any cursor column, parked/unparked start; some bar line does NOT fit into H rows (painting must stop at the first bar that does not fit)
    #[kani::proof]
    #[kani::unwind(7)]
    //@STUBS widthascii repeat
    fn c19_overflow_w4h3n3() {
        let c = step(4, 3, 3, false, 0, 2);
        kani::cover!(c & 1 != 0);
    }

    // @harness id=C19 tier=thorough timeout=2400 mem=12
    // @bounds W=3 H=2, 3 lines (a symbolic number of text lines first, then bar lines), each 0..=6 columns; bottom alignment; previous frame b in 0..=H rows, any cursor column, parked/unparked start; some bar line does NOT fit into H rows (painting must stop at the first bar that does not fit)
    #[kani::proof]
    #[kani::unwind(7)]
    //@STUBS widthascii repeat
    fn c19_overflow_w3h2n3b() {
        let c = step(3, 2, 3, true, 0, 2);
        kani::cover!(c & 1 != 0);
    }
}
