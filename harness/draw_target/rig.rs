// Shared rig for draw targets: "this target kind is not part of the harness" stubs. Each stub PANICS when reached,
// so it cannot hide behaviour: if the code under test ever reaches a console::Term or a MultiState in a harness that
// constructs neither, the harness fails instead of silently losing paths. Their only purpose is to stop CBMC from
// exploring target kinds that the harness never builds (the enum discriminant is read back from the heap and is not
// constant-propagated).
#[cfg(kani)]
pub(crate) mod verif_rig_dt {
    use super::*;

    pub(crate) fn no_term_is_term(_t: &Term) -> bool {
        panic!("verif: console::Term reached in a harness without a Term target")
    }
    pub(crate) fn no_term_size(_t: &Term) -> (u16, u16) {
        panic!("verif: console::Term reached in a harness without a Term target")
    }
    pub(crate) fn no_multi_draw(_s: &mut MultiState, _f: bool, _e: Option<Vec<LineType>>, _n: Instant) -> io::Result<()> {
        panic!("verif: MultiState reached in a harness without a MultiProgress")
    }
    pub(crate) fn no_multi_draw_state(_s: &mut MultiState, _i: usize) -> DrawStateWrapper<'_> {
        panic!("verif: MultiState reached in a harness without a MultiProgress")
    }
    pub(crate) fn no_multi_width(_s: &MultiState) -> Option<u16> {
        panic!("verif: MultiState reached in a harness without a MultiProgress")
    }
    pub(crate) fn no_multi_is_hidden(_s: &MultiState) -> bool {
        panic!("verif: MultiState reached in a harness without a MultiProgress")
    }
    pub(crate) fn no_multi_mark_zombie(_s: &mut MultiState, _i: usize) {
        panic!("verif: MultiState reached in a harness without a MultiProgress")
    }
}
