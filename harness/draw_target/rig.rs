// Shared rig for draw targets: "this target kind is not part of the harness" stubs. Each stub PANICS when reached,
// so it cannot hide behaviour: if the code under test ever reaches a console::Term or a MultiState in a harness that
// constructs neither, the harness fails instead of silently losing paths. Their only purpose is to stop CBMC from
// exploring target kinds that the harness never builds (the enum discriminant is read back from the heap and is not
// constant-propagated).
#[cfg(kani)]
pub(crate) mod verif_rig_dt {
    use super::*;

    pub(crate) fn no_term_is_term(_t: &Term) -> bool {
        panic!("verif: console::Term reached in a harness without a Term target")
    }
    pub(crate) fn no_term_size(_t: &Term) -> (u16, u16) {
        panic!("verif: console::Term reached in a harness without a Term target")
    }
    pub(crate) fn no_multi_draw(_s: &mut MultiState, _f: bool, _e: Option<Vec<LineType>>, _n: Instant) -> io::Result<()> {
        panic!("verif: MultiState reached in a harness without a MultiProgress")
    }
    pub(crate) fn no_multi_draw_state(_s: &mut MultiState, _i: usize) -> DrawStateWrapper<'_> {
        panic!("verif: MultiState reached in a harness without a MultiProgress")
    }
    pub(crate) fn no_multi_width(_s: &MultiState) -> Option<u16> {
        panic!("verif: MultiState reached in a harness without a MultiProgress")
    }
    pub(crate) fn no_multi_is_hidden(_s: &MultiState) -> bool {
        panic!("verif: MultiState reached in a harness without a MultiProgress")
    }
    pub(crate) fn no_multi_mark_zombie(_s: &mut MultiState, _i: usize) {
        panic!("verif: MultiState reached in a harness without a MultiProgress")
    }

    // ---- a console::Term that is NOT a tty: is_term() = false, size query answered, every OUTPUT method panics ----
    pub(crate) fn nontty_is_term(_t: &Term) -> bool {
        false
    }
    pub(crate) fn nontty_attended(_f: &console::TermFeatures<'_>) -> bool {
        false
    }
    pub(crate) fn nontty_size(_t: &Term) -> (u16, u16) {
        (24, 80)
    }
    pub(crate) fn term_out_str(_t: &Term, _s: &str) -> io::Result<()> {
        panic!("verif: terminal output operation on a hidden / non-tty target")
    }
    pub(crate) fn term_out_n(_t: &Term, _n: usize) -> io::Result<()> {
        panic!("verif: terminal output operation on a hidden / non-tty target")
    }
    pub(crate) fn term_out0(_t: &Term) -> io::Result<()> {
        panic!("verif: terminal output operation on a hidden / non-tty target")
    }

    // ---- the two token buckets are C05's subject (engine M decides them from their MIR). CBMC cannot finish their
    //      64/128-bit divisions, so harnesses about OTHER properties replace them by their interface contract:
    //      an arbitrary verdict, a fixed refusal (exhausted limiter), or a harness-controlled verdict. ----
    pub(crate) fn rl_any(_r: &mut RateLimiter, _now: Instant) -> bool {
        kani::any()
    }
    pub(crate) fn rl_refuse(_r: &mut RateLimiter, _now: Instant) -> bool {
        false
    }
    pub(crate) static mut RL_VERDICT: bool = true;
    pub(crate) fn rl_controlled(_r: &mut RateLimiter, _now: Instant) -> bool {
        unsafe { RL_VERDICT }
    }
    pub(crate) fn pos_any(_p: &crate::state::AtomicPosition, _now: Instant) -> bool {
        kani::any()
    }
}
