// Shared rig for draw targets: "this target kind is not part of the harness" stubs. Each stub PANICS when reached,
// so it cannot hide behaviour: if the code under test ever reaches a console::Term or a MultiState in a harness that
// constructs neither, the harness fails instead of silently losing paths. Their only purpose is to stop CBMC from
// exploring target kinds that the harness never builds (the enum discriminant is read back from the heap and is not
// constant-propagated).
#[cfg(kani)]
pub(crate) mod verif_rig_dt {
    use super::*;

    pub(crate) fn no_term_is_term(_t: &Term) -> bool {
        panic!("verif: console::Term reached in a harness without a Term target")
    }
    pub(crate) fn no_term_size(_t: &Term) -> (u16, u16) {
        panic!("verif: console::Term reached in a harness without a Term target")
    }
    pub(crate) fn no_multi_draw(_s: &mut MultiState, _f: bool, _e: Option<Vec<LineType>>, _n: Instant) -> io::Result<()> {
        panic!("verif: MultiState reached in a harness without a MultiProgress")
    }
    pub(crate) fn no_multi_draw_state(_s: &mut MultiState, _i: usize) -> DrawStateWrapper<'_> {
        panic!("verif: MultiState reached in a harness without a MultiProgress")
    }
    pub(crate) fn no_multi_width(_s: &MultiState) -> Option<u16> {
        panic!("verif: MultiState reached in a harness without a MultiProgress")
    }
    pub(crate) fn no_multi_is_hidden(_s: &MultiState) -> bool {
        panic!("verif: MultiState reached in a harness without a MultiProgress")
    }
    pub(crate) fn no_multi_mark_zombie(_s: &mut MultiState, _i: usize) {
        panic!("verif: MultiState reached in a harness without a MultiProgress")
    }

    // ---- a console::Term that is NOT a tty: is_term() = false, size query answered, every OUTPUT method panics ----
    pub(crate) fn nontty_is_term(_t: &Term) -> bool {
        false
    }
    // `'a: 'a` makes the lifetime early-bound, like the impl-level lifetime of TermFeatures<'a>::is_attended (Kani compares generics counts)
    pub(crate) fn nontty_attended<'a>(_f: &console::TermFeatures<'a>) -> bool
    where
        'a: 'a,
    {
        false
    }
    pub(crate) fn nontty_size(_t: &Term) -> (u16, u16) {
        (24, 80)
    }
    pub(crate) fn term_out_str(_t: &Term, _s: &str) -> io::Result<()> {
        panic!("verif: terminal output operation on a hidden / non-tty target")
    }
    pub(crate) fn term_out_n(_t: &Term, _n: usize) -> io::Result<()> {
        panic!("verif: terminal output operation on a hidden / non-tty target")
    }
    pub(crate) fn term_out0(_t: &Term) -> io::Result<()> {
        panic!("verif: terminal output operation on a hidden / non-tty target")
    }

    // ---- the two token buckets are C05's subject (engine M decides them from their MIR). CBMC cannot finish their
    //      64/128-bit divisions, so harnesses about OTHER properties replace them by their interface contract:
    //      an arbitrary verdict, a fixed refusal (exhausted limiter), or a harness-controlled verdict. ----
    pub(crate) fn rl_any(_r: &mut RateLimiter, _now: Instant) -> bool {
        kani::any()
    }
    pub(crate) fn rl_refuse(_r: &mut RateLimiter, _now: Instant) -> bool {
        false
    }
    pub(crate) static mut RL_VERDICT: bool = true;
    pub(crate) fn rl_controlled(_r: &mut RateLimiter, _now: Instant) -> bool {
        unsafe { RL_VERDICT }
    }
    pub(crate) fn pos_any(_p: &crate::state::AtomicPosition, _now: Instant) -> bool {
        kani::any()
    }

    // ---- contract stand-in for DrawState::draw_to_term (assume-guarantee): the C01/C19 step harnesses establish, on the
    //      detailed screen model, that draw_to_term erases exactly `bar_count` rows upward from the cursor row, paints the
    //      text lines and then the bar lines each on its wrapped rows, and leaves bar_count = painted bar rows. Harnesses
    //      about the layers ABOVE (BarState, MultiState) use that contract on a row stack instead of re-executing the
    //      terminal protocol (which costs CBMC tens of minutes per call). One-row lines, frames that fit, top alignment;
    //      the two recorded finding regions of draw_to_term are outside the contract.
    pub(crate) const STK: usize = 16;
    pub(crate) static mut STACK: [u8; STK] = [0; STK]; // one tag per screen row, bottom of the screen = STACK[SLEN-1]
    pub(crate) static mut SLEN: usize = 0;
    pub(crate) static mut DRAWS: usize = 0; // completed draw_to_term calls (frames flushed)
    pub(crate) static mut FAIL_DRAW_AT: usize = usize::MAX; // index of the draw_to_term call that reports an I/O error (C18)
    pub(crate) static mut CAP: [u8; 16] = [0; 16]; // bytes of the first bar line of the last frame
    pub(crate) static mut CAP_N: usize = 0;
    pub(crate) static mut CAP_TAB: bool = false;
    pub(crate) static mut LAST_TEXT: usize = 0; // number of text lines in the last frame
    pub(crate) static mut LAST_BARS: usize = 0; // number of bar lines in the last frame

    pub(crate) fn stack_push(tag: u8) {
        unsafe {
            assert!(SLEN < STK);
            STACK[SLEN] = tag;
            SLEN += 1;
        }
    }

    pub(crate) fn contract_draw_to_term<T: TermLike + ?Sized>(ds: &mut DrawState, _term: &T, bar_count: &mut VisualLines) -> io::Result<()> {
        unsafe {
            let call = DRAWS;
            DRAWS += 1;
            if call == FAIL_DRAW_AT {
                // draw_to_term propagates terminal errors with `?` BEFORE updating bar_count
                return Err(io::Error::from(io::ErrorKind::BrokenPipe));
            }
            // erase exactly bar_count rows upward from the cursor row
            let n = bar_count.as_usize();
            assert!(n <= SLEN, "contract: more rows to erase than the screen has (over-counted rows)");
            assert!(SLEN - n >= LOG_FLOOR, "a printed log row would be erased by this draw");
            SLEN -= n;
            let mut text = 0;
            let mut bars = 0;
            let mut first_bar = usize::MAX;
            CAP_N = 0;
            crate::verif_common::rep12!(i, {
                if i < ds.lines.len() {
                    let l = &ds.lines[i];
                    let b = l.as_ref().as_bytes();
                    let tag = if b.is_empty() { 1 } else { b[0] };
                    match l {
                        LineType::Bar(_) => {
                            if bars == 0 {
                                first_bar = i;
                            }
                            bars += 1;
                        }
                        _ => {
                            // text lines must precede bar lines
                            assert!(bars == 0, "contract: text line after a bar line");
                            text += 1;
                        }
                    }
                    stack_push(tag);
                }
            });
            assert!(ds.lines.len() <= 12);
            if first_bar != usize::MAX {
                let b = ds.lines[first_bar].as_ref().as_bytes();
                macro_rules! cap1 {
                    ($j:expr) => {
                        if $j < b.len() {
                            CAP[$j] = b[$j];
                            if b[$j] == b'\t' {
                                CAP_TAB = true;
                            }
                            CAP_N = $j + 1;
                        }
                    };
                }
                cap1!(0);
                cap1!(1);
                cap1!(2);
                cap1!(3);
                cap1!(4);
                cap1!(5);
                cap1!(6);
                cap1!(7);
                cap1!(8);
                cap1!(9);
                cap1!(10);
                cap1!(11);
                cap1!(12);
                cap1!(13);
                cap1!(14);
                cap1!(15);
            }
            LAST_TEXT = text;
            LAST_BARS = bars;
            *bar_count = VisualLines::from(bars);
        }
        Ok(())
    }

    pub(crate) static mut LOG_FLOOR: usize = 0; // rows [0, LOG_FLOOR) are log rows that must never be erased

    /// `CAP[..n] == want[..n]` and CAP_N == n, loop-free
    pub(crate) fn cap_is(want: &[u8; 16], n: usize) -> bool {
        unsafe {
            if CAP_N != n {
                return false;
            }
            let mut ok = true;
            macro_rules! chk {
                ($i:expr) => {
                    if $i < n {
                        ok &= CAP[$i] == want[$i];
                    }
                };
            }
            chk!(0);
            chk!(1);
            chk!(2);
            chk!(3);
            chk!(4);
            chk!(5);
            chk!(6);
            chk!(7);
            chk!(8);
            chk!(9);
            chk!(10);
            chk!(11);
            chk!(12);
            chk!(13);
            chk!(14);
            chk!(15);
            ok
        }
    }

    /// A terminal that accepts everything; the terminal protocol itself is covered by the draw_to_term step harnesses.
    #[derive(Debug)]
    pub(crate) struct NullTerm {
        pub w: u16,
        pub h: u16,
    }
    pub(crate) static mut TERM_CALLS: usize = 0;
    impl TermLike for NullTerm {
        fn width(&self) -> u16 {
            self.w
        }
        fn height(&self) -> u16 {
            self.h
        }
        fn move_cursor_up(&self, _n: usize) -> io::Result<()> {
            unsafe { TERM_CALLS += 1 };
            Ok(())
        }
        fn move_cursor_down(&self, _n: usize) -> io::Result<()> {
            unsafe { TERM_CALLS += 1 };
            Ok(())
        }
        fn move_cursor_right(&self, _n: usize) -> io::Result<()> {
            unsafe { TERM_CALLS += 1 };
            Ok(())
        }
        fn move_cursor_left(&self, _n: usize) -> io::Result<()> {
            unsafe { TERM_CALLS += 1 };
            Ok(())
        }
        fn write_line(&self, _s: &str) -> io::Result<()> {
            unsafe { TERM_CALLS += 1 };
            Ok(())
        }
        fn write_str(&self, _s: &str) -> io::Result<()> {
            unsafe { TERM_CALLS += 1 };
            Ok(())
        }
        fn clear_line(&self) -> io::Result<()> {
            unsafe { TERM_CALLS += 1 };
            Ok(())
        }
        fn flush(&self) -> io::Result<()> {
            unsafe { TERM_CALLS += 1 };
            Ok(())
        }
    }

    /// TermLike target over a NullTerm with a limiter (whose verdict the harness controls through the rl* stubs)
    pub(crate) fn null_target(w: u16, h: u16, last: usize) -> ProgressDrawTarget {
        ProgressDrawTarget {
            kind: TargetKind::TermLike {
                inner: Box::new(NullTerm { w, h }),
                last_line_count: VisualLines::from(last),
                rate_limiter: Some(RateLimiter::new(20)),
                // pre-sized: growing a Vec means an allocation of symbolic size for CBMC
                draw_state: DrawState { lines: Vec::with_capacity(8), move_cursor: false, alignment: MultiProgressAlignment::Top },
            },
        }
    }

    pub(crate) fn target_last_rows(t: &ProgressDrawTarget) -> usize {
        match &t.kind {
            TargetKind::TermLike { last_line_count, .. } => last_line_count.as_usize(),
            TargetKind::Term { last_line_count, .. } => last_line_count.as_usize(),
            _ => 0,
        }
    }

    // ---- one-row lines: the row count of a slice of lines is its length (contract of visual_line_count for lines that
    //      are not wider than the terminal; the real function is C01/C19's subject) ----
    pub(crate) fn rows_are_lines(lines: &[LineType], _width: usize) -> VisualLines {
        VisualLines::from(lines.len())
    }
    pub(crate) fn ds_rows_are_lines<R: std::slice::SliceIndex<[LineType], Output = [LineType]>>(ds: &DrawState, range: R, _width: usize) -> VisualLines {
        VisualLines::from(ds.lines[range].len())
    }

    // ---- LineType::clone with constant-size copies: the harness lines are one-letter strings, so the clone is rebuilt
    //      from a static string of the same letter (CBMC encodes a memcpy of symbolic length as a whole-object array copy) ----
    pub(crate) fn clone_one_letter_line(l: &LineType) -> LineType {
        fn st(s: &str) -> String {
            let b = s.as_bytes();
            assert!(b.len() <= 1, "harness lines are one letter or empty");
            String::from(if b.is_empty() {
                ""
            } else {
                match b[0] {
                    b'A' => "A",
                    b'B' => "B",
                    b'C' => "C",
                    b'D' => "D",
                    b'x' => "x",
                    b'y' => "y",
                    _ => "?",
                }
            })
        }
        match l {
            LineType::Text(s) => LineType::Text(st(s)),
            LineType::Bar(s) => LineType::Bar(st(s)),
            LineType::Empty => LineType::Empty,
        }
    }

    // ---- harnesses that call MultiState methods directly never go through an RwLock; the draw target of a MultiProgress
    //      is never itself a remote target. Cutting the lock functions (panicking stubs) stops CBMC from following the
    //      Multi arm of drawable()/width()/is_hidden() back into MultiState::draw recursively. ----
    pub(crate) fn no_rwlock_write<T>(_l: &RwLock<T>) -> std::sync::LockResult<RwLockWriteGuard<'_, T>> {
        panic!("verif: RwLock::write reached in a harness that drives MultiState directly")
    }
    pub(crate) fn no_rwlock_read<T>(_l: &RwLock<T>) -> std::sync::LockResult<std::sync::RwLockReadGuard<'_, T>> {
        panic!("verif: RwLock::read reached in a harness that drives MultiState directly")
    }
}
