// C01 — inductive draw_to_term step on the abstract terminal (see step.rs / scr.rs).
// @file-encodes draw_target::DrawState::draw_to_term, draw_target::LineType::wrapped_height, draw_target::LineType::console_width, draw_target::DrawState::visual_line_count, draw_target::visual_line_count, draw_target::VisualLines arithmetic
// @file-assumes terminal = abstract screen model verif_scr::Scr (deferred wrap, visible window of H rows, cursor moves clamp at the window); console::measure_text_width = byte length (lines are ASCII tag letters); str::repeat replaced by a fixed-capacity filler; move_cursor=false; lines contain no newline (precondition established by the composition harnesses)
#[cfg(kani)]
mod verif_c01_step {
    use super::verif_step::*;
    use super::*;

    // @harness id=C01 tier=quick timeout=2400 mem=12
    // @bounds W=2 H=2, 0 lines (a symbolic number of text lines first, then bar lines), each 0..=4 columns; top alignment; previous frame b in 0..=H rows, any cursor column, parked/unparked start; all bar lines fit into H rows; excludes the recorded finding region (zero-width first line after a text-only draw)
    #[kani::proof]
    #[kani::unwind(7)]
    //@STUBS widthascii repeat
    fn c01_step_w2h2n0() {
        let c = step(2, 2, 0, false, 0, 1);
        kani::cover!(c & 2 != 0);
        kani::cover!(c & 16 != 0);
    }

    // @harness id=C01 tier=quick timeout=2400 mem=12
    // @bounds W=2 H=2, 1 lines (a symbolic number of text lines first, then bar lines), each 0..=4 columns; top alignment; previous frame b in 0..=H rows, any cursor column, parked/unparked start; all bar lines fit into H rows; excludes the recorded finding region (zero-width first line after a text-only draw)
    #[kani::proof]
    #[kani::unwind(7)]
    //@STUBS widthascii repeat
    fn c01_step_w2h2n1() {
        let c = step(2, 2, 1, false, 0, 1);
        kani::cover!(c & 2 != 0);
        kani::cover!(c & 8 != 0);
        kani::cover!(c & 64 != 0);
    }

    // @harness id=C01 tier=quick timeout=2400 mem=12
    // @bounds W=2 H=3, 2 lines (a symbolic number of text lines first, then bar lines), each 0..=4 columns; top alignment; previous frame b in 0..=H rows, any cursor column, parked/unparked start; all bar lines fit into H rows; excludes the recorded finding region (zero-width first line after a text-only draw)
    #[kani::proof]
    #[kani::unwind(7)]
    //@STUBS widthascii repeat
    fn c01_step_w2h3n2() {
        let c = step(2, 3, 2, false, 0, 1);
        kani::cover!(c & 2 != 0);
        kani::cover!(c & 32 != 0);
        kani::cover!(c & 8 != 0);
        kani::cover!(c & 64 != 0);
    }

    // @harness id=C01 tier=quick timeout=2400 mem=12
    // @bounds W=3 H=2, 2 lines (a symbolic number of text lines first, then bar lines), each 0..=6 columns; top alignment; previous frame b in 0..=H rows, any cursor column, parked/unparked start; all bar lines fit into H rows; excludes the recorded finding region (zero-width first line after a text-only draw)
    #[kani::proof]
    #[kani::unwind(7)]
    //@STUBS widthascii repeat
    fn c01_step_w3h2n2() {
        let c = step(3, 2, 2, false, 0, 1);
        kani::cover!(c & 2 != 0);
        kani::cover!(c & 32 != 0);
        kani::cover!(c & 8 != 0);
        kani::cover!(c & 64 != 0);
    }

    // @harness id=C01 tier=quick timeout=2400 mem=12
    // @bounds W=1 H=2, 2 lines (a symbolic number of text lines first, then bar lines), each 0..=2 columns; top alignment; previous frame b in 0..=H rows, any cursor column, parked/unparked start; all bar lines fit into H rows; excludes the recorded finding region (zero-width first line after a text-only draw)
    #[kani::proof]
    #[kani::unwind(7)]
    //@STUBS widthascii repeat
    fn c01_step_w1h2n2() {
        let c = step(1, 2, 2, false, 0, 1);
        kani::cover!(c & 2 != 0);
        kani::cover!(c & 32 != 0);
        kani::cover!(c & 8 != 0);
        kani::cover!(c & 64 != 0);
    }

    // @harness id=C01 tier=quick timeout=2400 mem=12
    // @bounds W=2 H=3, 1 lines (a symbolic number of text lines first, then bar lines), each 0..=4 columns; bottom alignment; previous frame b in 0..=H rows, any cursor column, parked/unparked start; all bar lines fit into H rows; excludes the recorded finding region (zero-width first line after a text-only draw)
    #[kani::proof]
    #[kani::unwind(7)]
    //@STUBS widthascii repeat
    fn c01_step_w2h3n1b() {
        let c = step(2, 3, 1, true, 0, 1);
        kani::cover!(c & 2 != 0);
        kani::cover!(c & 8 != 0);
        kani::cover!(c & 4 != 0);
        kani::cover!(c & 64 != 0);
    }

    // @harness id=C01 tier=quick timeout=2400 mem=12
    // @bounds W=2 H=2, 0 lines (a symbolic number of text lines first, then bar lines), each 0..=4 columns; bottom alignment; previous frame b in 0..=H rows, any cursor column, parked/unparked start; all bar lines fit into H rows; excludes the recorded finding region (zero-width first line after a text-only draw)
    #[kani::proof]
    #[kani::unwind(7)]
    //@STUBS widthascii repeat
    fn c01_step_w2h2n0b() {
        let c = step(2, 2, 0, true, 0, 1);
        kani::cover!(c & 2 != 0);
        kani::cover!(c & 16 != 0);
        kani::cover!(c & 4 != 0);
    }

    // @harness id=C01 tier=quick timeout=2400 mem=12
    // @bounds W=1 H=1, 1 lines (a symbolic number of text lines first, then bar lines), each 0..=2 columns; top alignment; previous frame b in 0..=H rows, any cursor column, parked/unparked start; all bar lines fit into H rows; excludes the recorded finding region (zero-width first line after a text-only draw)
    #[kani::proof]
    #[kani::unwind(7)]
    //@STUBS widthascii repeat
    fn c01_step_w1h1n1() {
        let c = step(1, 1, 1, false, 0, 1);
        kani::cover!(c & 2 != 0);
        kani::cover!(c & 64 != 0);
    }

    // @harness id=C01 tier=thorough timeout=2400 mem=12
    // @bounds W=3 H=3, 3 lines (a symbolic number of text lines first, then bar lines), each 0..=6 columns; top alignment; previous frame b in 0..=H rows, any cursor column, parked/unparked start; all bar lines fit into H rows; excludes the recorded finding region (zero-width first line after a text-only draw)
    #[kani::proof]
    #[kani::unwind(7)]
    //@STUBS widthascii repeat
    fn c01_step_w3h3n3() {
        let c = step(3, 3, 3, false, 0, 1);
        kani::cover!(c & 2 != 0);
        kani::cover!(c & 32 != 0);
        kani::cover!(c & 8 != 0);
        kani::cover!(c & 64 != 0);
    }

    // @harness id=C01 tier=thorough timeout=2400 mem=12
    // @bounds W=4 H=4, 3 lines (a symbolic number of text lines first, then bar lines), each 0..=8 columns; top alignment; previous frame b in 0..=H rows, any cursor column, parked/unparked start; all bar lines fit into H rows; excludes the recorded finding region (zero-width first line after a text-only draw)
    #[kani::proof]
    #[kani::unwind(7)]
    //@STUBS widthascii repeat
    fn c01_step_w4h4n3() {
        let c = step(4, 4, 3, false, 0, 1);
        kani::cover!(c & 2 != 0);
        kani::cover!(c & 32 != 0);
        kani::cover!(c & 8 != 0);
        kani::cover!(c & 64 != 0);
    }

    // @harness id=C01 tier=thorough timeout=2400 mem=12
    // @bounds W=2 H=4, 3 lines (a symbolic number of text lines first, then bar lines), each 0..=4 columns; top alignment; previous frame b in 0..=H rows, any cursor column, parked/unparked start; all bar lines fit into H rows; excludes the recorded finding region (zero-width first line after a text-only draw)
    #[kani::proof]
    #[kani::unwind(7)]
    //@STUBS widthascii repeat
    fn c01_step_w2h4n3() {
        let c = step(2, 4, 3, false, 0, 1);
        kani::cover!(c & 2 != 0);
        kani::cover!(c & 32 != 0);
        kani::cover!(c & 8 != 0);
        kani::cover!(c & 64 != 0);
    }

    // @harness id=C01 tier=thorough timeout=2400 mem=12
    // @bounds W=4 H=2, 2 lines (a symbolic number of text lines first, then bar lines), each 0..=8 columns; top alignment; previous frame b in 0..=H rows, any cursor column, parked/unparked start; all bar lines fit into H rows; excludes the recorded finding region (zero-width first line after a text-only draw)
    #[kani::proof]
    #[kani::unwind(7)]
    //@STUBS widthascii repeat
    fn c01_step_w4h2n2() {
        let c = step(4, 2, 2, false, 0, 1);
        kani::cover!(c & 2 != 0);
        kani::cover!(c & 32 != 0);
        kani::cover!(c & 8 != 0);
        kani::cover!(c & 64 != 0);
    }

    // @harness id=C01 tier=thorough timeout=2400 mem=12
    // @bounds W=2 H=3, 2 lines (a symbolic number of text lines first, then bar lines), each 0..=4 columns; bottom alignment; previous frame b in 0..=H rows, any cursor column, parked/unparked start; all bar lines fit into H rows; excludes the recorded finding region (zero-width first line after a text-only draw)
    #[kani::proof]
    #[kani::unwind(7)]
    //@STUBS widthascii repeat
    fn c01_step_w2h3n2b() {
        let c = step(2, 3, 2, true, 0, 1);
        kani::cover!(c & 2 != 0);
        kani::cover!(c & 32 != 0);
        kani::cover!(c & 8 != 0);
        kani::cover!(c & 4 != 0);
        kani::cover!(c & 64 != 0);
    }

    // @harness id=C01 tier=thorough timeout=2400 mem=12
    // @bounds W=3 H=3, 3 lines (a symbolic number of text lines first, then bar lines), each 0..=6 columns; bottom alignment; previous frame b in 0..=H rows, any cursor column, parked/unparked start; all bar lines fit into H rows; excludes the recorded finding region (zero-width first line after a text-only draw)
    #[kani::proof]
    #[kani::unwind(7)]
    //@STUBS widthascii repeat
    fn c01_step_w3h3n3b() {
        let c = step(3, 3, 3, true, 0, 1);
        kani::cover!(c & 2 != 0);
        kani::cover!(c & 32 != 0);
        kani::cover!(c & 8 != 0);
        // (no bottom padding is possible here: 3 lines occupy at least the H = 3 rows of the largest previous frame)
        kani::cover!(c & 64 != 0);
    }

    // @harness id=C01 tier=thorough timeout=2400 mem=12
    // @bounds W=3 H=3, 0 lines (a symbolic number of text lines first, then bar lines), each 0..=6 columns; bottom alignment; previous frame b in 0..=H rows, any cursor column, parked/unparked start; all bar lines fit into H rows; excludes the recorded finding region (zero-width first line after a text-only draw)
    #[kani::proof]
    #[kani::unwind(7)]
    //@STUBS widthascii repeat
    fn c01_step_w3h3n0b() {
        let c = step(3, 3, 0, true, 0, 1);
        kani::cover!(c & 2 != 0);
        kani::cover!(c & 16 != 0);
        kani::cover!(c & 4 != 0);
    }

    // @harness id=C01 tier=thorough timeout=2400 mem=12
    // @bounds W=4 H=4, 2 lines (a symbolic number of text lines first, then bar lines), each 0..=8 columns; bottom alignment; previous frame b in 0..=H rows, any cursor column, parked/unparked start; all bar lines fit into H rows; excludes the recorded finding region (zero-width first line after a text-only draw)
    #[kani::proof]
    #[kani::unwind(7)]
    //@STUBS widthascii repeat
    fn c01_step_w4h4n2b() {
        let c = step(4, 4, 2, true, 0, 1);
        kani::cover!(c & 2 != 0);
        kani::cover!(c & 32 != 0);
        kani::cover!(c & 8 != 0);
        kani::cover!(c & 4 != 0);
        kani::cover!(c & 64 != 0);
    }

    // @harness id=C01 tier=quick timeout=2400 mem=12 expect=known:C01-zero-width-first-line-after-text-only-draw
    // @bounds W=2 H=3, 2 lines (a symbolic number of text lines first, then bar lines), each 0..=4 columns; top alignment; previous frame b in 0..=H rows, any cursor column, parked/unparked start; ONLY: parked start (after a text-only draw), first of the 2 lines has zero width
    #[kani::proof]
    #[kani::unwind(7)]
    //@STUBS widthascii repeat
    fn c01_kf1_zero_width_first_line() {
        let c = step(2, 3, 2, false, 1, 1);
        kani::cover!(true);
    }

    // @harness id=C01 tier=quick timeout=2400 mem=12
    // @bounds W=2 H=3, 2 lines (a symbolic number of text lines first, then bar lines), each 0..=4 columns; bottom alignment; previous frame b in 0..=H rows, any cursor column, parked/unparked start; ONLY: bottom alignment, frame shrinks, at least one text line in the same draw
    #[kani::proof]
    #[kani::unwind(7)]
    //@STUBS widthascii repeat
    fn c01_kf2_bottom_shrink_with_text() {
        let c = step(2, 3, 2, true, 2, 1);
        kani::cover!(true);
    }
}
