// C18 — DrawState::draw_to_term on a failing terminal: the error of the k-th terminal call is propagated, nothing panics,
// and last_line_count is updated only by a draw that completed (so the next, healthy draw still erases the old frame).
// @file-encodes draw_target::DrawState::draw_to_term
// @file-assumes abstract screen model; the k-th terminal call (k symbolic, 0..=15) fails once or from then on with BrokenPipe; lines are ASCII tag letters
#[cfg(kani)]
mod verif_c18_dtt {
    use super::verif_scr::*;
    use super::*;

    // @harness id=C18 tier=quick timeout=2400 mem=12
    // @bounds W=2, H=3, previous frame b in 0..=3 rows, 2 lines (text/bar symbolic) of 0..=4 columns, failing terminal call k in 0..=15 (once or sticky): Err is returned iff the failing call was reached, no panic, last_line_count unchanged on Err; a following healthy draw of an empty frame succeeds
    #[kani::proof]
    #[kani::unwind(7)]
    //@STUBS widthascii repeat
    fn c18_draw_to_term_propagates_errors() {
        let scr = Scr::new(2, 3);
        let b: usize = kani::any();
        kani::assume(b <= 3);
        scr_with_frame(&scr, 3, b);
        let mut ds = DrawState::default();
        ds.lines = Vec::with_capacity(4);
        let nt: usize = kani::any();
        kani::assume(nt <= 2);
        let mut k = 0;
        while k < 2 {
            let l: usize = kani::any();
            kani::assume(l <= 4);
            let letter = if k < nt { b'a' + k as u8 } else { b'A' + k as u8 };
            let s = mk_line(letter, l);
            ds.lines.push(if k < nt { LineType::Text(s) } else { LineType::Bar(s) });
            k += 1;
        }
        let fail: usize = kani::any();
        kani::assume(fail <= 15);
        scr.fail_at.set(fail);
        scr.fail_sticky.set(kani::any());
        let mut last = VisualLines::from(b);
        let r = ds.draw_to_term(&scr, &mut last);
        let made = scr.calls.get();
        assert!(r.is_err() == (fail < made));
        if r.is_err() {
            assert!(last.as_usize() == b);
        }
        // healthy again
        scr.fail_at.set(usize::MAX);
        scr.fail_sticky.set(false);
        let mut empty = DrawState::default();
        assert!(empty.draw_to_term(&scr, &mut last).is_ok());
        assert!(last.as_usize() == 0);
        kani::cover!(r.is_err() && fail > 5);
        kani::cover!(r.is_ok());
        std::mem::forget(ds);
    }
}
