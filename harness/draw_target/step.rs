// One inductive step of DrawState::draw_to_term on the abstract terminal, from ANY pre-state of the invariant Inv1:
//   rows [0,fs) are log rows; the previous frame occupies exactly b = last_line_count rows [fs, r0], b <= H;
//   the cursor is on row r0 (any column, deferred wrap included); if b == 0 the cursor is either at column 0 of the
//   first free row (initially / after a clear) or parked in deferred wrap at the end of the last log row (after a
//   text-only draw). The post-state is asserted to satisfy Inv1 again, which closes the induction over histories.
// Shared by the C01 and C19 harness files (no @harness annotation here).
#[cfg(kani)]
pub(crate) mod verif_step {
    use super::verif_scr::*;
    use super::*;
    use std::cell::Cell;


    /// region 0: everything except the two recorded finding regions; 1: KF1 only; 2: KF2 only.
    /// fit 0: any; 1: all bar lines fit into the terminal height; 2: some bar line does not fit.
    /// Returns a small code describing which interesting case was taken (for kani::cover! in the callers).
    pub(crate) fn step(w: usize, h: usize, nl: usize, bottom: bool, region: u8, fit: u8) -> u32 {
        // cursor row before the step: leaves at least one log row above a frame of b <= h rows
        #[allow(non_snake_case)]
        let R0 = h;
        let b: usize = kani::any();
        kani::assume(b <= h);
        let scr = Scr::new(w, h);
        let fs = R0 + 1 - b; // first row of the old frame (== R0+1 when b == 0)
        let parked: bool = kani::any();
        let c0: usize = kani::any();
        kani::assume(c0 <= w);
        rows!(i, {
            if i < fs {
                scr.tags[i].set(T_LOG);
            } else if i <= R0 {
                scr.tags[i].set(T_OLD);
            }
        });
        if b > 0 {
            scr.row.set(R0);
            scr.col.set(c0);
            scr.maxrow.set(R0);
        } else if parked {
            scr.row.set(R0);
            scr.col.set(w);
            scr.maxrow.set(R0);
        } else {
            scr.row.set(R0 + 1);
            scr.col.set(0);
            scr.maxrow.set(R0 + 1);
        }
        let pend = b == 0 && parked;

        // ---- the new frame: n lines, the first nt are text lines, the rest bar lines; symbolic lengths
        // the number of lines and the alignment are concrete per instance (a symbolic Vec length makes every loop of
        // the code under test unwind to the harness bound); how many of them are text lines is symbolic
        let n: usize = nl;
        let nt: usize = kani::any();
        kani::assume(nt <= n);
        let mut lens = [0usize; 3];
        let mut hs = [0usize; 3];
        let mut ds = DrawState::default();
        ds.lines = Vec::with_capacity(4);
        ds.alignment = if bottom { MultiProgressAlignment::Bottom } else { MultiProgressAlignment::Top };
        let mut full = 0;
        let mut k = 0;
        while k < n {
            let l: usize = kani::any();
            kani::assume(l <= 2 * w);
            lens[k] = l;
            hs[k] = hgt(l, w);
            full += hs[k];
            let letter = if k < nt { b'a' + k as u8 } else { b'A' + k as u8 };
            let s = mk_line(letter, l);
            ds.lines.push(if k < nt { LineType::Text(s) } else { LineType::Bar(s) });
            k += 1;
        }
        // which lines get painted: all text lines, then the longest prefix of bar lines that fits into h rows
        let mut np = 0;
        let mut bars = 0;
        let mut k = 0;
        let mut stop = false;
        while k < n {
            if !stop {
                if k >= nt {
                    if bars + hs[k] > h {
                        stop = true;
                    } else {
                        bars += hs[k];
                        np += 1;
                    }
                } else {
                    np += 1;
                }
            }
            k += 1;
        }
        match fit {
            1 => kani::assume(!stop),
            2 => kani::assume(stop),
            _ => {}
        }
        let shift = if bottom && full < b { b - full } else { 0 };
        let kf1 = pend && n >= 2 && lens[0] == 0;
        let kf2 = shift > 0 && nt > 0;
        // region 0: everything except the recorded finding kf1; region 1: the finding's witness region; region 2: bottom
        // alignment shrinking in a draw that also prints text lines (repaired defect, kept as an explicitly covered region)
        match region {
            0 => kani::assume(!kf1),
            1 => kani::assume(kf1 && !kf2),
            _ => kani::assume(kf2 && !kf1),
        }

        let mut last = VisualLines::from(b);
        let r = ds.draw_to_term(&scr, &mut last);
        assert!(r.is_ok());
        kani::assume(!scr.ovf.get());
        let last = last.as_usize();

        // (1) log rows untouched, (2) no remnant of the old frame anywhere
        rows!(i, {
            if i < fs {
                assert!(scr.tag(i) == T_LOG);
            } else {
                assert!(scr.tag(i) != T_OLD);
            }
        });
        // (3) layout from the origin: the text lines, then the `shift` blank rows of a shrinking bottom-aligned frame, then
        //     the painted bar lines, each line on its wrapped rows, in order
        let o = if pend { R0 + 1 } else { fs };
        let mut row = o;
        {
            let mut k = 0;
            while k < np {
                if k == nt {
                    let mut j = 0;
                    while j < shift {
                        assert!(scr.is_blank(row));
                        row += 1;
                        j += 1;
                    }
                }
                let letter = if k < nt { b'a' + k as u8 } else { b'A' + k as u8 };
                let mut j = 0;
                while j < hs[k] {
                    if lens[k] == 0 {
                        assert!(scr.is_blank(row));
                    } else {
                        assert!(scr.tag(row) == letter);
                    }
                    row += 1;
                    j += 1;
                }
                k += 1;
            }
            // no bar line was painted: the blank rows follow the text lines
            let trailing = np <= nt && shift > 0;
            if trailing {
                let mut j = 0;
                while j < shift {
                    assert!(scr.is_blank(row));
                    row += 1;
                    j += 1;
                }
            }
            // nothing below the frame
            rows!(i, {
                if i >= row {
                    assert!(scr.is_blank(i));
                }
            });
            // (4) row accounting: exactly the painted bar rows (+ bottom padding) will be erased by the next draw
            assert!(last == bars + shift);
            // (5) cursor: parked at the right edge of the last painted row (next ordinary output starts on a fresh
            //     line) when the whole frame was painted; at column 0 of the last blank row when the frame ends with padding
            if np > 0 {
                assert!(scr.row.get() + 1 == row);
                if trailing {
                    assert!(scr.col.get() == 0);
                } else if np == n {
                    assert!(scr.col.get() == w);
                }
            } else if b > 0 {
                // nothing painted: the cursor rests at column 0 below the (blank) padding, i.e. at the frame origin when there is none
                assert!(scr.row.get() == fs + shift && scr.col.get() == 0);
            }
        }
        // (6) Inv1 again: the `last` rows ending at the cursor row are frame rows (no log/text row among them), they
        //     lie inside the visible window (the top of the managed region never scrolls out of reach), last <= H
        assert!(last <= h);
        let cr = scr.row.get();
        assert!(last <= cr + 1);
        if last > 0 {
            let first = cr + 1 - last;
            assert!(first >= scr.top());
            assert!(first >= fs);
            rows!(i, {
                if i >= first && i <= cr {
                    let t = scr.tag(i);
                    assert!(t == T_BLANK || t == T_SPACE || (t >= b'A' && t <= b'D'));
                }
            });
        }
        // every painted bar row is inside the erase range of the next draw
        rows!(i, {
            let t = scr.tag(i);
            if t >= b'A' && t <= b'D' {
                assert!(i + last > cr && i <= cr);
            }
        });
        std::mem::forget(ds);
        let mut code = 0u32;
        if stop {
            code |= 1;
        }
        if pend {
            code |= 2;
        }
        if shift > 0 {
            code |= 4;
        }
        if n > 0 && hs[0] > 1 {
            code |= 8;
        }
        if n == 0 && b > 0 {
            code |= 16;
        }
        if nt > 0 && nt < n {
            code |= 32;
        }
        if n > 0 && lens[n - 1] == hs[n - 1] * w {
            code |= 64;
        }
        code
    }
}
