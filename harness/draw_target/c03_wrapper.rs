// C03 — printed lines of a member bar are handed to its MultiProgress exactly once: DrawStateWrapper::drop (for_multi) moves every
// non-bar line (Text and Empty alike) from the member's frame to the orphan lines, in order, and keeps the bar lines.
// @file-encodes draw_target::DrawStateWrapper::drop, draw_target::DrawStateWrapper::for_multi, draw_target::DrawStateWrapper::for_term
// @file-assumes the frame's line pattern is concrete per harness (an enum variant chosen symbolically among string-carrying variants exhausts CBMC's memory); one earlier orphan line is present
#[cfg(kani)]
mod verif_c03_wrapper {
    use super::*;

    fn kind(l: &LineType) -> u8 {
        match l {
            LineType::Text(s) => {
                if s.is_empty() {
                    b't'
                } else {
                    s.as_bytes()[0]
                }
            }
            LineType::Empty => b'e',
            LineType::Bar(s) => {
                if s.is_empty() {
                    b'b'
                } else {
                    s.as_bytes()[0]
                }
            }
        }
    }

    fn frame(p: u8) -> Vec<LineType> {
        let mut v: Vec<LineType> = Vec::with_capacity(4);
        match p {
            0 => {
                v.push(LineType::Text("x".into()));
                v.push(LineType::Bar("A".into()));
            }
            1 => {
                v.push(LineType::Empty);
                v.push(LineType::Bar("A".into()));
            }
            2 => {
                v.push(LineType::Bar("A".into()));
            }
            _ => {
                // a member that paints no bar line (finished and cleared) but prints
                v.push(LineType::Text("x".into()));
            }
        }
        v
    }

    fn run(p: u8) {
        let mut ds = DrawState::default();
        ds.lines = frame(p);
        let mut orphans: Vec<LineType> = Vec::with_capacity(6);
        orphans.push(LineType::Text("y".into()));
        {
            let w = DrawStateWrapper::for_multi(&mut ds, &mut orphans);
            drop(w);
        }
        match p {
            0 => {
                assert!(orphans.len() == 2 && kind(&orphans[0]) == b'y' && kind(&orphans[1]) == b'x');
                assert!(ds.lines.len() == 1 && kind(&ds.lines[0]) == b'A');
            }
            1 => {
                // the blank line of println("") is a printed line too: it leaves the member's frame
                assert!(orphans.len() == 2 && kind(&orphans[1]) == b'e');
                assert!(ds.lines.len() == 1 && kind(&ds.lines[0]) == b'A');
            }
            2 => {
                assert!(orphans.len() == 1);
                assert!(ds.lines.len() == 1 && kind(&ds.lines[0]) == b'A');
            }
            _ => {
                assert!(orphans.len() == 2 && kind(&orphans[1]) == b'x');
                assert!(ds.lines.is_empty());
            }
        }
        std::mem::forget(ds);
        std::mem::forget(orphans);
    }

    // @harness id=C03 tier=quick timeout=1500 mem=24 checks=rust
    // @bounds member frame [Text x, Bar A] + one earlier orphan line: orphans become [y, x], the frame keeps [Bar A]
    #[kani::proof]
    #[kani::unwind(6)]
    fn c03_wrapper_moves_text_and_empty_lines() {
        run(0);
    }

    // @harness id=C03 tier=quick timeout=1500 mem=24 checks=rust
    // @bounds member frame [Empty, Bar A] (ProgressBar::println("") on a member): the blank line moves to the orphans, the bar line stays
    #[kani::proof]
    #[kani::unwind(6)]
    fn c03_wrapper_moves_blank_line() {
        run(1);
    }

    // @harness id=C03 tier=quick timeout=1500 mem=24 checks=rust
    // @bounds member frame [Bar A]: nothing moves; and a wrapper for a plain terminal target (for_term) never moves anything
    #[kani::proof]
    #[kani::unwind(6)]
    fn c03_wrapper_keeps_bar_lines() {
        run(2);
        let mut ds = DrawState::default();
        ds.lines = frame(0);
        {
            let w = DrawStateWrapper::for_term(&mut ds);
            drop(w);
        }
        assert!(ds.lines.len() == 2);
        std::mem::forget(ds);
    }

    // @harness id=C03 tier=quick timeout=1500 mem=24 checks=rust
    // @bounds member frame [Text x] with no bar line at all (println through a finished-and-cleared member): the line still moves to the orphans, the frame is left empty
    #[kani::proof]
    #[kani::unwind(6)]
    fn c03_wrapper_moves_text_of_barless_frame() {
        run(3);
    }
}
