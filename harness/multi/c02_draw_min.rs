// C02 / C03 — the interior of MultiState::draw on MINIMAL states (1..=2 members, forced draw, no printed lines): frame composition in
// `ordering`, reaping of head zombies inside the draw, and the Keep adjustment. CBMC runs out of memory on anything larger
// (see DESIGN 8.2); these instances are the largest that fit.
// @file-encodes multi::MultiState::draw
// @file-assumes MultiState built directly (rig) over a TermLike target of width 4; each member has a drawn frame of one 1-row bar line; zombie pattern concrete per harness; forced draw with an admitting limiter; DrawState::draw_to_term replaced by its contract on a row stack; visual_line_count = number of lines (one-row lines); MultiState::remove_idx replaced by a recorder; LineType::clone rebuilt from static one-letter strings; zombie_lines_count (<= 2) and last_line_count (<= 2, >= rows of zombies still in the order) symbolic
#[cfg(kani)]
mod verif_c02_draw_min {
    use super::verif_mstep::*;
    use super::verif_rig_multi::*;
    use super::*;
    use crate::draw_target::verif_rig_dt::*;
    use crate::verif_common::*;

    fn draw_min(n: usize, zmask: u8) {
        let z0: usize = kani::any();
        let f: usize = kani::any();
        kani::assume(z0 <= 2 && f <= 2);
        let now = mk_instant(1_000_000, 0);
        unsafe {
            RL_VERDICT = true;
            SLEN = 0;
            DRAWS = 0;
            LOG_FLOOR = L;
            NREMOVED = 0;
            FAIL_DRAW_AT = usize::MAX;
        }
        let mut ms = rig_multi(null_target(4, 10, f));
        ms.zombie_lines_count = VisualLines::from(z0);
        let mut zrows = 0;
        let mut head = 0; // number of leading zombies in the order
        let mut leading = true;
        let mut i = 0;
        while i < 2 {
            if i < n {
                let z = zmask & (1 << i) != 0;
                let idx = ms.members.len();
                let mut d = DrawState::default();
                d.lines = Vec::with_capacity(3);
                d.lines.push(boxed_line(b'A' + i as u8));
                ms.members.push(MultiStateMember { draw_state: Some(d), is_zombie: z });
                ms.ordering.push(idx);
                if z {
                    zrows += 1;
                    if leading {
                        head += 1;
                    }
                } else {
                    leading = false;
                }
            }
            i += 1;
        }
        kani::assume(f >= zrows);
        rep12!(r, {
            if r < L {
                stack_push(T_LOG);
            } else if r < L + z0 {
                stack_push(T_ZOMB);
            } else if r < L + z0 + f {
                stack_push(T_OLD);
            }
        });
        let r = ms.draw(true, None, now);
        assert!(r.is_ok());
        std::mem::forget(r);
        unsafe {
            assert!(DRAWS == 1);
            // the old frame is gone, the kept rows of earlier zombies and the log are untouched, every member is painted once, in order
            assert!(SLEN == L + z0 + n);
            assert!(STACK[L + z0] == b'A');
            if n == 2 {
                assert!(STACK[L + z0 + 1] == b'B');
            }
            // the leading zombies were painted for the last time and are reaped: exactly they are removed, their rows become kept rows
            assert!(NREMOVED == head);
            if head >= 1 {
                assert!(REMOVED[0] == 0);
            }
        }
        assert!(zombie_lines(&ms) == z0 + head);
        assert!(last_count(&ms) == n - head);
        kani::cover!(z0 == 2 && f == 2);
        kani::cover!(f == zrows);
        std::mem::forget(ms);
    }

    // @harness id=C02 tier=thorough timeout=3000 mem=28 checks=rust
    // @bounds 1 member, live: one forced draw paints it below the kept rows; nothing is reaped
    #[kani::proof]
    #[kani::unwind(6)]
    //@STUBS std now widthascii noterm rlctl noweight dttcontract rows1 noremove lineclone norwlock
    fn c02_draw_one_live_member() {
        draw_min(1, 0);
    }

    // @harness id=C02 tier=quick timeout=3000 mem=28 checks=rust
    // @bounds 1 member, a dropped (zombie) bar at the head: painted for the last time, reaped, its row becomes a kept row (zombie_lines_count + 1, last_line_count 0)
    #[kani::proof]
    #[kani::unwind(6)]
    //@STUBS std now widthascii noterm rlctl noweight dttcontract rows1 noremove lineclone norwlock
    fn c02_draw_reaps_head_zombie() {
        draw_min(1, 1);
    }

    // @harness id=C02 tier=deep timeout=3000 mem=28 checks=rust
    // @bounds 2 members, the head one a zombie, the second live: both painted in order, only the head is reaped, Keep(1)
    #[kani::proof]
    #[kani::unwind(6)]
    //@STUBS std now widthascii noterm rlctl noweight dttcontract rows1 noremove lineclone norwlock
    fn c02_draw_two_members_head_zombie() {
        draw_min(2, 1);
    }

    // @harness id=C02 tier=deep timeout=3000 mem=28 checks=rust
    // @bounds 2 members, the SECOND one a zombie (not at the head): both painted, nothing reaped, nothing kept
    #[kani::proof]
    #[kani::unwind(6)]
    //@STUBS std now widthascii noterm rlctl noweight dttcontract rows1 noremove lineclone norwlock
    fn c02_draw_two_members_tail_zombie() {
        draw_min(2, 2);
    }

    /// one live member; a println (one text line) or an ordinary draw that the limiter refuses
    fn draw_one(print: bool, admitted: bool) {
        let z0: usize = kani::any();
        let f: usize = kani::any();
        kani::assume(z0 <= 2 && f <= 2);
        let now = mk_instant(1_000_000, 0);
        unsafe {
            RL_VERDICT = admitted;
            SLEN = 0;
            DRAWS = 0;
            LOG_FLOOR = L;
            NREMOVED = 0;
            FAIL_DRAW_AT = usize::MAX;
        }
        let mut ms = rig_multi(null_target(4, 10, f));
        ms.zombie_lines_count = VisualLines::from(z0);
        let mut d = DrawState::default();
        d.lines = Vec::with_capacity(3);
        d.lines.push(boxed_line(b'A'));
        ms.members.push(MultiStateMember { draw_state: Some(d), is_zombie: false });
        ms.ordering.push(0);
        rep12!(r, {
            if r < L {
                stack_push(T_LOG);
            } else if r < L + z0 {
                stack_push(T_ZOMB);
            } else if r < L + z0 + f {
                stack_push(T_OLD);
            }
        });
        let r = if print {
            let mut lines: Vec<LineType> = Vec::with_capacity(2);
            lines.push(LineType::Text(String::from("x")));
            ms.draw(true, Some(lines), now)
        } else {
            ms.draw(false, None, now)
        };
        assert!(r.is_ok());
        std::mem::forget(r);
        unsafe {
            if print {
                // the printed line goes directly below the log: the kept rows of finished bars are given up (by design), the old
                // frame is erased, the text row is NOT part of what the next draw erases
                assert!(DRAWS == 1);
                assert!(SLEN == L + 2 && STACK[L] == b'x' && STACK[L + 1] == b'A');
                assert!(zombie_lines(&ms) == 0 && last_count(&ms) == 1);
            } else if admitted {
                assert!(DRAWS == 1 && SLEN == L + z0 + 1 && STACK[L + z0] == b'A');
                assert!(zombie_lines(&ms) == z0 && last_count(&ms) == 1);
            } else {
                // a refused draw changes nothing at all
                assert!(DRAWS == 0 && SLEN == L + z0 + f);
                assert!(zombie_lines(&ms) == z0 && last_count(&ms) == f);
            }
        }
        kani::cover!(z0 == 2 && f == 2);
        kani::cover!(z0 == 0);
        std::mem::forget(ms);
    }

    // @harness id=C03 tier=deep timeout=3000 mem=28 checks=rust
    // @bounds MultiState::draw(force, Some([Text x])) (= MultiProgress::println) with one live member, 0..=2 kept rows, old frame of 0..=2 rows: the text row lands directly below the log and above the frame, is never counted, no log row is erased
    #[kani::proof]
    #[kani::unwind(6)]
    //@STUBS std now widthascii noterm rlctl noweight dttcontract rows1 noremove lineclone norwlock
    fn c03_draw_println_one_member() {
        draw_one(true, true);
    }

    // @harness id=C03 tier=quick timeout=3000 mem=14 checks=rust
    // @bounds an ORDINARY MultiState::draw that the limiter refuses, same states: nothing is painted and the row accounting is untouched
    #[kani::proof]
    #[kani::unwind(6)]
    //@STUBS std now widthascii noterm rlctl noweight dttcontract rows1 noremove lineclone norwlock
    fn c03_draw_refused_changes_nothing() {
        draw_one(false, false);
    }
}
