// One operation of a MultiProgress from ANY state of the invariant Inv_multi, on the abstract screen.
// Shared by the C02 / C03 / C04 harness files (no @harness annotation here).
//
// Inv_multi (pre-state, all symbolic):
//   screen rows: [0,L) log rows; then Z0 = zombie_lines_count rows of visibly finished, already reaped bars; then the live
//   frame of F = last_line_count rows, as last painted; cursor parked at the right edge of the last of these rows (or at
//   column 0 of the first free row when nothing at all is below the log).
//   members: 3 slots, all in `ordering` (order 0,1,2), each drawn (one 1-row bar line) or never drawn, each possibly a
//   zombie (its BarState was dropped); zombies that are still in `ordering` were painted by their forced final draw, so
//   their rows are part of the F rows; `orphan_lines` is empty between operations.
//   limiter of the MultiProgress target: admits or refuses ordinary draws (symbolic).
// Post-condition common to every operation ("ownership"): the F' + Z' rows ending at the cursor row contain no log row and
// no printed text row, every log row is intact, every newly printed text row is on screen exactly once, above the F' + Z'
// rows and below all earlier log rows. This is what makes the NEXT operation safe, i.e. the induction step.
#[cfg(kani)]
pub(crate) mod verif_mstep {
    use super::verif_rig_multi::*;
    use super::*;
    use crate::draw_target::verif_scr::*;
    use crate::verif_common::*;

    pub(crate) const L: usize = 3; // log rows above everything
    pub(crate) const T_ZOMB: u8 = b'z';

    pub(crate) struct Pre {
        pub scr: &'static Scr,
        pub ms: MultiState,
        pub z0: usize,
        pub f: usize,
        pub drawn: [bool; 3],
        pub zombie: [bool; 3],
        pub allow: bool,
        pub now: Instant,
    }

    /// `zmask` / `dmask`: CONCRETE bit masks saying which of the 3 members are zombies / have been drawn (symbolic flags
    /// would make the length of the composed frame symbolic, which CBMC cannot digest); F, Z0, limiter, parking symbolic.
    pub(crate) fn pre_state(w: usize, zmask: u8, dmask: u8) -> Pre {
        let scr = leak_scr(w, 10);
        let z0: usize = kani::any();
        let f: usize = kani::any();
        kani::assume(z0 <= 2 && f <= 3);
        let allow: bool = kani::any();
        let now = mk_instant(1_000_000, 0);
        // the limiter's verdict for ordinary draws is the symbolic `allow` (RateLimiter::allow is stubbed by rl_controlled)
        unsafe {
            crate::draw_target::verif_rig_dt::RL_VERDICT = allow;
        }
        let target = scr_target_limited(scr, 20, 5, now, f);
        let mut ms = rig_multi(target);
        ms.zombie_lines_count = VisualLines::from(z0);
        let mut drawn = [false; 3];
        let mut zombie = [false; 3];
        let mut zrows = 0;
        let mut i = 0;
        while i < 3 {
            drawn[i] = dmask & (1 << i) != 0;
            zombie[i] = zmask & (1 << i) != 0;
            push_member(&mut ms, drawn[i], 1, b'A' + i as u8, zombie[i]);
            if zombie[i] && drawn[i] {
                zrows += 1;
            }
            i += 1;
        }
        // zombies still in `ordering` were painted by their final forced draw
        kani::assume(f >= zrows);
        // a zombie at the head of `ordering` exists only while it waits for the next draw to reap it; mark_zombie reaps
        // a head member immediately, so it became head because the members before it were removed -- allowed.
        let mut r = 0;
        while r < NROWS {
            if r < L {
                scr.tags[r].set(T_LOG);
            } else if r < L + z0 {
                scr.tags[r].set(T_ZOMB);
            } else if r < L + z0 + f {
                scr.tags[r].set(T_OLD);
            }
            r += 1;
        }
        let below = z0 + f;
        if below > 0 {
            scr.row.set(L + below - 1);
            scr.col.set(w);
            scr.maxrow.set(L + below - 1);
        } else {
            let parked: bool = kani::any();
            if parked {
                scr.row.set(L - 1);
                scr.col.set(w);
                scr.maxrow.set(L - 1);
            } else {
                scr.row.set(L);
                scr.col.set(0);
                scr.maxrow.set(L);
            }
        }
        Pre { scr, ms, z0, f, drawn, zombie, allow, now }
    }

    /// what BarState::draw does to its MultiProgress: replace the member's lines, then ask for an ordinary/forced draw
    pub(crate) fn member_draw(ms: &mut MultiState, idx: usize, letter: u8, force: bool, now: Instant) -> io::Result<()> {
        {
            let mut w = ms.draw_state(idx);
            w.lines.clear();
            w.lines.push(LineType::Bar(mk_line(letter, 1)));
        }
        ms.draw(force, None, now)
    }

    /// what BarState::println does: text line(s) + the bar's own lines into the member state, forced draw
    pub(crate) fn member_println(ms: &mut MultiState, idx: usize, letter: u8, now: Instant) -> io::Result<()> {
        {
            let mut w = ms.draw_state(idx);
            w.lines.clear();
            w.lines.push(LineType::Text(mk_line(b'x', 1)));
            w.lines.push(LineType::Bar(mk_line(letter, 1)));
        }
        ms.draw(true, None, now)
    }

    /// Ownership / induction post-condition (see file header). `new_text`: tag of a text row printed by the operation
    /// (0 = none). Returns the index of the first row owned by the progress region.
    pub(crate) fn post_inv(p: &Pre, new_text: u8) -> usize {
        let scr = p.scr;
        let fz = last_count(&p.ms) + zombie_lines(&p.ms);
        let c = scr.row.get();
        // all log rows intact
        let mut r = 0;
        while r < L {
            assert!(scr.tag(r) == T_LOG);
            r += 1;
        }
        assert!(fz <= c + 1);
        let first = c + 1 - fz;
        assert!(first >= L);
        // owned rows: no log row, no text row
        let mut nx = 0;
        let mut r = 0;
        while r < NROWS {
            let t = scr.tag(r);
            if r >= first && r <= c {
                assert!(t != T_LOG && t != b'x' && t != b'y');
            }
            if new_text != 0 && t == new_text {
                nx += 1;
                assert!(r < first); // above the progress region
            }
            // nothing of the old live frame survives a painting operation
            r += 1;
        }
        if new_text != 0 {
            assert!(nx == 1); // exactly once
        }
        assert!(p.ms.orphan_lines.is_empty());
        first
    }
}
