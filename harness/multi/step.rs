// One operation of a MultiProgress from ANY state of the invariant Inv_multi, with DrawState::draw_to_term replaced by
// its contract on a row stack (assume-guarantee; the contract itself is what the C01/C19 step harnesses establish).
// Shared by the C02 / C03 / C04 / C18 harness files (no @harness annotation here).
//
// Inv_multi (pre-state):
//   screen rows (bottom = cursor row): [0,L) log rows; then Z0 = zombie_lines_count rows of visibly finished, already
//   reaped bars; then the live frame of F = last_line_count rows, as last painted.
//   members: 2 slots in `ordering` (order 0,1), each drawn with one 1-row bar line; which of them are zombies (their
//   BarState was dropped but they are still in the order) is a CONCRETE pattern per harness; zombies that are still in
//   `ordering` were painted by their forced final draw, so their rows are part of the F rows; `orphan_lines` is empty
//   between operations. F, Z0 and the limiter's verdict are symbolic.
// Post-condition of every operation ("ownership", the induction step): the F' + Z' rows at the bottom of the screen
// contain no log row and no printed text row; no log row was ever erased (asserted inside the contract); every newly
// printed text row is on screen exactly once, above those F' + Z' rows.
#[cfg(kani)]
pub(crate) mod verif_mstep {
    use super::verif_rig_multi::*;
    use super::*;
    use crate::draw_target::verif_rig_dt::*;
    use crate::verif_common::*;

    pub(crate) const L: usize = 3; // log rows above everything
    pub(crate) const T_LOG: u8 = b'L';
    pub(crate) const T_ZOMB: u8 = b'z';
    pub(crate) const T_OLD: u8 = b'O';

    pub(crate) struct Pre {
        pub ms: MultiState,
        pub z0: usize,
        pub f: usize,
        pub zombie: [bool; 2],
        pub allow: bool,
        pub now: Instant,
    }

    pub(crate) fn boxed_line(letter: u8) -> LineType {
        LineType::Bar(String::from(match letter {
            b'A' => "A",
            b'B' => "B",
            b'C' => "C",
            _ => "D",
        }))
    }

    pub(crate) fn pre_state(zmask: u8) -> Pre {
        let z0: usize = kani::any();
        let f: usize = kani::any();
        kani::assume(z0 <= 2 && f <= 2);
        let allow: bool = kani::any();
        let now = mk_instant(1_000_000, 0);
        unsafe {
            RL_VERDICT = allow;
            SLEN = 0;
            DRAWS = 0;
            LOG_FLOOR = L;
        }
        let mut ms = rig_multi(null_target(4, 10, f));
        ms.zombie_lines_count = VisualLines::from(z0);
        let mut zombie = [false; 2];
        let mut zrows = 0;
        let mut i = 0;
        while i < 2 {
            zombie[i] = zmask & (1 << i) != 0;
            let idx = ms.members.len();
            let mut d = DrawState::default();
            d.lines = Vec::with_capacity(3);
            d.lines.push(boxed_line(b'A' + i as u8));
            ms.members.push(MultiStateMember { draw_state: Some(d), is_zombie: zombie[i] });
            ms.ordering.push(idx);
            if zombie[i] {
                zrows += 1;
            }
            i += 1;
        }
        // zombies still in `ordering` were painted by their final forced draw
        kani::assume(f >= zrows);
        rep12!(r, {
            if r < L {
                stack_push(T_LOG);
            } else if r < L + z0 {
                stack_push(T_ZOMB);
            } else if r < L + z0 + f {
                stack_push(T_OLD);
            }
        });
        Pre { ms, z0, f, zombie, allow, now }
    }

    /// what BarState::draw does to its MultiProgress: replace the member's lines, then ask for an ordinary/forced draw
    pub(crate) fn member_draw(ms: &mut MultiState, idx: usize, letter: u8, force: bool, now: Instant) -> io::Result<()> {
        {
            let mut w = ms.draw_state(idx);
            w.lines.clear();
            w.lines.push(boxed_line(letter));
        }
        ms.draw(force, None, now)
    }

    /// what BarState::println does: text line(s) + the bar's own lines into the member state, forced draw
    pub(crate) fn member_println(ms: &mut MultiState, idx: usize, letter: u8, now: Instant) -> io::Result<()> {
        {
            let mut w = ms.draw_state(idx);
            w.lines.clear();
            w.lines.push(LineType::Text(String::from("x")));
            w.lines.push(boxed_line(letter));
        }
        ms.draw(true, None, now)
    }

    /// Ownership / induction post-condition. `new_text`: tag of a text row printed by the operation (0 = none).
    pub(crate) fn post_inv(p: &Pre, new_text: u8) -> usize {
        let fz = target_last_rows(&p.ms.draw_target) + p.ms.zombie_lines_count.as_usize();
        let slen = unsafe { SLEN };
        assert!(slen >= L);
        assert!(fz <= slen - L); // the accounted rows do not reach into the log
        let first = slen - fz;
        let mut nx = 0;
        assert!(slen <= 12);
        rep12!(r, {
            if r < slen {
                let t = unsafe { STACK[r] };
                if r < L {
                    assert!(t == T_LOG);
                }
                if r >= first {
                    assert!(t != T_LOG && t != b'x' && t != b'y'); // owned rows: no log row, no printed text row
                }
                if new_text != 0 && t == new_text {
                    nx += 1;
                    assert!(r < first); // above the progress region
                }
            }
        });
        if new_text != 0 {
            assert!(nx == 1); // exactly once
        }
        assert!(p.ms.orphan_lines.is_empty());
        first
    }
}
