// C03 — MultiProgress::clear and MultiProgress::suspend wipe the whole managed region (live frame AND kept rows of finished
// bars) and nothing above it, so that output written while suspended lands directly below the log and is not overwritten later.
// @file-encodes multi::MultiState::clear, multi::MultiState::suspend, draw_target::ProgressDrawTarget::drawable, draw_target::Drawable::adjust_last_line_count, draw_target::Drawable::clear
// @file-assumes MultiState built directly (rig) over a TermLike target; DrawState::draw_to_term replaced by its contract on a row stack (it asserts that no log row is erased and that no more rows are erased than exist); in the suspend harness MultiState::draw is replaced by a recorder (CBMC does not finish the real function): what is decided is the state in which the redraw is requested; the limiter refuses ordinary draws
#[cfg(kani)]
mod verif_c03_clear {
    use super::verif_rig_multi::*;
    use super::*;
    use crate::draw_target::verif_rig_dt::*;
    use crate::verif_common::*;

    fn pre(z: usize, l: usize) -> MultiState {
        unsafe {
            SLEN = 0;
            DRAWS = 0;
            LOG_FLOOR = 2;
            FAIL_DRAW_AT = usize::MAX;
            RL_VERDICT = false;
            MDRAW_CALLS = 0;
        }
        stack_push(b'L');
        stack_push(b'L');
        let mut i = 0;
        while i < 2 {
            if i < z {
                stack_push(b'Z');
            }
            i += 1;
        }
        let mut i = 0;
        while i < 2 {
            if i < l {
                stack_push(b'O');
            }
            i += 1;
        }
        let mut ms = rig_multi(null_target(16, 8, l));
        ms.zombie_lines_count = VisualLines::from(z);
        ms
    }

    // @harness id=C03 tier=quick timeout=1800 mem=14 checks=rust
    // @bounds MultiState::clear from any row accounting (0..=2 kept rows of finished bars, live frame of 0..=2 rows) under a refusing limiter: every managed row is erased, no log row is, both counters are zero afterwards
    #[kani::proof]
    #[kani::unwind(6)]
    //@STUBS std now widthascii noterm rlctl dttcontract
    fn c03_clear_wipes_frame_and_kept_rows() {
        let z: usize = kani::any();
        let l: usize = kani::any();
        kani::assume(z <= 2 && l <= 2);
        let mut ms = pre(z, l);
        let r = ms.clear(mk_instant(1_000_000, 0));
        assert!(r.is_ok());
        std::mem::forget(r);
        unsafe {
            assert!(DRAWS == 1);
            assert!(SLEN == 2 && STACK[0] == b'L' && STACK[1] == b'L');
        }
        assert!(zombie_lines(&ms) == 0 && last_count(&ms) == 0);
        kani::cover!(z == 2 && l == 2);
        kani::cover!(z == 0 && l == 0);
        std::mem::forget(ms);
    }

    // @harness id=C03 tier=quick timeout=1800 mem=14 checks=rust
    // @bounds MultiState::suspend(f) from the same states: when f runs the managed region is gone (only the log rows are on screen, both counters zero); what f prints stays; afterwards exactly one FORCED redraw is requested, from counters that are still zero
    #[kani::proof]
    #[kani::unwind(6)]
    //@STUBS std now widthascii noterm rlctl dttcontract multidrawrec
    fn c03_suspend_clears_then_redraws() {
        let z: usize = kani::any();
        let l: usize = kani::any();
        kani::assume(z <= 2 && l <= 2);
        let mut ms = pre(z, l);
        let seen = ms.suspend(
            || unsafe {
                let rows_when_f_runs = SLEN;
                // the user's own output while suspended: one more log row
                stack_push(b'u');
                LOG_FLOOR += 1;
                rows_when_f_runs
            },
            mk_instant(1_000_000, 0),
        );
        assert!(seen == 2);
        unsafe {
            assert!(MDRAW_CALLS == 1 && MDRAW_FORCED && !MDRAW_EXTRA);
            assert!(MDRAW_ZOMBIES == 0 && MDRAW_LAST == 0);
            assert!(SLEN == 3 && STACK[2] == b'u');
        }
        kani::cover!(z == 2 && l == 1);
        std::mem::forget(ms);
    }
}
