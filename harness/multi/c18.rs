// C18 — terminal I/O failures never panic or corrupt logical state (MultiProgress side).
// @file-encodes multi::MultiState::println, multi::MultiState::clear, multi::MultiState::suspend, multi::MultiState::draw, multi::MultiState::mark_zombie, draw_target::Drawable::clear, draw_target::DrawState::draw_to_term
// @file-assumes MultiState built directly (rig) over the abstract screen; the k-th terminal call (k symbolic, 0..=15; optionally all later ones too) returns io::ErrorKind::BrokenPipe; Instant::now frozen
#[cfg(kani)]
mod verif_c18_multi {
    use super::verif_rig_multi::*;
    use super::*;
    use crate::draw_target::verif_scr::*;
    use crate::verif_common::*;

    fn setup() -> (&'static Scr, MultiState) {
        let scr = leak_scr(4, 6);
        let mut ms = rig_multi(scr_target(scr));
        push_member(&mut ms, true, 1, b'A', false);
        push_member(&mut ms, true, 1, b'B', false);
        (scr, ms)
    }

    fn arm(scr: &Scr) -> usize {
        let k: usize = kani::any();
        kani::assume(k <= 15);
        let sticky: bool = kani::any();
        scr.fail_at.set(scr.calls.get() + k);
        scr.fail_sticky.set(sticky);
        k
    }

    // @harness id=C18 tier=quick timeout=3000 mem=14
    // @bounds MultiState with 2 drawn members: one of println / clear / suspend / member-draw with the k-th terminal call failing (k <= 15, once or from then on), then a follow-up println with a healthy terminal: no panic; println/clear report the error iff a call failed; the follow-up works
    #[kani::proof]
    #[kani::unwind(20)]
    //@STUBS std now widthascii repeat noterm rlany noweight
    fn c18_multi_fault_no_panic() {
        let (scr, mut ms) = setup();
        let now = mk_instant(1_000_000, 0);
        // first a healthy frame so that there is something on screen to erase
        assert!(ms.draw(true, None, now).is_ok());
        let k = arm(scr);
        let before = scr.calls.get();
        let op: u8 = kani::any();
        kani::assume(op < 4);
        let mut reported = true;
        match op {
            0 => reported = ms.println("xy", now).is_err(),
            1 => reported = ms.clear(now).is_err(),
            2 => {
                let r = ms.suspend(|| 7, now);
                assert!(r == 7);
            }
            _ => reported = ms.draw(true, None, now).is_err(),
        }
        let made = scr.calls.get() - before;
        if op != 2 {
            // the error is surfaced exactly when the failing call was reached
            assert!(reported == (k < made));
        }
        // healthy again: a following operation on the same MultiProgress works
        scr.fail_at.set(usize::MAX);
        scr.fail_sticky.set(false);
        assert!(ms.println("z", now).is_ok());
        assert!(ordering_len(&ms) == 2);
        kani::cover!(op == 2 && k == 0);
        kani::cover!(op == 0 && reported);
        kani::cover!(op == 1 && !reported);
        std::mem::forget(ms);
    }
}
