// C18 — terminal I/O failures never panic or corrupt logical state (MultiProgress side).
// @file-encodes multi::MultiState::println, multi::MultiState::clear, multi::MultiState::suspend, multi::MultiState::draw, multi::MultiState::mark_zombie, draw_target::Drawable::clear, draw_target::DrawState::draw_to_term
// @file-assumes MultiState built directly (rig) over the abstract screen; the k-th terminal call (k symbolic, 0..=15; optionally all later ones too) returns io::ErrorKind::BrokenPipe; Instant::now frozen
#[cfg(kani)]
mod verif_c18_multi {
    use super::verif_rig_multi::*;
    use super::*;
    use crate::draw_target::verif_rig_dt::*;
    use crate::verif_common::*;

    fn setup() -> MultiState {
        unsafe {
            SLEN = 0;
            DRAWS = 0;
            LOG_FLOOR = 0;
            FAIL_DRAW_AT = usize::MAX;
        }
        let mut ms = rig_multi(null_target(4, 6, 0));
        let mut i = 0;
        while i < 2 {
            let mut d = DrawState::default();
            d.lines = Vec::with_capacity(2);
            d.lines.push(LineType::Bar(String::from(if i == 0 { "A" } else { "B" })));
            ms.members.push(MultiStateMember { draw_state: Some(d), is_zombie: false });
            ms.ordering.push(i);
            i += 1;
        }
        ms
    }

    /// op: 0 println-draw, 1 clear, 2 suspend, 3 forced draw; k: index (relative to the operation) of the failing draw_to_term
    fn multi_op(op: u8, k: usize) {
        let mut ms = setup();
        let now = mk_instant(1_000_000, 0);
        assert!(ms.draw(true, None, now).is_ok());
        let base = unsafe { DRAWS };
        unsafe {
            FAIL_DRAW_AT = base + k;
        }
        let mut reported = false;
        match op {
            0 => {
                let mut lines: Vec<LineType> = Vec::with_capacity(1);
                lines.push(LineType::Text(String::from("x")));
                reported = ms.draw(true, Some(lines), now).is_err();
            }
            1 => reported = ms.clear(now).is_err(),
            2 => {
                let r = ms.suspend(|| 7, now);
                assert!(r == 7);
            }
            _ => reported = ms.draw(true, None, now).is_err(),
        }
        let made = unsafe { DRAWS } - base;
        if op != 2 {
            assert!(reported == (k < made)); // io::Result-returning calls report the error
        }
        unsafe {
            FAIL_DRAW_AT = usize::MAX;
        }
        assert!(ms.draw(true, None, now).is_ok());
        assert!(ordering_len(&ms) == 2);
        std::mem::forget(ms);
    }

    // @harness id=C18 tier=deep timeout=3400 mem=16 checks=rust
    // @bounds MultiState with 2 drawn members: println whose draw number 0 fails, then a healthy forced draw: no panic, io::Result-returning calls report the error, the follow-up works
    #[kani::proof]
    #[kani::unwind(6)]
    //@STUBS std now widthascii noterm rlany noweight dttcontract rows1 lineclone noremove norwlock
    fn c18_multi_println_fail0() {
        multi_op(0, 0);
    }

    // @harness id=C18 tier=deep timeout=3400 mem=16 checks=rust
    // @bounds MultiState with 2 drawn members: clear whose draw number 0 fails, then a healthy forced draw: no panic, io::Result-returning calls report the error, the follow-up works
    #[kani::proof]
    #[kani::unwind(6)]
    //@STUBS std now widthascii noterm rlany noweight dttcontract rows1 lineclone noremove norwlock
    fn c18_multi_clear_fail0() {
        multi_op(1, 0);
    }

    // @harness id=C18 tier=deep timeout=3400 mem=16 checks=rust
    // @bounds MultiState with 2 drawn members: suspend whose draw number 0 fails, then a healthy forced draw: no panic, io::Result-returning calls report the error, the follow-up works
    #[kani::proof]
    #[kani::unwind(6)]
    //@STUBS std now widthascii noterm rlany noweight dttcontract rows1 lineclone noremove norwlock
    fn c18_multi_suspend_fail0() {
        multi_op(2, 0);
    }

    // @harness id=C18 tier=deep timeout=3400 mem=16 checks=rust
    // @bounds MultiState with 2 drawn members: suspend whose draw number 1 fails, then a healthy forced draw: no panic, io::Result-returning calls report the error, the follow-up works
    #[kani::proof]
    #[kani::unwind(6)]
    //@STUBS std now widthascii noterm rlany noweight dttcontract rows1 lineclone noremove norwlock
    fn c18_multi_suspend_fail1() {
        multi_op(2, 1);
    }

    // @harness id=C18 tier=deep timeout=3400 mem=16 checks=rust
    // @bounds MultiState with 2 drawn members: forced_draw whose draw number 0 fails, then a healthy forced draw: no panic, io::Result-returning calls report the error, the follow-up works
    #[kani::proof]
    #[kani::unwind(6)]
    //@STUBS std now widthascii noterm rlany noweight dttcontract rows1 lineclone noremove norwlock
    fn c18_multi_forced_draw_fail0() {
        multi_op(3, 0);
    }
}
