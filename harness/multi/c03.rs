// C03 — printed log lines are never erased, duplicated or reordered (MultiProgress row accounting).
// @file-encodes multi::MultiState::draw, multi::MultiState::println, multi::MultiState::clear, multi::MultiState::suspend, multi::MultiState::mark_zombie, multi::MultiState::remove_idx, multi::MultiState::draw_state, draw_target::DrawStateWrapper::drop, draw_target::ProgressDrawTarget::drawable, draw_target::ProgressDrawTarget::adjust_last_line_count, draw_target::Drawable::adjust_last_line_count, draw_target::Drawable::clear, draw_target::DrawState::draw_to_term, draw_target::RateLimiter::allow
// @file-assumes one operation from an arbitrary state of Inv_multi (see multi/step.rs): 3 members of one 1-column row each, up to 2 kept zombie rows, previous frame of up to 3 rows, limiter admitting or refusing; W=4, H=10 (no height overflow: C19's subject); member BarStates are replaced by the exact draw-target call sequences of BarState::{draw,println,drop}; abstract screen model; Instant::now frozen
#[cfg(kani)]
mod verif_c03 {
    use super::verif_mstep::*;
    use super::verif_rig_multi::*;
    use super::*;
    use crate::draw_target::verif_scr::*;
    use crate::verif_common::*;
    use crate::TermLike;

    /// op: 0 member draw (ordinary), 1 member println, 2 mp.println, 3 mp.clear, 4 drop member, 5 suspend
    fn op_step(op: u8, zmask: u8, dmask: u8, live: usize) -> u32 {
        let mut p = pre_state(4, zmask, dmask);
        let scr = p.scr;
        let now = p.now;
        match op {
            0 => {
                let r = member_draw(&mut p.ms, live, b'D', false, now);
                assert!(r.is_ok());
                post_inv(&p, 0);
                if !p.allow {
                    // a skipped draw changes nothing on screen and nothing in the row accounting
                    assert!(last_count(&p.ms) == p.f && zombie_lines(&p.ms) == p.z0);
                }
            }
            1 => {
                let r = member_println(&mut p.ms, live, b'D', now);
                assert!(r.is_ok());
                post_inv(&p, b'x');
            }
            2 => {
                let r = p.ms.println("x", now);
                assert!(r.is_ok());
                post_inv(&p, b'x');
                // the new line is the first row below the old log
                assert!(scr.tag(L) == b'x');
                assert!(zombie_lines(&p.ms) == 0);
            }
            3 => {
                let r = p.ms.clear(now);
                assert!(r.is_ok());
                post_inv(&p, 0);
                let mut r = L;
                while r < NROWS {
                    assert!(scr.is_blank(r));
                    r += 1;
                }
                assert!(last_count(&p.ms) == 0 && zombie_lines(&p.ms) == 0);
            }
            4 => {
                let r = member_draw(&mut p.ms, live, b'D', true, now);
                assert!(r.is_ok());
                p.ms.mark_zombie(live);
                post_inv(&p, 0);
            }
            _ => {
                let v = p.ms.suspend(
                    || {
                        let _ = scr.write_line("y");
                        3
                    },
                    now,
                );
                assert!(v == 3);
                post_inv(&p, b'y');
                assert!(scr.tag(L) == b'y');
            }
        }
        let mut code = 0u32;
        if p.allow {
            code |= 1;
        }
        if p.z0 > 0 {
            code |= 2;
        }
        if p.f == 3 {
            code |= 4;
        }
        if p.f == 0 && p.z0 == 0 {
            code |= 8;
        }
        std::mem::forget(p);
        code
    }

    // @harness id=C03 tier=quick timeout=3000 mem=8
    // @bounds one ordinary (rate-limitable) redraw of a live member, from any Inv_multi state with zombie pattern 000 (members 0..2, bit i = member i is a dropped bar still in the order), all three members drawn; live member acted on: 2
    #[kani::proof]
    #[kani::unwind(14)]
    //@STUBS std now widthascii repeat noterm rlctl noweight
    fn c03_member_draw_live() {
        let c = op_step(0, 0, 7, 2);
        kani::cover!(c & 1 != 0 && c & 2 != 0);
        kani::cover!(c & 1 == 0);
    }

    // @harness id=C03 tier=quick timeout=3000 mem=8
    // @bounds one ordinary (rate-limitable) redraw of a live member, from any Inv_multi state with zombie pattern 001 (members 0..2, bit i = member i is a dropped bar still in the order), all three members drawn; live member acted on: 2
    #[kani::proof]
    #[kani::unwind(14)]
    //@STUBS std now widthascii repeat noterm rlctl noweight
    fn c03_member_draw_headz() {
        let c = op_step(0, 1, 7, 2);
        kani::cover!(c & 1 != 0 && c & 2 != 0);
        kani::cover!(c & 1 == 0);
    }

    // @harness id=C03 tier=quick timeout=3000 mem=8
    // @bounds one ordinary (rate-limitable) redraw of a live member, from any Inv_multi state with zombie pattern 010 (members 0..2, bit i = member i is a dropped bar still in the order), all three members drawn; live member acted on: 2
    #[kani::proof]
    #[kani::unwind(14)]
    //@STUBS std now widthascii repeat noterm rlctl noweight
    fn c03_member_draw_midz() {
        let c = op_step(0, 2, 7, 2);
        kani::cover!(c & 1 != 0 && c & 2 != 0);
        kani::cover!(c & 1 == 0);
    }

    // @harness id=C03 tier=thorough timeout=3000 mem=8
    // @bounds one ordinary (rate-limitable) redraw of a live member, from any Inv_multi state with zombie pattern 011 (members 0..2, bit i = member i is a dropped bar still in the order), all three members drawn; live member acted on: 2
    #[kani::proof]
    #[kani::unwind(14)]
    //@STUBS std now widthascii repeat noterm rlctl noweight
    fn c03_member_draw_headzz() {
        let c = op_step(0, 3, 7, 2);
        kani::cover!(c & 1 != 0 && c & 2 != 0);
        kani::cover!(c & 1 == 0);
    }

    // @harness id=C03 tier=quick timeout=3000 mem=8
    // @bounds ProgressBar::println on a live member (text line + bar line, forced), from any Inv_multi state with zombie pattern 000 (members 0..2, bit i = member i is a dropped bar still in the order), all three members drawn; live member acted on: 2
    #[kani::proof]
    #[kani::unwind(14)]
    //@STUBS std now widthascii repeat noterm rlctl noweight
    fn c03_member_println_live() {
        let c = op_step(1, 0, 7, 2);
        kani::cover!(c & 2 != 0);
        kani::cover!(c & 8 != 0);
    }

    // @harness id=C03 tier=quick timeout=3000 mem=8
    // @bounds ProgressBar::println on a live member (text line + bar line, forced), from any Inv_multi state with zombie pattern 001 (members 0..2, bit i = member i is a dropped bar still in the order), all three members drawn; live member acted on: 2
    #[kani::proof]
    #[kani::unwind(14)]
    //@STUBS std now widthascii repeat noterm rlctl noweight
    fn c03_member_println_headz() {
        let c = op_step(1, 1, 7, 2);
        kani::cover!(c & 2 != 0);
        kani::cover!(c & 8 != 0);
    }

    // @harness id=C03 tier=thorough timeout=3000 mem=8
    // @bounds ProgressBar::println on a live member (text line + bar line, forced), from any Inv_multi state with zombie pattern 010 (members 0..2, bit i = member i is a dropped bar still in the order), all three members drawn; live member acted on: 2
    #[kani::proof]
    #[kani::unwind(14)]
    //@STUBS std now widthascii repeat noterm rlctl noweight
    fn c03_member_println_midz() {
        let c = op_step(1, 2, 7, 2);
        kani::cover!(c & 2 != 0);
        kani::cover!(c & 8 != 0);
    }

    // @harness id=C03 tier=thorough timeout=3000 mem=8
    // @bounds ProgressBar::println on a live member (text line + bar line, forced), from any Inv_multi state with zombie pattern 011 (members 0..2, bit i = member i is a dropped bar still in the order), all three members drawn; live member acted on: 2
    #[kani::proof]
    #[kani::unwind(14)]
    //@STUBS std now widthascii repeat noterm rlctl noweight
    fn c03_member_println_headzz() {
        let c = op_step(1, 3, 7, 2);
        kani::cover!(c & 2 != 0);
        kani::cover!(c & 8 != 0);
    }

    // @harness id=C03 tier=quick timeout=3000 mem=8
    // @bounds MultiProgress::println, from any Inv_multi state with zombie pattern 000 (members 0..2, bit i = member i is a dropped bar still in the order), all three members drawn; live member acted on: 2
    #[kani::proof]
    #[kani::unwind(14)]
    //@STUBS std now widthascii repeat noterm rlctl noweight
    fn c03_mp_println_live() {
        let c = op_step(2, 0, 7, 2);
        kani::cover!(c & 2 != 0);
        kani::cover!(c & 8 != 0);
    }

    // @harness id=C03 tier=quick timeout=3000 mem=8
    // @bounds MultiProgress::println, from any Inv_multi state with zombie pattern 001 (members 0..2, bit i = member i is a dropped bar still in the order), all three members drawn; live member acted on: 2
    #[kani::proof]
    #[kani::unwind(14)]
    //@STUBS std now widthascii repeat noterm rlctl noweight
    fn c03_mp_println_headz() {
        let c = op_step(2, 1, 7, 2);
        kani::cover!(c & 2 != 0);
        kani::cover!(c & 8 != 0);
    }

    // @harness id=C03 tier=quick timeout=3000 mem=8
    // @bounds MultiProgress::println, from any Inv_multi state with zombie pattern 010 (members 0..2, bit i = member i is a dropped bar still in the order), all three members drawn; live member acted on: 2
    #[kani::proof]
    #[kani::unwind(14)]
    //@STUBS std now widthascii repeat noterm rlctl noweight
    fn c03_mp_println_midz() {
        let c = op_step(2, 2, 7, 2);
        kani::cover!(c & 2 != 0);
        kani::cover!(c & 8 != 0);
    }

    // @harness id=C03 tier=thorough timeout=3000 mem=8
    // @bounds MultiProgress::println, from any Inv_multi state with zombie pattern 011 (members 0..2, bit i = member i is a dropped bar still in the order), all three members drawn; live member acted on: 2
    #[kani::proof]
    #[kani::unwind(14)]
    //@STUBS std now widthascii repeat noterm rlctl noweight
    fn c03_mp_println_headzz() {
        let c = op_step(2, 3, 7, 2);
        kani::cover!(c & 2 != 0);
        kani::cover!(c & 8 != 0);
    }

    // @harness id=C03 tier=quick timeout=3000 mem=8
    // @bounds MultiProgress::clear, from any Inv_multi state with zombie pattern 000 (members 0..2, bit i = member i is a dropped bar still in the order), all three members drawn; live member acted on: 2
    #[kani::proof]
    #[kani::unwind(14)]
    //@STUBS std now widthascii repeat noterm rlctl noweight
    fn c03_mp_clear_live() {
        let c = op_step(3, 0, 7, 2);
        kani::cover!(c & 2 != 0);
        kani::cover!(c & 8 != 0);
    }

    // @harness id=C03 tier=quick timeout=3000 mem=8
    // @bounds MultiProgress::clear, from any Inv_multi state with zombie pattern 001 (members 0..2, bit i = member i is a dropped bar still in the order), all three members drawn; live member acted on: 2
    #[kani::proof]
    #[kani::unwind(14)]
    //@STUBS std now widthascii repeat noterm rlctl noweight
    fn c03_mp_clear_headz() {
        let c = op_step(3, 1, 7, 2);
        kani::cover!(c & 2 != 0);
        kani::cover!(c & 8 != 0);
    }

    // @harness id=C03 tier=thorough timeout=3000 mem=8
    // @bounds MultiProgress::clear, from any Inv_multi state with zombie pattern 010 (members 0..2, bit i = member i is a dropped bar still in the order), all three members drawn; live member acted on: 2
    #[kani::proof]
    #[kani::unwind(14)]
    //@STUBS std now widthascii repeat noterm rlctl noweight
    fn c03_mp_clear_midz() {
        let c = op_step(3, 2, 7, 2);
        kani::cover!(c & 2 != 0);
        kani::cover!(c & 8 != 0);
    }

    // @harness id=C03 tier=thorough timeout=3000 mem=8
    // @bounds MultiProgress::clear, from any Inv_multi state with zombie pattern 011 (members 0..2, bit i = member i is a dropped bar still in the order), all three members drawn; live member acted on: 2
    #[kani::proof]
    #[kani::unwind(14)]
    //@STUBS std now widthascii repeat noterm rlctl noweight
    fn c03_mp_clear_headzz() {
        let c = op_step(3, 3, 7, 2);
        kani::cover!(c & 2 != 0);
        kani::cover!(c & 8 != 0);
    }

    // @harness id=C03 tier=quick timeout=3000 mem=8
    // @bounds a live member is dropped (forced final draw, then mark_zombie), from any Inv_multi state with zombie pattern 000 (members 0..2, bit i = member i is a dropped bar still in the order), all three members drawn; live member acted on: 2
    #[kani::proof]
    #[kani::unwind(14)]
    //@STUBS std now widthascii repeat noterm rlctl noweight
    fn c03_drop_member_live() {
        let c = op_step(4, 0, 7, 2);
        kani::cover!(c & 2 != 0);
        kani::cover!(c & 8 != 0);
    }

    // @harness id=C03 tier=quick timeout=3000 mem=8
    // @bounds a live member is dropped (forced final draw, then mark_zombie), from any Inv_multi state with zombie pattern 001 (members 0..2, bit i = member i is a dropped bar still in the order), all three members drawn; live member acted on: 2
    #[kani::proof]
    #[kani::unwind(14)]
    //@STUBS std now widthascii repeat noterm rlctl noweight
    fn c03_drop_member_headz() {
        let c = op_step(4, 1, 7, 2);
        kani::cover!(c & 2 != 0);
        kani::cover!(c & 8 != 0);
    }

    // @harness id=C03 tier=thorough timeout=3000 mem=8
    // @bounds a live member is dropped (forced final draw, then mark_zombie), from any Inv_multi state with zombie pattern 010 (members 0..2, bit i = member i is a dropped bar still in the order), all three members drawn; live member acted on: 2
    #[kani::proof]
    #[kani::unwind(14)]
    //@STUBS std now widthascii repeat noterm rlctl noweight
    fn c03_drop_member_midz() {
        let c = op_step(4, 2, 7, 2);
        kani::cover!(c & 2 != 0);
        kani::cover!(c & 8 != 0);
    }

    // @harness id=C03 tier=thorough timeout=3000 mem=8
    // @bounds a live member is dropped (forced final draw, then mark_zombie), from any Inv_multi state with zombie pattern 011 (members 0..2, bit i = member i is a dropped bar still in the order), all three members drawn; live member acted on: 2
    #[kani::proof]
    #[kani::unwind(14)]
    //@STUBS std now widthascii repeat noterm rlctl noweight
    fn c03_drop_member_headzz() {
        let c = op_step(4, 3, 7, 2);
        kani::cover!(c & 2 != 0);
        kani::cover!(c & 8 != 0);
    }

    // @harness id=C03 tier=quick timeout=3000 mem=8
    // @bounds suspend whose closure writes one line to the terminal, from any Inv_multi state with zombie pattern 000 (members 0..2, bit i = member i is a dropped bar still in the order), all three members drawn; live member acted on: 2
    #[kani::proof]
    #[kani::unwind(14)]
    //@STUBS std now widthascii repeat noterm rlctl noweight
    fn c03_suspend_live() {
        let c = op_step(5, 0, 7, 2);
        kani::cover!(c & 2 != 0);
        kani::cover!(c & 8 != 0);
    }

    // @harness id=C03 tier=quick timeout=3000 mem=8
    // @bounds suspend whose closure writes one line to the terminal, from any Inv_multi state with zombie pattern 001 (members 0..2, bit i = member i is a dropped bar still in the order), all three members drawn; live member acted on: 2
    #[kani::proof]
    #[kani::unwind(14)]
    //@STUBS std now widthascii repeat noterm rlctl noweight
    fn c03_suspend_headz() {
        let c = op_step(5, 1, 7, 2);
        kani::cover!(c & 2 != 0);
        kani::cover!(c & 8 != 0);
    }

    // @harness id=C03 tier=thorough timeout=3000 mem=8
    // @bounds suspend whose closure writes one line to the terminal, from any Inv_multi state with zombie pattern 010 (members 0..2, bit i = member i is a dropped bar still in the order), all three members drawn; live member acted on: 2
    #[kani::proof]
    #[kani::unwind(14)]
    //@STUBS std now widthascii repeat noterm rlctl noweight
    fn c03_suspend_midz() {
        let c = op_step(5, 2, 7, 2);
        kani::cover!(c & 2 != 0);
        kani::cover!(c & 8 != 0);
    }

    // @harness id=C03 tier=thorough timeout=3000 mem=8
    // @bounds suspend whose closure writes one line to the terminal, from any Inv_multi state with zombie pattern 011 (members 0..2, bit i = member i is a dropped bar still in the order), all three members drawn; live member acted on: 2
    #[kani::proof]
    #[kani::unwind(14)]
    //@STUBS std now widthascii repeat noterm rlctl noweight
    fn c03_suspend_headzz() {
        let c = op_step(5, 3, 7, 2);
        kani::cover!(c & 2 != 0);
        kani::cover!(c & 8 != 0);
    }

}
