// C03 — printed log lines are never erased, duplicated or reordered (MultiProgress row accounting).
// @file-encodes multi::MultiState::draw, multi::MultiState::println, multi::MultiState::clear, multi::MultiState::suspend, multi::MultiState::mark_zombie, multi::MultiState::remove_idx, multi::MultiState::draw_state, draw_target::DrawStateWrapper::drop, draw_target::ProgressDrawTarget::drawable, draw_target::ProgressDrawTarget::adjust_last_line_count, draw_target::Drawable::adjust_last_line_count, draw_target::Drawable::state, draw_target::Drawable::clear, draw_target::Drawable::draw
// @file-assumes one operation from an arbitrary state of Inv_multi (see multi/step.rs): 2 drawn members of one row each with a concrete zombie pattern, 0..=2 kept zombie rows, previous frame of 0..=2 rows, limiter admitting or refusing (symbolic); DrawState::draw_to_term is replaced by its contract on a row stack (erase exactly last_line_count rows from the bottom, paint text lines then bar lines, last_line_count = bar rows) which the C01/C19 step harnesses establish on the detailed screen model for frames that fit and top alignment; member BarStates are replaced by the exact draw-target call sequences of BarState::{draw,println,drop}; RateLimiter::allow = harness-controlled verdict; visual_line_count = number of lines (one-row lines); MultiState::remove_idx replaced by a recorder (its slot/ordering bookkeeping is decided by c02_remove_step)
#[cfg(kani)]
mod verif_c03 {
    use super::verif_mstep::*;
    use super::verif_rig_multi::*;
    use super::*;
    use crate::draw_target::verif_rig_dt::*;
    use crate::verif_common::*;

    /// op: 0 member draw (ordinary), 1 member println, 2 mp.println, 3 mp.clear, 4 drop member, 5 suspend, 6 remove
    fn op_step(op: u8, zmask: u8, live: usize) -> u32 {
        let mut p = pre_state(zmask);
        let now = p.now;
        match op {
            0 => {
                let r = member_draw(&mut p.ms, live, b'D', false, now);
                assert!(r.is_ok());
                post_inv(&p, 0);
                if !p.allow {
                    // a skipped draw changes nothing on screen and nothing in the row accounting
                    assert!(unsafe { DRAWS } == 0);
                    assert!(target_last_rows(&p.ms.draw_target) == p.f && p.ms.zombie_lines_count.as_usize() == p.z0);
                }
            }
            1 => {
                let r = member_println(&mut p.ms, live, b'D', now);
                assert!(r.is_ok());
                post_inv(&p, b'x');
            }
            2 => {
                // MultiState::println(msg) = split msg into Text lines, then draw(true, Some(lines), now); the split (a String
                // allocation of symbolic size per line, which CBMC cannot digest) is exercised by the composition harnesses
                let mut lines: Vec<LineType> = Vec::with_capacity(1);
                lines.push(LineType::Text(String::from("x")));
                let r = p.ms.draw(true, Some(lines), now);
                assert!(r.is_ok());
                post_inv(&p, b'x');
                // the new line is the first row below the old log
                assert!(unsafe { STACK[L] } == b'x');
                assert!(p.ms.zombie_lines_count.as_usize() == 0);
            }
            3 => {
                let r = p.ms.clear(now);
                assert!(r.is_ok());
                post_inv(&p, 0);
                assert!(unsafe { SLEN } == L); // everything below the log is erased, nothing of the log
                assert!(target_last_rows(&p.ms.draw_target) == 0 && p.ms.zombie_lines_count.as_usize() == 0);
            }
            4 => {
                let r = member_draw(&mut p.ms, live, b'D', true, now);
                assert!(r.is_ok());
                p.ms.mark_zombie(live);
                post_inv(&p, 0);
            }
            5 => {
                let v = p.ms.suspend(
                    || {
                        stack_push(b'y');
                        3
                    },
                    now,
                );
                assert!(v == 3);
                post_inv(&p, b'y');
                assert!(unsafe { STACK[L] } == b'y');
            }
            _ => {
                p.ms.remove_idx(live);
                post_inv(&p, 0);
            }
        }
        let mut code = 0u32;
        if p.allow {
            code |= 1;
        }
        if p.z0 > 0 {
            code |= 2;
        }
        if p.f == 2 {
            code |= 4;
        }
        if p.f == 0 && p.z0 == 0 {
            code |= 8;
        }
        std::mem::forget(p);
        code
    }

    // @harness id=C03 tier=deep timeout=3400 mem=16 checks=rust
    // @bounds one ordinary (rate-limitable) redraw of a live member, from any Inv_multi state with zombie pattern 00 (bit i = member i is a dropped bar still in the order); live member acted on: 1
    #[kani::proof]
    #[kani::unwind(6)]
    //@STUBS std now widthascii noterm rlctl noweight dttcontract rows1 noremove lineclone norwlock
    fn c03_member_draw_live() {
        let c = op_step(0, 0, 1);
        kani::cover!(c & 1 != 0 && c & 2 != 0);
        kani::cover!(c & 1 == 0);
    }

    // @harness id=C03 tier=deep timeout=3400 mem=16 checks=rust
    // @bounds one ordinary (rate-limitable) redraw of a live member, from any Inv_multi state with zombie pattern 01 (bit i = member i is a dropped bar still in the order); live member acted on: 1
    #[kani::proof]
    #[kani::unwind(6)]
    //@STUBS std now widthascii noterm rlctl noweight dttcontract rows1 noremove lineclone norwlock
    fn c03_member_draw_headz() {
        let c = op_step(0, 1, 1);
        kani::cover!(c & 1 != 0 && c & 2 != 0);
        kani::cover!(c & 1 == 0);
    }

    // @harness id=C03 tier=deep timeout=3400 mem=16 checks=rust
    // @bounds one ordinary (rate-limitable) redraw of a live member, from any Inv_multi state with zombie pattern 10 (bit i = member i is a dropped bar still in the order); live member acted on: 0
    #[kani::proof]
    #[kani::unwind(6)]
    //@STUBS std now widthascii noterm rlctl noweight dttcontract rows1 noremove lineclone norwlock
    fn c03_member_draw_tailz() {
        let c = op_step(0, 2, 0);
        kani::cover!(c & 1 != 0 && c & 2 != 0);
        kani::cover!(c & 1 == 0);
    }

    // @harness id=C03 tier=deep timeout=3400 mem=16 checks=rust
    // @bounds ProgressBar::println on a live member (text line + bar line, forced), from any Inv_multi state with zombie pattern 00 (bit i = member i is a dropped bar still in the order); live member acted on: 1
    #[kani::proof]
    #[kani::unwind(6)]
    //@STUBS std now widthascii noterm rlctl noweight dttcontract rows1 noremove lineclone norwlock
    fn c03_member_println_live() {
        let c = op_step(1, 0, 1);
        kani::cover!(c & 2 != 0);
        kani::cover!(c & 8 != 0);
    }

    // @harness id=C03 tier=deep timeout=3400 mem=16 checks=rust
    // @bounds ProgressBar::println on a live member (text line + bar line, forced), from any Inv_multi state with zombie pattern 01 (bit i = member i is a dropped bar still in the order); live member acted on: 1
    #[kani::proof]
    #[kani::unwind(6)]
    //@STUBS std now widthascii noterm rlctl noweight dttcontract rows1 noremove lineclone norwlock
    fn c03_member_println_headz() {
        let c = op_step(1, 1, 1);
        kani::cover!(c & 2 != 0);
        kani::cover!(c & 4 != 0);
    }

    // @harness id=C03 tier=deep timeout=3400 mem=16 checks=rust
    // @bounds ProgressBar::println on a live member (text line + bar line, forced), from any Inv_multi state with zombie pattern 10 (bit i = member i is a dropped bar still in the order); live member acted on: 0
    #[kani::proof]
    #[kani::unwind(6)]
    //@STUBS std now widthascii noterm rlctl noweight dttcontract rows1 noremove lineclone norwlock
    fn c03_member_println_tailz() {
        let c = op_step(1, 2, 0);
        kani::cover!(c & 2 != 0);
        kani::cover!(c & 4 != 0);
    }

    // @harness id=C03 tier=deep timeout=3400 mem=16 checks=rust
    // @bounds MultiProgress::println, from any Inv_multi state with zombie pattern 00 (bit i = member i is a dropped bar still in the order); live member acted on: 1
    #[kani::proof]
    #[kani::unwind(6)]
    //@STUBS std now widthascii noterm rlctl noweight dttcontract rows1 noremove lineclone norwlock
    fn c03_mp_println_live() {
        let c = op_step(2, 0, 1);
        kani::cover!(c & 2 != 0);
        kani::cover!(c & 8 != 0);
    }

    // @harness id=C03 tier=deep timeout=3400 mem=16 checks=rust
    // @bounds MultiProgress::println, from any Inv_multi state with zombie pattern 01 (bit i = member i is a dropped bar still in the order); live member acted on: 1
    #[kani::proof]
    #[kani::unwind(6)]
    //@STUBS std now widthascii noterm rlctl noweight dttcontract rows1 noremove lineclone norwlock
    fn c03_mp_println_headz() {
        let c = op_step(2, 1, 1);
        kani::cover!(c & 2 != 0);
        kani::cover!(c & 4 != 0);
    }

    // @harness id=C03 tier=deep timeout=3400 mem=16 checks=rust
    // @bounds MultiProgress::println, from any Inv_multi state with zombie pattern 10 (bit i = member i is a dropped bar still in the order); live member acted on: 0
    #[kani::proof]
    #[kani::unwind(6)]
    //@STUBS std now widthascii noterm rlctl noweight dttcontract rows1 noremove lineclone norwlock
    fn c03_mp_println_tailz() {
        let c = op_step(2, 2, 0);
        kani::cover!(c & 2 != 0);
        kani::cover!(c & 4 != 0);
    }

    // @harness id=C03 tier=deep timeout=3400 mem=16 checks=rust
    // @bounds MultiProgress::println, from any Inv_multi state with zombie pattern 11 (bit i = member i is a dropped bar still in the order)
    #[kani::proof]
    #[kani::unwind(6)]
    //@STUBS std now widthascii noterm rlctl noweight dttcontract rows1 noremove lineclone norwlock
    fn c03_mp_println_allz() {
        let c = op_step(2, 3, 0);
        kani::cover!(c & 2 != 0);
        kani::cover!(c & 4 != 0);
    }

    // @harness id=C03 tier=deep timeout=3400 mem=16 checks=rust
    // @bounds MultiProgress::clear, from any Inv_multi state with zombie pattern 00 (bit i = member i is a dropped bar still in the order); live member acted on: 1
    #[kani::proof]
    #[kani::unwind(6)]
    //@STUBS std now widthascii noterm rlctl noweight dttcontract rows1 noremove lineclone norwlock
    fn c03_mp_clear_live() {
        let c = op_step(3, 0, 1);
        kani::cover!(c & 2 != 0);
        kani::cover!(c & 8 != 0);
    }

    // @harness id=C03 tier=deep timeout=3400 mem=16 checks=rust
    // @bounds MultiProgress::clear, from any Inv_multi state with zombie pattern 01 (bit i = member i is a dropped bar still in the order); live member acted on: 1
    #[kani::proof]
    #[kani::unwind(6)]
    //@STUBS std now widthascii noterm rlctl noweight dttcontract rows1 noremove lineclone norwlock
    fn c03_mp_clear_headz() {
        let c = op_step(3, 1, 1);
        kani::cover!(c & 2 != 0);
        kani::cover!(c & 4 != 0);
    }

    // @harness id=C03 tier=deep timeout=3400 mem=16 checks=rust
    // @bounds MultiProgress::clear, from any Inv_multi state with zombie pattern 10 (bit i = member i is a dropped bar still in the order); live member acted on: 0
    #[kani::proof]
    #[kani::unwind(6)]
    //@STUBS std now widthascii noterm rlctl noweight dttcontract rows1 noremove lineclone norwlock
    fn c03_mp_clear_tailz() {
        let c = op_step(3, 2, 0);
        kani::cover!(c & 2 != 0);
        kani::cover!(c & 4 != 0);
    }

    // @harness id=C03 tier=deep timeout=3400 mem=16 checks=rust
    // @bounds MultiProgress::clear, from any Inv_multi state with zombie pattern 11 (bit i = member i is a dropped bar still in the order)
    #[kani::proof]
    #[kani::unwind(6)]
    //@STUBS std now widthascii noterm rlctl noweight dttcontract rows1 noremove lineclone norwlock
    fn c03_mp_clear_allz() {
        let c = op_step(3, 3, 0);
        kani::cover!(c & 2 != 0);
        kani::cover!(c & 4 != 0);
    }

    // @harness id=C03 tier=deep timeout=3400 mem=16 checks=rust
    // @bounds a live member is dropped (forced final draw, then mark_zombie), from any Inv_multi state with zombie pattern 00 (bit i = member i is a dropped bar still in the order); live member acted on: 1
    #[kani::proof]
    #[kani::unwind(6)]
    //@STUBS std now widthascii noterm rlctl noweight dttcontract rows1 noremove lineclone norwlock
    fn c03_drop_member_live() {
        let c = op_step(4, 0, 1);
        kani::cover!(c & 2 != 0);
        kani::cover!(c & 8 != 0);
    }

    // @harness id=C03 tier=deep timeout=3400 mem=16 checks=rust
    // @bounds a live member is dropped (forced final draw, then mark_zombie), from any Inv_multi state with zombie pattern 01 (bit i = member i is a dropped bar still in the order); live member acted on: 1
    #[kani::proof]
    #[kani::unwind(6)]
    //@STUBS std now widthascii noterm rlctl noweight dttcontract rows1 noremove lineclone norwlock
    fn c03_drop_member_headz() {
        let c = op_step(4, 1, 1);
        kani::cover!(c & 2 != 0);
        kani::cover!(c & 4 != 0);
    }

    // @harness id=C03 tier=deep timeout=3400 mem=16 checks=rust
    // @bounds a live member is dropped (forced final draw, then mark_zombie), from any Inv_multi state with zombie pattern 10 (bit i = member i is a dropped bar still in the order); live member acted on: 0
    #[kani::proof]
    #[kani::unwind(6)]
    //@STUBS std now widthascii noterm rlctl noweight dttcontract rows1 noremove lineclone norwlock
    fn c03_drop_member_tailz() {
        let c = op_step(4, 2, 0);
        kani::cover!(c & 2 != 0);
        kani::cover!(c & 4 != 0);
    }

    // @harness id=C03 tier=deep timeout=3400 mem=16 checks=rust
    // @bounds suspend whose closure writes one line to the terminal, from any Inv_multi state with zombie pattern 00 (bit i = member i is a dropped bar still in the order); live member acted on: 1
    #[kani::proof]
    #[kani::unwind(6)]
    //@STUBS std now widthascii noterm rlctl noweight dttcontract rows1 noremove lineclone norwlock
    fn c03_suspend_live() {
        let c = op_step(5, 0, 1);
        kani::cover!(c & 2 != 0);
        kani::cover!(c & 8 != 0);
    }

    // @harness id=C03 tier=deep timeout=3400 mem=16 checks=rust
    // @bounds suspend whose closure writes one line to the terminal, from any Inv_multi state with zombie pattern 01 (bit i = member i is a dropped bar still in the order); live member acted on: 1
    #[kani::proof]
    #[kani::unwind(6)]
    //@STUBS std now widthascii noterm rlctl noweight dttcontract rows1 noremove lineclone norwlock
    fn c03_suspend_headz() {
        let c = op_step(5, 1, 1);
        kani::cover!(c & 2 != 0);
        kani::cover!(c & 4 != 0);
    }

    // @harness id=C03 tier=deep timeout=3400 mem=16 checks=rust
    // @bounds suspend whose closure writes one line to the terminal, from any Inv_multi state with zombie pattern 10 (bit i = member i is a dropped bar still in the order); live member acted on: 0
    #[kani::proof]
    #[kani::unwind(6)]
    //@STUBS std now widthascii noterm rlctl noweight dttcontract rows1 noremove lineclone norwlock
    fn c03_suspend_tailz() {
        let c = op_step(5, 2, 0);
        kani::cover!(c & 2 != 0);
        kani::cover!(c & 4 != 0);
    }

    // @harness id=C03 tier=deep timeout=3400 mem=16 checks=rust
    // @bounds suspend whose closure writes one line to the terminal, from any Inv_multi state with zombie pattern 11 (bit i = member i is a dropped bar still in the order)
    #[kani::proof]
    #[kani::unwind(6)]
    //@STUBS std now widthascii noterm rlctl noweight dttcontract rows1 noremove lineclone norwlock
    fn c03_suspend_allz() {
        let c = op_step(5, 3, 0);
        kani::cover!(c & 2 != 0);
        kani::cover!(c & 4 != 0);
    }

}
