// Shared rig: MultiState values built directly (concrete capacities keep CBMC's memory flat).
#[cfg(kani)]
pub(crate) mod verif_rig_multi {
    use super::*;
    use crate::draw_target::verif_scr::*;

    pub(crate) const CAPM: usize = 5;

    /// empty MultiState over the given draw target
    pub(crate) fn rig_multi(target: ProgressDrawTarget) -> MultiState {
        // through the library's own constructor (so that a field added to MultiState later does not break the rigs), then
        // with pre-sized vectors (growing a Vec is an allocation of symbolic size for CBMC)
        let mut ms = MultiState::new(target);
        ms.members = Vec::with_capacity(CAPM);
        ms.free_set = Vec::with_capacity(CAPM);
        ms.ordering = Vec::with_capacity(CAPM);
        ms.alignment = MultiProgressAlignment::Top;
        ms.orphan_lines = Vec::with_capacity(4);
        ms.zombie_lines_count = VisualLines::default();
        ms
    }

    /// append a member slot (in `ordering`), optionally with a drawn state of `rows` one-row bar lines tagged `letter`
    pub(crate) fn push_member(ms: &mut MultiState, drawn: bool, rows: usize, letter: u8, zombie: bool) -> usize {
        let idx = ms.members.len();
        let ds = if drawn {
            let mut d = DrawState::default();
            d.lines = Vec::with_capacity(3);
            let mut i = 0;
            while i < rows {
                d.lines.push(LineType::Bar(mk_line(letter, 1)));
                i += 1;
            }
            Some(d)
        } else {
            None
        };
        ms.members.push(MultiStateMember { draw_state: ds, is_zombie: zombie });
        ms.ordering.push(idx);
        idx
    }

    pub(crate) fn set_member_lines(ms: &mut MultiState, idx: usize, rows: usize, letter: u8) {
        let mut d = DrawState::default();
        d.lines = Vec::with_capacity(3);
        let mut i = 0;
        while i < rows {
            d.lines.push(LineType::Bar(mk_line(letter, 1)));
            i += 1;
        }
        ms.members[idx].draw_state = Some(d);
    }

    pub(crate) fn zombie_lines(ms: &MultiState) -> usize {
        ms.zombie_lines_count.as_usize()
    }

    pub(crate) fn ordering_at(ms: &MultiState, i: usize) -> usize {
        ms.ordering[i]
    }

    pub(crate) fn ordering_len(ms: &MultiState) -> usize {
        ms.ordering.len()
    }

    pub(crate) fn last_count(ms: &MultiState) -> usize {
        target_last(&ms.draw_target)
    }

    // ---- stand-in for MultiState::remove_idx in the row-accounting harnesses: records which slots the operation removed
    //      (the slot/ordering bookkeeping of the real remove_idx is decided separately by c02_remove_step) ----
    pub(crate) static mut REMOVED: [usize; 4] = [usize::MAX; 4];
    pub(crate) static mut NREMOVED: usize = 0;
    pub(crate) fn record_remove_idx(ms: &mut MultiState, idx: usize) {
        unsafe {
            if NREMOVED < 4 {
                REMOVED[NREMOVED] = idx;
            }
            NREMOVED += 1;
        }
        ms.members[idx].is_zombie = false;
    }

    // ---- recording stand-in for MultiState::draw in the harnesses about the operations AROUND a multi draw (suspend): CBMC does
    //      not finish the real function; what is recorded is when it is called, with which force flag, and the row accounting
    //      it finds ----
    pub(crate) static mut MDRAW_CALLS: usize = 0;
    pub(crate) static mut MDRAW_FORCED: bool = false;
    pub(crate) static mut MDRAW_EXTRA: bool = false;
    pub(crate) static mut MDRAW_ZOMBIES: usize = usize::MAX;
    pub(crate) static mut MDRAW_LAST: usize = usize::MAX;
    pub(crate) fn record_multi_draw(ms: &mut MultiState, force_draw: bool, extra_lines: Option<Vec<LineType>>, _now: Instant) -> io::Result<()> {
        unsafe {
            MDRAW_CALLS += 1;
            MDRAW_FORCED = force_draw;
            MDRAW_EXTRA = extra_lines.is_some();
            MDRAW_ZOMBIES = ms.zombie_lines_count.as_usize();
            MDRAW_LAST = target_last(&ms.draw_target);
        }
        std::mem::forget(extra_lines);
        Ok(())
    }
}
