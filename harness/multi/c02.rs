// C02 — MultiProgress shows every member once, in logical order, below the log.
// @file-encodes multi::MultiState::insert, multi::MultiState::remove_idx, multi::MultiState::len, multi::MultiState::draw (frame composition), multi::MultiState::draw_state, draw_target::DrawStateWrapper::drop, draw_target::DrawState::draw_to_term
// @file-assumes MultiState built directly (rig) with concrete capacities; one operation from an arbitrary state of the representation invariant (ordering and free_set duplicate-free, disjoint, together all slots; free slots undrawn and not zombies); thread interleavings are NOT explored: that every frame shows a state each bar really had rests on all of this running under the one RwLock write guard taken by drawable()
#[cfg(kani)]
mod verif_c02 {
    use super::verif_mstep::*;
    use super::verif_rig_multi::*;
    use super::*;
    use crate::draw_target::verif_scr::*;
    use crate::verif_common::*;

    const M: usize = 3;

    /// arbitrary MultiState with M slots: a symbolic permutation of the slots, the first `live` of them in `ordering`
    /// (in that order), the rest in `free_set`
    fn any_state() -> (MultiState, [usize; M], usize) {
        let mut ms = rig_multi(ProgressDrawTarget::hidden());
        let mut i = 0;
        while i < M {
            ms.members.push(MultiStateMember::default());
            i += 1;
        }
        let p0: usize = kani::any();
        let p1: usize = kani::any();
        let p2: usize = kani::any();
        kani::assume(p0 < M && p1 < M && p2 < M && p0 != p1 && p0 != p2 && p1 != p2);
        let perm = [p0, p1, p2];
        let live: usize = kani::any();
        kani::assume(live <= M);
        let mut i = 0;
        while i < M {
            if i < live {
                ms.ordering.push(perm[i]);
            } else {
                ms.free_set.push(perm[i]);
            }
            i += 1;
        }
        (ms, perm, live)
    }

    // @harness id=C02 tier=quick timeout=2400 mem=12
    // @bounds MultiState with 3 slots in any order / any split between live and free; one insert at End / Index(p) / IndexFromBack(p) / After(anchor) / Before(anchor), p in 0..=4: the new bar sits at the documented position, the others keep their relative order, the slot is fresh or recycled, the invariant is preserved
    #[kani::proof]
    #[kani::unwind(7)]
    fn c02_insert_step() {
        let (mut ms, perm, live) = any_state();
        let k: u8 = kani::any();
        kani::assume(k < 5);
        let p: usize = kani::any();
        kani::assume(p <= M + 1);
        let (loc, want) = match k {
            0 => (InsertLocation::End, live),
            1 => (InsertLocation::Index(p), if p < live { p } else { live }),
            2 => (InsertLocation::IndexFromBack(p), live.saturating_sub(p)),
            3 => {
                kani::assume(p < live);
                (InsertLocation::After(perm[p]), p + 1)
            }
            _ => {
                kani::assume(p < live);
                (InsertLocation::Before(perm[p]), p)
            }
        };
        let idx = ms.insert(loc);
        assert!(ms.ordering.len() == live + 1);
        assert!(ms.ordering[want] == idx);
        // the others keep their relative order
        let mut i = 0;
        let mut j = 0;
        while i < live + 1 {
            if i != want {
                assert!(ms.ordering[i] == perm[j]);
                j += 1;
            }
            i += 1;
        }
        // the slot is recycled from the free set (the most recently freed one) or fresh
        if live < M {
            assert!(idx == perm[M - 1]);
            assert!(ms.members.len() == M);
        } else {
            assert!(idx == M);
            assert!(ms.members.len() == M + 1);
        }
        assert!(ms.members[idx].draw_state.is_none() && !ms.members[idx].is_zombie);
        assert!(ms.ordering.len() + ms.free_set.len() == ms.members.len());
        assert!(ms.len() == ms.ordering.len());
        kani::cover!(k == 2 && p > live);
        kani::cover!(k == 3 && live == M);
        kani::cover!(k == 1 && p == 0 && live == 2);
        std::mem::forget(ms);
    }

    // @harness id=C02 tier=quick timeout=2400 mem=12
    // @bounds same states; remove_idx(i) for any slot i: a live slot leaves the order (others keep their relative order) and becomes free and reset; removing a free slot changes nothing
    #[kani::proof]
    #[kani::unwind(7)]
    fn c02_remove_step() {
        let (mut ms, perm, live) = any_state();
        let q: usize = kani::any();
        kani::assume(q < M);
        let idx = perm[q];
        ms.members[idx].is_zombie = kani::any();
        ms.remove_idx(idx);
        if q < live {
            assert!(ms.ordering.len() == live - 1);
            let mut i = 0;
            let mut j = 0;
            while i < live {
                if i != q {
                    assert!(ms.ordering[j] == perm[i]);
                    j += 1;
                }
                i += 1;
            }
            assert!(ms.free_set.len() == M - live + 1);
            assert!(ms.free_set[M - live] == idx);
            assert!(ms.members[idx].draw_state.is_none() && !ms.members[idx].is_zombie);
        } else {
            assert!(ms.ordering.len() == live && ms.free_set.len() == M - live);
        }
        assert!(ms.ordering.len() + ms.free_set.len() == ms.members.len());
        kani::cover!(q < live && live == M);
        kani::cover!(q >= live);
        std::mem::forget(ms);
    }

    /// frame composition: members 0..2 with letters A,B,C in a CONCRETE order `ord`, member `undrawn` never drawn
    fn frame(ord: [usize; 3], undrawn: usize, bottom: bool) {
        let scr = leak_scr(4, 10);
        let now = mk_instant(1_000_000, 0);
        let f: usize = kani::any();
        kani::assume(f <= 3);
        let mut ms = rig_multi(scr_target_limited(scr, 20, 5, now, f));
        if bottom {
            ms.alignment = MultiProgressAlignment::Bottom;
        }
        let mut i = 0;
        while i < 3 {
            ms.members.push(MultiStateMember::default());
            i += 1;
        }
        let mut i = 0;
        while i < 3 {
            ms.ordering.push(ord[i]);
            if ord[i] != undrawn {
                set_member_lines(&mut ms, ord[i], 1, b'A' + ord[i] as u8);
            }
            i += 1;
        }
        // screen: L log rows, then the previous frame of f rows
        let mut r = 0;
        while r < NROWS {
            if r < L {
                scr.tags[r].set(T_LOG);
            } else if r < L + f {
                scr.tags[r].set(T_OLD);
            }
            r += 1;
        }
        if f > 0 {
            scr.row.set(L + f - 1);
            scr.col.set(4);
            scr.maxrow.set(L + f - 1);
        } else {
            scr.row.set(L);
            scr.col.set(0);
            scr.maxrow.set(L);
        }
        // member `upd` redraws itself (its most recent rendering is 'D'), forced
        let upd: usize = kani::any();
        kani::assume(upd < 3 && upd != undrawn);
        let r = member_draw(&mut ms, upd, b'D', true, now);
        assert!(r.is_ok());
        // expected frame: drawn members in `ord` order, each once; `upd` shows its latest rendering
        let painted = if undrawn < 3 { 2 } else { 3 };
        let shift = if bottom && painted < f { f - painted } else { 0 };
        let mut row = L;
        let mut j = 0;
        while j < shift {
            assert!(scr.is_blank(row));
            row += 1;
            j += 1;
        }
        let mut i = 0;
        while i < 3 {
            let m = ord[i];
            if m != undrawn {
                let want = if m == upd { b'D' } else { b'A' + m as u8 };
                assert!(scr.tag(row) == want);
                row += 1;
            }
            i += 1;
        }
        let mut r = 0;
        while r < NROWS {
            if r < L {
                assert!(scr.tag(r) == T_LOG);
            } else if r >= row {
                assert!(scr.is_blank(r));
            }
            r += 1;
        }
        assert!(last_count(&ms) == painted + shift);
        kani::cover!(f == 3);
        kani::cover!(f == 0);
        std::mem::forget(ms);
    }

    // @harness id=C02 tier=quick timeout=3000 mem=10
    // @bounds 3 members in order [2,0,1], all drawn, previous frame of 0..=3 rows, any member redraws: the frame below the log shows each member's latest rendering exactly once in that order
    #[kani::proof]
    #[kani::unwind(14)]
    //@STUBS std now widthascii repeat noterm rlctl noweight
    fn c02_frame_order_201() {
        frame([2, 0, 1], 9, false);
    }

    // @harness id=C02 tier=quick timeout=3000 mem=10
    // @bounds 3 members in order [1,2,0], member 2 never drawn, previous frame of 0..=3 rows (the frame shrinks), bottom alignment: blank padding of exactly the shrink on top, then the drawn members in order
    #[kani::proof]
    #[kani::unwind(14)]
    //@STUBS std now widthascii repeat noterm rlctl noweight
    fn c02_frame_bottom_shrink() {
        frame([1, 2, 0], 2, true);
    }

    // @harness id=C02 tier=thorough timeout=3000 mem=10
    // @bounds 3 members in order [0,1,2], member 0 never drawn, top alignment, previous frame of 0..=3 rows
    #[kani::proof]
    #[kani::unwind(14)]
    //@STUBS std now widthascii repeat noterm rlctl noweight
    fn c02_frame_order_012_undrawn0() {
        frame([0, 1, 2], 0, false);
    }
}
