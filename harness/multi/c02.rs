// C02 — MultiProgress shows every member once, in logical order, below the log.
// @file-encodes multi::MultiState::insert, multi::MultiState::remove_idx, multi::MultiState::len, multi::MultiState::draw (frame composition), multi::MultiState::draw_state, draw_target::DrawStateWrapper::drop, draw_target::DrawState::draw_to_term
// @file-assumes MultiState built directly (rig) with concrete capacities; one operation from an arbitrary state of the representation invariant (ordering and free_set duplicate-free, disjoint, together all slots; free slots undrawn and not zombies); thread interleavings are NOT explored: that every frame shows a state each bar really had rests on all of this running under the one RwLock write guard taken by drawable()
#[cfg(kani)]
mod verif_c02 {
    use super::verif_mstep::*;
    use super::verif_rig_multi::*;
    use super::*;
    use crate::verif_common::*;

    const M: usize = 2;

    /// arbitrary MultiState with M slots: a symbolic permutation of the slots, the first `live` of them in `ordering`
    /// (in that order), the rest in `free_set`
    fn any_state_live(live: usize) -> (MultiState, [usize; M], usize) {
        let mut ms = rig_multi(ProgressDrawTarget::hidden());
        let mut i = 0;
        while i < M {
            ms.members.push(MultiStateMember::default());
            i += 1;
        }
        let p0: usize = kani::any();
        kani::assume(p0 < M);
        let perm = [p0, 1 - p0];
        let mut i = 0;
        while i < M {
            if i < live {
                ms.ordering.push(perm[i]);
            } else {
                ms.free_set.push(perm[i]);
            }
            i += 1;
        }
        (ms, perm, live)
    }

    fn any_state() -> (MultiState, [usize; M], usize) {
        let mut ms = rig_multi(ProgressDrawTarget::hidden());
        let mut i = 0;
        while i < M {
            ms.members.push(MultiStateMember::default());
            i += 1;
        }
        let p0: usize = kani::any();
        kani::assume(p0 < M);
        let perm = [p0, 1 - p0];
        let live: usize = kani::any();
        kani::assume(live <= M);
        let mut i = 0;
        while i < M {
            if i < live {
                ms.ordering.push(perm[i]);
            } else {
                ms.free_set.push(perm[i]);
            }
            i += 1;
        }
        (ms, perm, live)
    }

    /// the kind of insert location is CONCRETE per harness (a symbolic choice among the five kinds together with Vec::insert
    /// at a symbolic index exhausts 16 GB); the slot permutation, the live/free split and the position argument are symbolic
    fn insert_step(k: u8, live: usize, p: usize) {
        // live bars and position argument are concrete (Vec::insert at a symbolic index: out of memory at 16 GB after 25 min);
        // which slot is where (the permutation, hence which slot is recycled and which bars are the anchors) is symbolic
        let (mut ms, perm, live) = any_state_live(live);
        if k >= 3 && p >= live {
            return;
        }
        let (loc, want) = match k {
            0 => (InsertLocation::End, live),
            1 => (InsertLocation::Index(p), if p < live { p } else { live }),
            2 => (InsertLocation::IndexFromBack(p), live.saturating_sub(p)),
            3 => (InsertLocation::After(perm[p]), p + 1),
            _ => (InsertLocation::Before(perm[p]), p),
        };
        let idx = ms.insert(loc);
        assert!(ms.ordering.len() == live + 1);
        assert!(ms.ordering[want] == idx);
        // the others keep their relative order
        let mut i = 0;
        let mut j = 0;
        while i < live + 1 {
            if i != want {
                assert!(ms.ordering[i] == perm[j]);
                j += 1;
            }
            i += 1;
        }
        // the slot is recycled from the free set (the most recently freed one) or fresh
        if live < M {
            assert!(idx == perm[M - 1]);
            assert!(ms.members.len() == M);
        } else {
            assert!(idx == M);
            assert!(ms.members.len() == M + 1);
        }
        assert!(ms.members[idx].draw_state.is_none() && !ms.members[idx].is_zombie);
        assert!(ms.ordering.len() + ms.free_set.len() == ms.members.len());
        assert!(ms.len() == ms.ordering.len());
        kani::cover!(perm[0] == 1);
        std::mem::forget(ms);
    }

    macro_rules! c02_insert {
        ($name:ident, $k:expr, $live:expr) => {
            #[kani::proof]
            #[kani::unwind(7)]
            fn $name() {
                insert_step($k, $live, 0);
                insert_step($k, $live, 1);
                insert_step($k, $live, 2);
                insert_step($k, $live, 3);
            }
        };
    }

    // @harness id=C02 tier=quick timeout=1800 mem=12 checks=rust
    // @bounds MultiState with 2 slots, 0 live and 2 free, slots in ANY order (symbolic permutation); insert at End (add): the new bar is last; the others keep their relative order, the slot is recycled (most recently freed) or fresh, the invariant is preserved
    c02_insert!(c02_insert_end_live0, 0, 0);
    // @harness id=C02 tier=quick timeout=1800 mem=12 checks=rust
    // @bounds MultiState with 2 slots, 1 live and 1 free, slots in ANY order (symbolic permutation); insert at End (add): the new bar is last; the others keep their relative order, the slot is recycled (most recently freed) or fresh, the invariant is preserved
    c02_insert!(c02_insert_end_live1, 0, 1);
    // @harness id=C02 tier=quick timeout=1800 mem=12 checks=rust
    // @bounds MultiState with 2 slots, 2 live and 0 free, slots in ANY order (symbolic permutation); insert at End (add): the new bar is last; the others keep their relative order, the slot is recycled (most recently freed) or fresh, the invariant is preserved
    c02_insert!(c02_insert_end_live2, 0, 2);
    // @harness id=C02 tier=quick timeout=1800 mem=12 checks=rust
    // @bounds MultiState with 2 slots, 0 live and 2 free, slots in ANY order (symbolic permutation); insert(Index(p)), p in 0..=3: the new bar sits at min(p, live); the others keep their relative order, the slot is recycled (most recently freed) or fresh, the invariant is preserved
    c02_insert!(c02_insert_index_live0, 1, 0);
    // @harness id=C02 tier=quick timeout=1800 mem=12 checks=rust
    // @bounds MultiState with 2 slots, 1 live and 1 free, slots in ANY order (symbolic permutation); insert(Index(p)), p in 0..=3: the new bar sits at min(p, live); the others keep their relative order, the slot is recycled (most recently freed) or fresh, the invariant is preserved
    c02_insert!(c02_insert_index_live1, 1, 1);
    // @harness id=C02 tier=quick timeout=1800 mem=12 checks=rust
    // @bounds MultiState with 2 slots, 2 live and 0 free, slots in ANY order (symbolic permutation); insert(Index(p)), p in 0..=3: the new bar sits at min(p, live); the others keep their relative order, the slot is recycled (most recently freed) or fresh, the invariant is preserved
    c02_insert!(c02_insert_index_live2, 1, 2);
    // @harness id=C02 tier=quick timeout=1800 mem=12 checks=rust
    // @bounds MultiState with 2 slots, 0 live and 2 free, slots in ANY order (symbolic permutation); insert_from_back(p), p in 0..=3: the new bar sits at live - p (0 if p > live), counted among the LIVE bars only; the others keep their relative order, the slot is recycled (most recently freed) or fresh, the invariant is preserved
    c02_insert!(c02_insert_from_back_live0, 2, 0);
    // @harness id=C02 tier=quick timeout=1800 mem=12 checks=rust
    // @bounds MultiState with 2 slots, 1 live and 1 free, slots in ANY order (symbolic permutation); insert_from_back(p), p in 0..=3: the new bar sits at live - p (0 if p > live), counted among the LIVE bars only; the others keep their relative order, the slot is recycled (most recently freed) or fresh, the invariant is preserved
    c02_insert!(c02_insert_from_back_live1, 2, 1);
    // @harness id=C02 tier=quick timeout=1800 mem=12 checks=rust
    // @bounds MultiState with 2 slots, 2 live and 0 free, slots in ANY order (symbolic permutation); insert_from_back(p), p in 0..=3: the new bar sits at live - p (0 if p > live), counted among the LIVE bars only; the others keep their relative order, the slot is recycled (most recently freed) or fresh, the invariant is preserved
    c02_insert!(c02_insert_from_back_live2, 2, 2);
    // @harness id=C02 tier=quick timeout=1800 mem=12 checks=rust
    // @bounds MultiState with 2 slots, 1 live and 1 free, slots in ANY order (symbolic permutation); insert_after(anchor) for every live anchor: directly after it; the others keep their relative order, the slot is recycled (most recently freed) or fresh, the invariant is preserved
    c02_insert!(c02_insert_after_live1, 3, 1);
    // @harness id=C02 tier=quick timeout=1800 mem=12 checks=rust
    // @bounds MultiState with 2 slots, 2 live and 0 free, slots in ANY order (symbolic permutation); insert_after(anchor) for every live anchor: directly after it; the others keep their relative order, the slot is recycled (most recently freed) or fresh, the invariant is preserved
    c02_insert!(c02_insert_after_live2, 3, 2);
    // @harness id=C02 tier=quick timeout=1800 mem=12 checks=rust
    // @bounds MultiState with 2 slots, 1 live and 1 free, slots in ANY order (symbolic permutation); insert_before(anchor) for every live anchor: directly before it; the others keep their relative order, the slot is recycled (most recently freed) or fresh, the invariant is preserved
    c02_insert!(c02_insert_before_live1, 4, 1);
    // @harness id=C02 tier=quick timeout=1800 mem=12 checks=rust
    // @bounds MultiState with 2 slots, 2 live and 0 free, slots in ANY order (symbolic permutation); insert_before(anchor) for every live anchor: directly before it; the others keep their relative order, the slot is recycled (most recently freed) or fresh, the invariant is preserved
    c02_insert!(c02_insert_before_live2, 4, 2);

    // @harness id=C02 tier=quick timeout=2400 mem=16 checks=rust
    // @bounds same states; remove_idx(i) for any slot i: a live slot leaves the order (others keep their relative order) and becomes free and reset; removing a free slot changes nothing
    #[kani::proof]
    #[kani::unwind(7)]
    fn c02_remove_step() {
        let (mut ms, perm, live) = any_state();
        let q: usize = kani::any();
        kani::assume(q < M);
        let idx = perm[q];
        ms.members[idx].is_zombie = kani::any();
        ms.remove_idx(idx);
        if q < live {
            assert!(ms.ordering.len() == live - 1);
            let mut i = 0;
            let mut j = 0;
            while i < live {
                if i != q {
                    assert!(ms.ordering[j] == perm[i]);
                    j += 1;
                }
                i += 1;
            }
            assert!(ms.free_set.len() == M - live + 1);
            assert!(ms.free_set[M - live] == idx);
            assert!(ms.members[idx].draw_state.is_none() && !ms.members[idx].is_zombie);
        } else {
            assert!(ms.ordering.len() == live && ms.free_set.len() == M - live);
        }
        assert!(ms.ordering.len() + ms.free_set.len() == ms.members.len());
        kani::cover!(q < live && live == M);
        kani::cover!(q >= live);
        std::mem::forget(ms);
    }

    /// frame composition: members 0..2 with letters A,B,C in a CONCRETE order `ord`, member `undrawn` never drawn; the
    /// terminal protocol is replaced by the draw_to_term contract (row stack)
    fn frame(ord: [usize; 3], undrawn: usize) {
        use crate::draw_target::verif_rig_dt::*;
        let now = mk_instant(1_000_000, 0);
        let f: usize = kani::any();
        kani::assume(f <= 3);
        unsafe {
            SLEN = 0;
            DRAWS = 0;
            LOG_FLOOR = L;
            RL_VERDICT = true;
        }
        let mut ms = rig_multi(null_target(4, 10, f));
        let mut i = 0;
        while i < 3 {
            ms.members.push(MultiStateMember::default());
            i += 1;
        }
        let mut i = 0;
        while i < 3 {
            ms.ordering.push(ord[i]);
            if ord[i] != undrawn {
                let mut d = DrawState::default();
                d.lines = Vec::with_capacity(3);
                d.lines.push(boxed_line(b'A' + ord[i] as u8));
                ms.members[ord[i]].draw_state = Some(d);
            }
            i += 1;
        }
        let mut r = 0;
        while r < 6 {
            if r < L {
                stack_push(b'L');
            } else if r < L + f {
                stack_push(b'O');
            }
            r += 1;
        }
        // member `upd` redraws itself (its most recent rendering is 'D'), forced
        let upd: usize = kani::any();
        kani::assume(upd < 3 && upd != undrawn);
        let r = member_draw(&mut ms, upd, b'D', true, now);
        assert!(r.is_ok());
        // expected frame: drawn members in `ord` order, each once; `upd` shows its latest rendering; log rows intact
        let painted = if undrawn < 3 { 2 } else { 3 };
        unsafe {
            assert!(SLEN == L + painted);
            let mut row = L;
            let mut i = 0;
            while i < 3 {
                let m = ord[i];
                if m != undrawn {
                    let want = if m == upd { b'D' } else { b'A' + m as u8 };
                    assert!(STACK[row] == want);
                    row += 1;
                }
                i += 1;
            }
            assert!(STACK[0] == b'L' && STACK[1] == b'L' && STACK[2] == b'L');
        }
        assert!(target_last_rows(&ms.draw_target) == painted);
        kani::cover!(f == 3);
        kani::cover!(f == 0);
        std::mem::forget(ms);
    }

    // @harness id=C02 tier=deep timeout=3400 mem=16 checks=rust
    // @bounds 3 members in order [2,0,1], all drawn, previous frame of 0..=3 rows, any member redraws: the frame below the log shows each member's latest rendering exactly once in that order
    #[kani::proof]
    #[kani::unwind(7)]
    //@STUBS std now widthascii noterm rlctl noweight dttcontract rows1 lineclone noremove norwlock
    fn c02_frame_order_201() {
        frame([2, 0, 1], 9);
    }

    // @harness id=C02 tier=deep timeout=3400 mem=16 checks=rust
    // @bounds 3 members in order [1,2,0], member 2 never drawn, previous frame of 0..=3 rows (the frame shrinks): only the drawn members, in order
    #[kani::proof]
    #[kani::unwind(7)]
    //@STUBS std now widthascii noterm rlctl noweight dttcontract rows1 lineclone noremove norwlock
    fn c02_frame_undrawn_member() {
        frame([1, 2, 0], 2);
    }
}
