// MultiState::mark_zombie (a dropped, finished bar tells its MultiProgress that it is gone): one call from an ARBITRARY state.
// Used by C02 (a bar that is not at the head waits; the head bar is reaped at once and ONLY it) and by C19 (the rows the reaped
// bar keeps on screen are counted in wrapped rows, with the real visual_line_count).
// @file-encodes multi::MultiState::mark_zombie, multi::MultiState::width, draw_target::ProgressDrawTarget::adjust_last_line_count, draw_target::DrawState::visual_line_count, draw_target::LineType::wrapped_height
// @file-assumes MultiState built directly (rig) over a TermLike target of width 4; 2..=3 members in ordering [0,1,2], each with a drawn frame of one bar line of 1..=9 columns (so 1..=3 rows) or undrawn; zombie flags, zombie_lines_count (<= 5) and last_line_count (<= 9) symbolic; console::measure_text_width = byte length (ASCII lines); MultiState::remove_idx replaced by a recorder (its bookkeeping is c02_remove_step's subject)
#[cfg(kani)]
mod verif_mark_zombie {
    use super::verif_rig_multi::*;
    use super::*;
    use crate::draw_target::verif_rig_dt::*;
    use crate::draw_target::verif_scr::*;
    use crate::verif_common::*;

    const W: usize = 4;

    fn hgt_of(cols: usize) -> usize {
        if cols == 0 {
            1
        } else {
            (cols + W - 1) / W
        }
    }

    /// `which` is concrete per harness (the member index selects heap objects)
    fn step(n: usize, which: usize) {
        let last: usize = kani::any();
        kani::assume(last <= 9);
        let z0: usize = kani::any();
        kani::assume(z0 <= 5);
        let mut ms = rig_multi(null_target(W as u16, 8, last));
        ms.zombie_lines_count = VisualLines::from(z0);
        let mut cols = [0usize; 3];
        let mut drawn = [false; 3];
        let mut zomb = [false; 3];
        let mut i = 0;
        while i < 3 {
            if i < n {
                let c: usize = kani::any();
                kani::assume(c >= 1 && c <= 9);
                let d: bool = kani::any();
                let z: bool = kani::any();
                cols[i] = c;
                drawn[i] = d;
                zomb[i] = z && i != which;
                let idx = push_member(&mut ms, false, 0, b'A', zomb[i]);
                if d {
                    let mut ds = DrawState::default();
                    ds.lines = Vec::with_capacity(2);
                    ds.lines.push(LineType::Bar(mk_line(b'A' + i as u8, c)));
                    ms.members[idx].draw_state = Some(ds);
                }
            }
            i += 1;
        }
        unsafe {
            NREMOVED = 0;
        }
        ms.mark_zombie(which);
        let removed = unsafe { NREMOVED };
        if which != 0 {
            // not the head bar: it only waits for the next draw; nothing else changes, whatever the bars above it are
            assert!(removed == 0);
            assert!(ms.members[which].is_zombie);
            assert!(zombie_lines(&ms) == z0 && last_count(&ms) == last);
        } else {
            // the head bar is reaped at once -- and ONLY it
            assert!(removed == 1 && unsafe { REMOVED[0] } == 0);
            let rows = if drawn[0] { hgt_of(cols[0]) } else { 0 };
            // its rows stay on screen as static text: counted in WRAPPED rows, and taken out of the region the next draw erases
            assert!(zombie_lines(&ms) == z0 + rows);
            assert!(last_count(&ms) == last.saturating_sub(rows));
        }
        // the other members are untouched
        let mut i = 0;
        while i < 3 {
            if i < n && i != which {
                assert!(ms.members[i].is_zombie == zomb[i]);
                assert!(ms.members[i].draw_state.is_some() == drawn[i]);
            }
            i += 1;
        }
        kani::cover!(drawn[0] && cols[0] == 9);
        kani::cover!(last == 0);
        std::mem::forget(ms);
    }

    // @harness id=C02 tier=quick timeout=1800 mem=14 checks=rust
    // @bounds 3 members, the SECOND one is dropped (bars above it live, flagged or undrawn): it is only flagged; row accounting and the other members unchanged
    #[kani::proof]
    #[kani::unwind(6)]
    //@STUBS std now widthascii noterm noremove
    fn c02_mark_zombie_middle_waits() {
        step(3, 1);
    }

    // @harness id=C02 tier=quick timeout=1800 mem=14 checks=rust
    // @bounds 3 members, the LAST one is dropped while flagged zombies may sit above it: only flagged
    #[kani::proof]
    #[kani::unwind(6)]
    //@STUBS std now widthascii noterm noremove
    fn c02_mark_zombie_last_waits() {
        step(3, 2);
    }

    // @harness id=C02 tier=quick timeout=1800 mem=14 checks=rust
    // @bounds 3 members, the HEAD one is dropped: exactly it is removed, its wrapped rows move from last_line_count to zombie_lines_count
    #[kani::proof]
    #[kani::unwind(6)]
    //@STUBS std now widthascii noterm noremove
    fn c02_mark_zombie_head_is_reaped() {
        step(3, 0);
    }

    // @harness id=C19 tier=quick timeout=1800 mem=14 checks=rust
    // @bounds 2 members over a terminal of width 4, the head bar's frame is one line of 1..=9 columns (1..=3 rows) and it is dropped: the rows it keeps on screen are counted in wrapped rows (zombie_lines_count += ceil(cols/4), last_line_count -= the same, saturating)
    #[kani::proof]
    #[kani::unwind(6)]
    //@STUBS std now widthascii noterm noremove
    fn c19_reaped_head_bar_counts_wrapped_rows() {
        step(2, 0);
    }

    // @harness id=C18 tier=quick timeout=1800 mem=14 checks=rust
    // @bounds after a FAILED draw the target's last_line_count lags behind the members' frames (any value 0..=9, also 0, while the head bar's frame has 1..=3 rows): dropping the finished head bar must not panic (the row arithmetic saturates) and leaves the accounting consistent
    #[kani::proof]
    #[kani::unwind(6)]
    //@STUBS std now widthascii noterm noremove
    fn c18_reap_after_failed_draw_does_not_panic() {
        step(2, 0);
    }
}
