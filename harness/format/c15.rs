// C15 — human-readable formatters are total and faithful.
// @file-encodes format::HumanCount::fmt, format::FormattedDuration::fmt, format::HumanDuration::fmt, format::HumanFloatCount::fmt (grouping/trimming logic), format::UNITS
// @file-assumes the decimal digits produced by std's float formatter ({:.N} in HumanFloatCount, {:.2}/{:.0} in the byte formatters) are NOT decided: HumanFloatCount's `format!` is stubbed by an arbitrary string of the shape -?[0-9]+(\.[0-9]*)? | inf | -inf | NaN, the byte formatters are outside the claim
#[cfg(kani)]
mod verif_c15 {
    use super::*;
    use crate::verif_common::*;

    fn digits_and_commas(out: &Buf<40>, v: u64) {
        // commas exactly after every third digit from the right, none leading; stripping them gives the decimal of v
        let mut val: u64 = 0;
        let mut i = 0;
        while i < out.n {
            let c = out.b[i];
            let from_right = out.n - 1 - i;
            if from_right % 4 == 3 {
                assert!(c == b',');
            } else {
                assert!(c >= b'0' && c <= b'9');
                val = val.wrapping_mul(10).wrapping_add((c - b'0') as u64);
            }
            i += 1;
        }
        assert!(val == v);
        assert!(out.n >= 1 && out.b[0] != b',' && (out.b[0] != b'0' || out.n == 1));
    }

    // @harness id=C15 tier=quick timeout=1800 mem=10
    // @bounds HumanCount(v) for every v < 3_000 (1..=4 digits, one separator): digits and separators compared one by one
    #[kani::proof]
    #[kani::unwind(28)]
    fn c15_human_count_small() {
        let v: u64 = kani::any();
        kani::assume(v < 3_000);
        let mut out: Buf<40> = Buf::new();
        assert!(render(&HumanCount(v), &mut out).is_ok());
        assert!(!out.ovf);
        digits_and_commas(&out, v);
        kani::cover!(v == 2_999);
        kani::cover!(v == 0);
    }

    // @harness id=C15 tier=thorough timeout=3000 mem=14
    // @bounds HumanCount(v) for every v < 10_000_000
    #[kani::proof]
    #[kani::unwind(28)]
    fn c15_human_count_7digits() {
        let v: u64 = kani::any();
        kani::assume(v < 10_000_000);
        let mut out: Buf<40> = Buf::new();
        assert!(render(&HumanCount(v), &mut out).is_ok());
        digits_and_commas(&out, v);
        kani::cover!(v == 9_999_999);
    }

    // @harness id=C15 tier=thorough timeout=3000 mem=12
    // @bounds HumanCount(v) for v = t * 10^k + 10^k - 1 with t in 1..=18 (symbolic) and k in {6, 9, 12, 15, 18}: every digit count 7..=20 of a u64 incl. u64::MAX's length
    #[kani::proof]
    #[kani::unwind(28)]
    fn c15_human_count_long() {
        let t: u64 = kani::any();
        kani::assume(t >= 1 && t <= 18);
        let ki: u8 = kani::any();
        kani::assume(ki < 5);
        let p: u64 = match ki {
            0 => 1_000_000,
            1 => 1_000_000_000,
            2 => 1_000_000_000_000,
            3 => 1_000_000_000_000_000,
            _ => 1_000_000_000_000_000_000,
        };
        kani::assume(!(ki == 4 && t > 17));
        let v = t * p + (p - 1);
        let mut out: Buf<40> = Buf::new();
        assert!(render(&HumanCount(v), &mut out).is_ok());
        assert!(!out.ovf);
        digits_and_commas(&out, v);
        kani::cover!(ki == 4 && t == 17);
        kani::cover!(ki == 0 && t == 1);
    }

    // @harness id=C15 tier=quick timeout=1200 mem=8
    // @bounds HumanCount(u64::MAX), HumanCount(u64::MAX - d) for d < 4: no panic, 26 characters, grouping
    #[kani::proof]
    #[kani::unwind(28)]
    fn c15_human_count_max() {
        let d: u64 = kani::any();
        kani::assume(d < 4);
        let v = u64::MAX - d;
        let mut out: Buf<40> = Buf::new();
        assert!(render(&HumanCount(v), &mut out).is_ok());
        assert!(out.n == 26);
        digits_and_commas(&out, v);
        kani::cover!(d == 0);
    }

    // @harness id=C15 tier=quick timeout=1200 mem=16
    // @bounds HumanCount at the concrete ends of the u64 range: u64::MAX, 10^19, 10^18, 10^18 - 1 (no panic, grouping digit by digit); concrete inputs, so that CBMC decides them whatever loops the implementation uses
    #[kani::proof]
    #[kani::unwind(28)]
    fn c15_human_count_range_ends() {
        let mut out: Buf<40> = Buf::new();
        assert!(render(&HumanCount(u64::MAX), &mut out).is_ok());
        assert!(out.n == 26);
        digits_and_commas(&out, u64::MAX);
        let mut out: Buf<40> = Buf::new();
        assert!(render(&HumanCount(10_000_000_000_000_000_000), &mut out).is_ok());
        assert!(out.n == 26);
        let mut out: Buf<40> = Buf::new();
        assert!(render(&HumanCount(1_000_000_000_000_000_000), &mut out).is_ok());
        assert!(out.n == 25);
        digits_and_commas(&out, 1_000_000_000_000_000_000);
        let mut out: Buf<40> = Buf::new();
        assert!(render(&HumanCount(999_999_999_999_999_999), &mut out).is_ok());
        assert!(out.n == 23);
    }

    // @harness id=C15 tier=quick timeout=1800 mem=10
    // @bounds FormattedDuration for every whole-second value < 2^17 s (~1.5 days) and any sub-second part: [Dd ]HH:MM:SS digit by digit
    #[kani::proof]
    #[kani::unwind(28)]
    fn c15_formatted_duration() {
        let secs: u64 = kani::any();
        kani::assume(secs < (1 << 17));
        let nanos: u32 = kani::any();
        kani::assume(nanos < 1_000_000_000);
        let mut out: Buf<40> = Buf::new();
        assert!(render(&FormattedDuration(Duration::new(secs, nanos)), &mut out).is_ok());
        let s = secs % 60;
        let m = (secs / 60) % 60;
        let h = (secs / 3600) % 24;
        let d = secs / 86400;
        assert!(out.n >= 8);
        let t = &out.b[out.n - 8..out.n];
        assert!(t[0] == b'0' + (h / 10) as u8 && t[1] == b'0' + (h % 10) as u8 && t[2] == b':');
        assert!(t[3] == b'0' + (m / 10) as u8 && t[4] == b'0' + (m % 10) as u8 && t[5] == b':');
        assert!(t[6] == b'0' + (s / 10) as u8 && t[7] == b'0' + (s % 10) as u8);
        if d == 0 {
            assert!(out.n == 8);
        } else {
            // "<days>d " prefix
            assert!(out.b[out.n - 9] == b' ' && out.b[out.n - 10] == b'd');
            let mut val = 0u64;
            let mut i = 0;
            while i + 10 < out.n {
                let c = out.b[i];
                assert!(c >= b'0' && c <= b'9');
                val = val * 10 + (c - b'0') as u64;
                i += 1;
            }
            assert!(val == d && out.n > 10);
        }
        kani::cover!(d == 1);
        kani::cover!(d == 0 && h == 23 && m == 59 && s == 59);
    }

    // @harness id=C15 tier=quick timeout=1200 mem=8
    // @bounds FormattedDuration for secs = u64::MAX - x, x < 2^10, and Duration::MAX: no panic, well-formed tail
    #[kani::proof]
    #[kani::unwind(28)]
    fn c15_formatted_duration_huge() {
        let x: u64 = kani::any();
        kani::assume(x < 1024);
        let secs = u64::MAX - x;
        let mut out: Buf<40> = Buf::new();
        assert!(render(&FormattedDuration(Duration::new(secs, 999_999_999)), &mut out).is_ok());
        assert!(!out.ovf && out.n >= 11);
        assert!(out.b[out.n - 3] == b':' && out.b[out.n - 6] == b':' && out.b[out.n - 9] == b' ' && out.b[out.n - 10] == b'd');
        kani::cover!(x == 0);
    }

    const UNIT_NS: [u128; 6] = [
        365 * 24 * 3600 * 1_000_000_000,
        7 * 24 * 3600 * 1_000_000_000,
        24 * 3600 * 1_000_000_000,
        3600 * 1_000_000_000,
        60 * 1_000_000_000,
        1_000_000_000,
    ];

    /// reference unit choice: first unit with d + next/2 >= 1.5 * unit, else seconds
    fn ref_unit(d_ns: u128) -> usize {
        let mut i = 0;
        while i < 5 {
            if d_ns + UNIT_NS[i + 1] / 2 >= UNIT_NS[i] + UNIT_NS[i] / 2 {
                return i;
            }
            i += 1;
        }
        5
    }

    fn parse_hd(out: &Buf<40>) -> (u64, usize) {
        // "<t><alt>" (alternate form): number then one of y w d h m s
        let mut t = 0u64;
        let mut i = 0;
        while i < out.n && out.b[i] >= b'0' && out.b[i] <= b'9' {
            t = t * 10 + (out.b[i] - b'0') as u64;
            i += 1;
        }
        assert!(i >= 1 && i + 1 == out.n);
        let u = match out.b[i] {
            b'y' => 0,
            b'w' => 1,
            b'd' => 2,
            b'h' => 3,
            b'm' => 4,
            b's' => 5,
            _ => 9,
        };
        assert!(u < 6);
        (t, u)
    }

    fn hd_alt(d: Duration, out: &mut Buf<40>) {
        let hd = HumanDuration(d);
        let mut opts = fmt::FormattingOptions::new();
        opts.alternate(true);
        let r = fmt::Display::fmt(&hd, &mut fmt::Formatter::new(out, opts));
        assert!(r.is_ok());
    }

    // @harness id=C15 tier=quick timeout=2400 mem=12
    // @bounds HumanDuration (alternate form) for every Duration < 2^32 s with ms resolution of the sub-second part: unit = first unit with d + next/2 >= 1.5 unit; count = nearest integer of d/unit; never "1 unit" above seconds
    #[kani::proof]
    #[kani::unwind(28)]
    fn c15_human_duration_rule() {
        let secs: u64 = kani::any();
        kani::assume(secs < (1 << 32));
        let ms: u32 = kani::any();
        kani::assume(ms < 1000);
        let d = Duration::new(secs, ms * 1_000_000);
        let d_ns = secs as u128 * 1_000_000_000 + (ms as u128) * 1_000_000;
        let mut out: Buf<40> = Buf::new();
        hd_alt(d, &mut out);
        let (t, u) = parse_hd(&out);
        let ru = ref_unit(d_ns);
        assert!(u == ru);
        // nearest count (ties away from zero, as f64::round); tolerate the one-ulp ambiguity exactly at .5
        let unit = UNIT_NS[u];
        let lo = (2 * d_ns + unit) / (2 * unit);
        let mut want = lo as u64;
        if u < 5 && want < 2 {
            want = 2;
        }
        let tie = (2 * d_ns + unit) % (2 * unit) == 0;
        assert!(t == want || (tie && t + 1 == want && (u == 5 || t >= 2)));
        if u < 5 {
            assert!(t >= 2);
        }
        kani::cover!(u == 0 && t > 100);
        kani::cover!(u == 5 && t == 1);
        kani::cover!(u == 4 && t == 2);
        kani::cover!(u == 5 && t == 89);
    }

    // @harness id=C15 tier=quick timeout=2400 mem=12
    // @bounds HumanDuration for two durations d1 <= d2 < 2^32 s (ms resolution): the displayed magnitude count*unit is monotone
    #[kani::proof]
    #[kani::unwind(28)]
    fn c15_human_duration_monotone() {
        let s1: u64 = kani::any();
        let s2: u64 = kani::any();
        let m1: u32 = kani::any();
        let m2: u32 = kani::any();
        kani::assume(s1 < (1 << 32) && s2 < (1 << 32) && m1 < 1000 && m2 < 1000);
        let d1 = Duration::new(s1, m1 * 1_000_000);
        let d2 = Duration::new(s2, m2 * 1_000_000);
        kani::assume(d1 <= d2);
        let mut o1: Buf<40> = Buf::new();
        let mut o2: Buf<40> = Buf::new();
        hd_alt(d1, &mut o1);
        hd_alt(d2, &mut o2);
        let (t1, u1) = parse_hd(&o1);
        let (t2, u2) = parse_hd(&o2);
        assert!((t1 as u128) * UNIT_NS[u1] <= (t2 as u128) * UNIT_NS[u2]);
        assert!(u2 <= u1); // a longer duration never switches to a smaller unit
        kani::cover!(u1 == 5 && u2 == 4);
        kani::cover!(u1 == u2 && t1 < t2);
    }

    // @harness id=C15 tier=quick timeout=2400 mem=12
    // @bounds HumanDuration (both forms) for ANY Duration (secs over u64, nanos < 10^9): no panic; unit letter = reference unit
    #[kani::proof]
    #[kani::unwind(28)]
    fn c15_human_duration_total() {
        let secs: u64 = kani::any();
        let nanos: u32 = kani::any();
        kani::assume(nanos < 1_000_000_000);
        let d = Duration::new(secs, nanos);
        let d_ns = secs as u128 * 1_000_000_000 + nanos as u128;
        let mut out: Buf<40> = Buf::new();
        hd_alt(d, &mut out);
        let (t, u) = parse_hd(&out);
        assert!(u == ref_unit(d_ns));
        if u < 5 {
            assert!(t >= 2);
        }
        let mut o2: Buf<40> = Buf::new();
        assert!(render(&HumanDuration(d), &mut o2).is_ok());
        assert!(!o2.ovf && o2.n >= 6);
        // plain form: "<t> <name>" with plural s unless t == 1
        assert!((o2.b[o2.n - 1] == b's') == (t != 1) || u == 5 && false);
        kani::cover!(secs == u64::MAX);
        kani::cover!(u == 0);
        kani::cover!(t == 1);
    }

    // ---- HumanFloatCount: grouping / sign / trimming logic over an arbitrary rendering of the number ----
    static mut FMT_LEN: usize = 0;
    static mut FMT_BYTES: [u8; 12] = [0; 12];

    fn stub_format(_args: fmt::Arguments<'_>) -> String {
        let mut s = String::from("000000000000");
        unsafe {
            let v = s.as_mut_vec();
            let mut i = 0;
            while i < 12 {
                v[i] = FMT_BYTES[i];
                i += 1;
            }
            v.set_len(FMT_LEN);
        }
        s
    }

    /// One layout of the rendered number: [-] nd digits [. nf digits]; the digit VALUES are symbolic, the layout concrete.
    fn grouping(neg: bool, nd: usize, has_dot: bool, nf: usize) {
        let mut digs = [0u8; 7];
        let mut fr = [0u8; 3];
        let mut len = 0;
        unsafe {
            if neg {
                FMT_BYTES[len] = b'-';
                len += 1;
            }
            let mut i = 0;
            while i < nd {
                let x: u8 = kani::any();
                kani::assume(x <= 9);
                digs[i] = x;
                FMT_BYTES[len] = b'0' + x;
                len += 1;
                i += 1;
            }
            if has_dot {
                FMT_BYTES[len] = b'.';
                len += 1;
                let mut i = 0;
                while i < nf {
                    let x: u8 = kani::any();
                    kani::assume(x <= 9);
                    fr[i] = x;
                    FMT_BYTES[len] = b'0' + x;
                    len += 1;
                    i += 1;
                }
            }
            FMT_LEN = len;
        }
        let mut out: Buf<40> = Buf::new();
        assert!(render(&HumanFloatCount(0.0), &mut out).is_ok());
        let mut exp: Buf<40> = Buf::new();
        if neg {
            exp.b[exp.n] = b'-';
            exp.n += 1;
        }
        let mut i = 0;
        while i < nd {
            exp.b[exp.n] = b'0' + digs[i];
            exp.n += 1;
            let pos = nd - 1 - i;
            if pos > 0 && pos % 3 == 0 {
                exp.b[exp.n] = b',';
                exp.n += 1;
            }
            i += 1;
        }
        let mut keep = nf;
        while keep > 0 && fr[keep - 1] == 0 {
            keep -= 1;
        }
        if keep > 0 {
            exp.b[exp.n] = b'.';
            exp.n += 1;
            let mut i = 0;
            while i < keep {
                exp.b[exp.n] = b'0' + fr[i];
                exp.n += 1;
                i += 1;
            }
        }
        assert!(out.n == exp.n);
        let mut i = 0;
        while i < out.n {
            assert!(out.b[i] == exp.b[i]);
            i += 1;
        }
        kani::cover!(keep == nf);
    }

    // @harness id=C15 tier=thorough timeout=1800 mem=10
    // @bounds HumanFloatCount grouping with the number rendering replaced by "" + 1 symbolic digits: sign first, separators exactly every third digit from the right, fraction trimmed of trailing zeros
    #[kani::proof]
    #[kani::unwind(15)]
    #[kani::stub(std::fmt::format, stub_format)]
    fn c15_float_count_pos1d() {
        grouping(false, 1, false, 0);
    }

    // @harness id=C15 tier=quick timeout=1800 mem=10
    // @bounds HumanFloatCount grouping with the number rendering replaced by "-" + 1 symbolic digits: sign first, separators exactly every third digit from the right, fraction trimmed of trailing zeros
    #[kani::proof]
    #[kani::unwind(15)]
    #[kani::stub(std::fmt::format, stub_format)]
    fn c15_float_count_neg1d() {
        grouping(true, 1, false, 0);
    }

    // @harness id=C15 tier=thorough timeout=1800 mem=10
    // @bounds HumanFloatCount grouping with the number rendering replaced by "" + 3 symbolic digits: sign first, separators exactly every third digit from the right, fraction trimmed of trailing zeros
    #[kani::proof]
    #[kani::unwind(15)]
    #[kani::stub(std::fmt::format, stub_format)]
    fn c15_float_count_pos3d() {
        grouping(false, 3, false, 0);
    }

    // @harness id=C15 tier=thorough timeout=1800 mem=10
    // @bounds HumanFloatCount grouping with the number rendering replaced by "-" + 3 symbolic digits: sign first, separators exactly every third digit from the right, fraction trimmed of trailing zeros
    #[kani::proof]
    #[kani::unwind(15)]
    #[kani::stub(std::fmt::format, stub_format)]
    fn c15_float_count_neg3d() {
        grouping(true, 3, false, 0);
    }

    // @harness id=C15 tier=thorough timeout=1800 mem=10
    // @bounds HumanFloatCount grouping with the number rendering replaced by "" + 4 symbolic digits: sign first, separators exactly every third digit from the right, fraction trimmed of trailing zeros
    #[kani::proof]
    #[kani::unwind(15)]
    #[kani::stub(std::fmt::format, stub_format)]
    fn c15_float_count_pos4d() {
        grouping(false, 4, false, 0);
    }

    // @harness id=C15 tier=thorough timeout=1800 mem=10
    // @bounds HumanFloatCount grouping with the number rendering replaced by "-" + 4 symbolic digits: sign first, separators exactly every third digit from the right, fraction trimmed of trailing zeros
    #[kani::proof]
    #[kani::unwind(15)]
    #[kani::stub(std::fmt::format, stub_format)]
    fn c15_float_count_neg4d() {
        grouping(true, 4, false, 0);
    }

    // @harness id=C15 tier=thorough timeout=1800 mem=10
    // @bounds HumanFloatCount grouping with the number rendering replaced by "" + 6 symbolic digits: sign first, separators exactly every third digit from the right, fraction trimmed of trailing zeros
    #[kani::proof]
    #[kani::unwind(15)]
    #[kani::stub(std::fmt::format, stub_format)]
    fn c15_float_count_pos6d() {
        grouping(false, 6, false, 0);
    }

    // @harness id=C15 tier=thorough timeout=1800 mem=10
    // @bounds HumanFloatCount grouping with the number rendering replaced by "-" + 6 symbolic digits: sign first, separators exactly every third digit from the right, fraction trimmed of trailing zeros
    #[kani::proof]
    #[kani::unwind(15)]
    #[kani::stub(std::fmt::format, stub_format)]
    fn c15_float_count_neg6d() {
        grouping(true, 6, false, 0);
    }

    // @harness id=C15 tier=thorough timeout=1800 mem=10
    // @bounds HumanFloatCount grouping with the number rendering replaced by "" + 7 symbolic digits: sign first, separators exactly every third digit from the right, fraction trimmed of trailing zeros
    #[kani::proof]
    #[kani::unwind(15)]
    #[kani::stub(std::fmt::format, stub_format)]
    fn c15_float_count_pos7d() {
        grouping(false, 7, false, 0);
    }

    // @harness id=C15 tier=thorough timeout=1800 mem=10
    // @bounds HumanFloatCount grouping with the number rendering replaced by "-" + 7 symbolic digits: sign first, separators exactly every third digit from the right, fraction trimmed of trailing zeros
    #[kani::proof]
    #[kani::unwind(15)]
    #[kani::stub(std::fmt::format, stub_format)]
    fn c15_float_count_neg7d() {
        grouping(true, 7, false, 0);
    }

    // @harness id=C15 tier=thorough timeout=1800 mem=10
    // @bounds HumanFloatCount grouping with the number rendering replaced by "" + 4 symbolic digits + '.' + 0 symbolic digits: sign first, separators exactly every third digit from the right, fraction trimmed of trailing zeros
    #[kani::proof]
    #[kani::unwind(15)]
    #[kani::stub(std::fmt::format, stub_format)]
    fn c15_float_count_pos4d_dot0() {
        grouping(false, 4, true, 0);
    }

    // @harness id=C15 tier=thorough timeout=1800 mem=10
    // @bounds HumanFloatCount grouping with the number rendering replaced by "" + 4 symbolic digits + '.' + 3 symbolic digits: sign first, separators exactly every third digit from the right, fraction trimmed of trailing zeros
    #[kani::proof]
    #[kani::unwind(15)]
    #[kani::stub(std::fmt::format, stub_format)]
    fn c15_float_count_pos4d_dot3() {
        grouping(false, 4, true, 3);
    }

    // @harness id=C15 tier=deep timeout=1800 mem=10
    // @bounds HumanFloatCount grouping with the number rendering replaced by "" + 3 symbolic digits + '.' + 2 symbolic digits: sign first, separators exactly every third digit from the right, fraction trimmed of trailing zeros
    #[kani::proof]
    #[kani::unwind(15)]
    #[kani::stub(std::fmt::format, stub_format)]
    fn c15_float_count_pos3d_dot2() {
        grouping(false, 3, true, 2);
    }

    // @harness id=C15 tier=quick timeout=1800 mem=10
    // @bounds HumanFloatCount grouping with the number rendering replaced by "-" + 4 symbolic digits + '.' + 0 symbolic digits: sign first, separators exactly every third digit from the right, fraction trimmed of trailing zeros
    #[kani::proof]
    #[kani::unwind(15)]
    #[kani::stub(std::fmt::format, stub_format)]
    fn c15_float_count_neg4d_dot0() {
        grouping(true, 4, true, 0);
    }

    // @harness id=C15 tier=thorough timeout=1800 mem=10
    // @bounds HumanFloatCount grouping with the number rendering replaced by "-" + 4 symbolic digits + '.' + 3 symbolic digits: sign first, separators exactly every third digit from the right, fraction trimmed of trailing zeros
    #[kani::proof]
    #[kani::unwind(15)]
    #[kani::stub(std::fmt::format, stub_format)]
    fn c15_float_count_neg4d_dot3() {
        grouping(true, 4, true, 3);
    }

    // @harness id=C15 tier=thorough timeout=1800 mem=10
    // @bounds HumanFloatCount grouping with the number rendering replaced by "-" + 3 symbolic digits + '.' + 2 symbolic digits: sign first, separators exactly every third digit from the right, fraction trimmed of trailing zeros
    #[kani::proof]
    #[kani::unwind(15)]
    #[kani::stub(std::fmt::format, stub_format)]
    fn c15_float_count_neg3d_dot2() {
        grouping(true, 3, true, 2);
    }

    fn nonfinite(txt: &[u8]) {
        unsafe {
            let mut i = 0;
            while i < txt.len() {
                FMT_BYTES[i] = txt[i];
                i += 1;
            }
            FMT_LEN = txt.len();
        }
        let mut out: Buf<40> = Buf::new();
        assert!(render(&HumanFloatCount(0.0), &mut out).is_ok());
        assert!(out.n == txt.len());
        let mut i = 0;
        while i < out.n {
            assert!(out.b[i] == txt[i]);
            i += 1;
        }
    }

    // @harness id=C15 tier=quick timeout=1200 mem=10
    // @bounds HumanFloatCount when the number renders as "inf": emitted unchanged, no separator, no panic
    #[kani::proof]
    #[kani::unwind(15)]
    #[kani::stub(std::fmt::format, stub_format)]
    fn c15_float_count_inf() {
        nonfinite(b"inf");
    }

    // @harness id=C15 tier=quick timeout=1200 mem=10
    // @bounds HumanFloatCount when the number renders as "-inf": emitted unchanged, no separator, no panic
    #[kani::proof]
    #[kani::unwind(15)]
    #[kani::stub(std::fmt::format, stub_format)]
    fn c15_float_count_neg_inf() {
        nonfinite(b"-inf");
    }

    // @harness id=C15 tier=quick timeout=1200 mem=10
    // @bounds HumanFloatCount when the number renders as "NaN": emitted unchanged, no separator, no panic
    #[kani::proof]
    #[kani::unwind(15)]
    #[kani::stub(std::fmt::format, stub_format)]
    fn c15_float_count_nan() {
        nonfinite(b"NaN");
    }

}
