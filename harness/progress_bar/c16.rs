// C16 — tabs are always expanded before reaching the terminal.
// @file-encodes progress_bar::ProgressBar::set_tab_width, progress_bar::ProgressBar::set_style, progress_bar::ProgressBar::set_message, progress_bar::ProgressBar::set_prefix, progress_bar::ProgressBar::finish_with_message, progress_bar::ProgressBar::message, progress_bar::ProgressBar::prefix, state::BarState::set_tab_width, state::BarState::set_style, state::TabExpandedString::new, state::TabExpandedString::expanded, state::TabExpandedString::set_tab_width, style::ProgressStyle::set_tab_width, style::Template::set_tab_width, style::ProgressStyle::format_state, draw_target::DrawState::draw_to_term
// @file-assumes ProgressBar built directly from its fields (rig) over the abstract screen (term_like target, no rate limiter), W=16; Instant::now frozen; str::repeat = fixed-capacity filler; texts chosen from a fixed table of strings over {a, b, TAB} of length <= 2
#[cfg(kani)]
mod verif_c16 {
    use super::verif_rig_pb::*;
    use super::*;
    use crate::draw_target::verif_scr::*;
    use crate::state::verif_rig_state::*;
    use crate::style::verif_rig_style::*;
    use crate::verif_common::*;

    const TXT: [&str; 6] = ["", "a", "\t", "a\t", "\tb", "\t\t"];

    fn pick() -> (&'static str, usize) {
        let i: usize = kani::any();
        kani::assume(i < TXT.len());
        (TXT[i], i)
    }

    /// expected expansion of TXT[i] with tab width tw, appended to `exp`
    fn expand_into(exp: &mut Buf<24>, s: &str, tw: usize) {
        let b = s.as_bytes();
        let mut i = 0;
        while i < b.len() {
            if b[i] == b'\t' {
                let mut j = 0;
                while j < tw {
                    exp.b[exp.n] = b' ';
                    exp.n += 1;
                    j += 1;
                }
            } else {
                exp.b[exp.n] = b[i];
                exp.n += 1;
            }
            i += 1;
        }
    }

    fn same_str(a: &str, e: &Buf<24>) -> bool {
        let b = a.as_bytes();
        if b.len() != e.n {
            return false;
        }
        let mut i = 0;
        while i < e.n {
            if b[i] != e.b[i] {
                return false;
            }
            i += 1;
        }
        true
    }

    fn run(nops: usize) {
        let scr = leak_scr(16, 4);
        // template: literal "x<TAB>" + {prefix} + "|" + {msg}
        let spec = [RigPart::Lit("x\t"), RigPart::Key("prefix"), RigPart::Lit("|"), RigPart::Key("msg")];
        let bs = rig_bar(rig_pstate(1, Some(2), 0, 0), rig_style_spec(&spec), scr_target(scr), ProgressFinish::AndLeave);
        let pb = rig_pb(bs);
        let mut tw = 8usize;
        let mut msg: &'static str = "";
        let mut pre: &'static str = "";
        let mut lit: &'static str = "x\t";
        let mut i = 0;
        while i < nops {
            let op: u8 = kani::any();
            kani::assume(op < 5);
            match op {
                0 => {
                    let w: usize = kani::any();
                    kani::assume(w <= 2);
                    pb.set_tab_width(w);
                    tw = w;
                }
                1 => {
                    let spec2 = [RigPart::Lit("\ty"), RigPart::Key("prefix"), RigPart::Lit("|"), RigPart::Key("msg")];
                    pb.set_style(rig_style_spec(&spec2));
                    lit = "\ty";
                }
                2 => {
                    let (t, _) = pick();
                    pb.set_message(t);
                    msg = t;
                }
                3 => {
                    let (t, _) = pick();
                    pb.set_prefix(t);
                    pre = t;
                }
                _ => {
                    let (t, _) = pick();
                    pb.finish_with_message(t);
                    msg = t;
                }
            }
            i += 1;
        }
        // getters return the expanded text
        let mut e: Buf<24> = Buf::new();
        expand_into(&mut e, msg, tw);
        let m = pb.message();
        assert!(same_str(&m, &e));
        let mut e: Buf<24> = Buf::new();
        expand_into(&mut e, pre, tw);
        let p = pb.prefix();
        assert!(same_str(&p, &e));
        // one forced draw, captured
        scr.capture.set(true);
        scr.cap_n.set(0);
        pb.force_draw();
        assert!(!scr.tab.get());
        let mut exp: Buf<24> = Buf::new();
        expand_into(&mut exp, lit, tw);
        expand_into(&mut exp, pre, tw);
        exp.b[exp.n] = b'|';
        exp.n += 1;
        expand_into(&mut exp, msg, tw);
        // the captured bytes are the expected line followed by the right-edge filler only
        assert!(exp.n <= 16);
        let mut want = [0u8; 16];
        let mut k = 0;
        while k < 16 {
            want[k] = exp.b[k];
            k += 1;
        }
        assert!(scr.cap_is(&want, exp.n));
        kani::cover!(tw == 0 && msg.len() == 2);
        kani::cover!(tw == 2 && lit.as_bytes()[0] == b'\t');
        std::mem::forget(m);
        std::mem::forget(p);
        std::mem::forget(pb);
    }

    // @harness id=C16 tier=deep timeout=3400 mem=20
    // @bounds 2 symbolic operations out of {set_tab_width(0..=2), set_style(template literal with a TAB), set_message, set_prefix, finish_with_message} with texts from the table, then one forced draw on a 16-column screen
    #[kani::proof]
    #[kani::unwind(18)]
    //@STUBS std now widthascii repeat noterm nomulti posany rlany noweight
    fn c16_two_ops() {
        run(2);
    }

    // @harness id=C16 tier=deep timeout=3400 mem=20
    // @bounds as c16_two_ops with 3 operations
    #[kani::proof]
    #[kani::unwind(18)]
    //@STUBS std now widthascii repeat noterm nomulti posany rlany noweight
    fn c16_three_ops() {
        run(3);
    }
}
