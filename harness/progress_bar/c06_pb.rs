// C06 — ProgressBar-level wrappers with logic of their own on hidden bars (the BarState-level harnesses cannot see them).
// @file-encodes progress_bar::ProgressBar::set_tab_width, progress_bar::ProgressBar::state (mutex), state::BarState::set_tab_width
// @file-assumes ProgressBar built directly (rig) with an explicitly hidden target; every terminal path and format_state replaced by panicking stubs (reaching one fails the harness); message with a tab built directly
#[cfg(kani)]
mod verif_c06_pb {
    use super::verif_rig_pb::*;
    use super::*;
    use crate::state::verif_rig_state::*;
    use crate::state::TabExpandedString;
    use crate::style::verif_rig_style::*;
    use crate::verif_common::*;

    // @harness id=C06 tier=deep timeout=3400 mem=24 checks=rust
    // @bounds ProgressBar::set_tab_width(w in 0..=9) on a hidden bar whose message holds a tab: the logical state changes exactly as for a visible bar (bar width, message width and style width become w), nothing is written, position / length untouched
    #[kani::proof]
    #[kani::unwind(6)]
    //@STUBS std now noterm nomulti norender rlany noweight
    fn c06_pb_set_tab_width_hidden() {
        let p0: u64 = kani::any();
        let mut bs = rig_bar(rig_pstate(p0, Some(9), 0, 0), rig_style_empty(), ProgressDrawTarget::hidden(), ProgressFinish::AndLeave);
        bs.state.message = TabExpandedString::WithTabs { original: "a\tb".into(), tab_width: 8, expanded: std::sync::OnceLock::new() };
        let pb = rig_pb(bs);
        let w: usize = kani::any();
        kani::assume(w <= 9);
        pb.set_tab_width(w);
        {
            let st = pb.state.lock().unwrap();
            assert!(st.tab_width == w);
            assert!(style_tab_width_is(&st.style, w));
            assert!(matches!(&st.state.message, TabExpandedString::WithTabs { tab_width, .. } if *tab_width == w));
            assert!(st.state.pos() == p0 && st.state.len() == Some(9));
        }
        kani::cover!(w == 0);
        kani::cover!(w == 9);
        std::mem::forget(pb);
    }
}
