// Shared rig: a ProgressBar built directly from its fields (no Instant::now, no default style).
#[cfg(kani)]
pub(crate) mod verif_rig_pb {
    use super::*;
    use crate::state::verif_rig_state::*;
    use crate::style::verif_rig_style::*;
    use crate::verif_common::*;

    pub(crate) fn rig_pb(bs: BarState) -> ProgressBar {
        let pos = bs.state_pos_arc();
        ProgressBar { state: Arc::new(Mutex::new(bs)), pos, ticker: Arc::new(Mutex::new(None)) }
    }
}
