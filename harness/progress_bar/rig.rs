// Shared rig: a ProgressBar built directly from its fields (no Instant::now, no default style).
#[cfg(kani)]
pub(crate) mod verif_rig_pb {
    use super::*;
    use crate::state::verif_rig_state::*;
    use crate::style::verif_rig_style::*;
    use crate::verif_common::*;

    pub(crate) fn rig_pb(bs: BarState) -> ProgressBar {
        let pos = bs.state_pos_arc();
        ProgressBar { state: Arc::new(Mutex::new(bs)), pos, ticker: Arc::new(Mutex::new(None)) }
    }

    // ---- recording stand-ins for ProgressBar::is_finished / finish_using_style in the adaptor harnesses: everything behind the
    //      Arc<Mutex<BarState>> handle costs CBMC more than an hour; what the adaptors decide is WHEN they finish the bar ----
    pub(crate) static mut PB_FINISHED: bool = false;
    pub(crate) static mut PB_FINISH_CALLS: usize = 0;
    pub(crate) fn rec_is_finished(_pb: &ProgressBar) -> bool {
        unsafe { PB_FINISHED }
    }
    pub(crate) fn rec_finish_using_style(_pb: &ProgressBar) {
        unsafe {
            PB_FINISH_CALLS += 1;
            PB_FINISHED = true;
        }
    }
}
