// C07 — the same bookkeeping through the public ProgressBar handle (hidden target).
// @file-encodes progress_bar::ProgressBar::inc, progress_bar::ProgressBar::dec, progress_bar::ProgressBar::set_position, progress_bar::ProgressBar::position, progress_bar::ProgressBar::length, progress_bar::ProgressBar::set_length, progress_bar::ProgressBar::inc_length, progress_bar::ProgressBar::dec_length, progress_bar::ProgressBar::reset, progress_bar::ProgressBar::finish
// @file-assumes std::time::Instant::now stubbed by a fixed instant (bar created at the same instant); ProgressBar built directly from its fields (rig) with a hidden target
#[cfg(kani)]
mod verif_c07_api {
    use super::verif_rig_pb::*;
    use super::*;
    use crate::state::verif_rig_state::*;
    use crate::style::verif_rig_style::*;
    use crate::verif_common::*;

    // @harness id=C07 tier=deep timeout=3400 mem=12
    // @bounds one symbolic public call (inductive step from an arbitrary (position,length) state; the model state is exactly that pair) out of {inc, dec, set_position, set_length, inc_length, dec_length, reset, finish} with u64 arguments on a hidden ProgressBar + a clone; getters compared with a wrapping/saturating reference after every call
    #[kani::proof]
    #[kani::unwind(5)]
    //@STUBS std now noterm nomulti norender posany rlany noweight
    fn c07_public_api_history() {
        let l0: Option<u64> = kani::any();
        let p0: u64 = kani::any();
        let style = rig_style_empty();
        let bs = rig_bar(rig_pstate(p0, l0, 0, 0), style, ProgressDrawTarget::hidden(), ProgressFinish::AndLeave);
        let pb = rig_pb(bs);
        let pb2 = pb.clone();
        let mut mp = p0;
        let mut ml = l0;
        let mut i = 0;
        while i < 1 {
            let op: u8 = kani::any();
            let arg: u64 = kani::any();
            let which: bool = kani::any();
            let h = if which { &pb2 } else { &pb };
            match op % 8 {
                0 => {
                    h.inc(arg);
                    mp = mp.wrapping_add(arg);
                }
                1 => {
                    h.dec(arg);
                    mp = mp.wrapping_sub(arg);
                }
                2 => {
                    h.set_position(arg);
                    mp = arg;
                }
                3 => {
                    h.set_length(arg);
                    ml = Some(arg);
                }
                4 => {
                    h.inc_length(arg);
                    ml = ml.map(|l| l.saturating_add(arg));
                }
                5 => {
                    h.dec_length(arg);
                    ml = ml.map(|l| l.saturating_sub(arg));
                }
                6 => {
                    h.reset();
                    mp = 0;
                }
                _ => {
                    h.finish();
                    mp = ml.unwrap_or(mp);
                }
            }
            assert!(pb.position() == mp);
            assert!(pb2.position() == mp);
            assert!(pb.length() == ml);
            i += 1;
        }
        kani::cover!(mp == u64::MAX);
        kani::cover!(ml == Some(0) && l0 != Some(0));
        std::mem::forget(pb);
        std::mem::forget(pb2);
    }
}
