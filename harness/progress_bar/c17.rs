// C17 — iterator and I/O adaptors are transparent and count exactly.
// @file-encodes iter::ProgressBarIter as Iterator::next, DoubleEndedIterator::next_back, ExactSizeIterator::len, io::Read::{read,read_vectored,read_to_string,read_exact}, io::BufRead::{fill_buf,consume}, io::Seek::{seek,stream_position}, io::Write::{write,write_vectored,flush}, progress_bar::ProgressBar::{inc,set_position,is_finished,finish_using_style}, state::AtomicPosition::{inc,set}
// @file-assumes inner objects are harness mocks whose every return value is symbolic; the bar is a hidden ProgressBar built directly (rig); AtomicPosition::allow (C05's subject) is replaced by "refuse", i.e. the position update itself is exercised but no tick/draw is triggered by inc/set_position (ticks do not change position or return values: C06/C07); how rayon distributes work over threads and any async executor schedule are outside the claim
#[cfg(kani)]
mod verif_c17 {
    use super::verif_rig_pb::*;
    use super::*;
    use crate::state::verif_rig_state::*;
    use crate::style::verif_rig_style::*;
    use crate::verif_common::*;
    use std::io::{BufRead, Read, Seek, SeekFrom, Write};

    fn never_allow(_p: &AtomicPosition, _now: Instant) -> bool {
        false
    }

    fn bar(p0: u64, on_finish: ProgressFinish) -> ProgressBar {
        rig_pb(rig_bar(rig_pstate(p0, Some(100), 0, 0), rig_style_empty(), ProgressDrawTarget::hidden(), on_finish))
    }

    fn pos_of(pb: &ProgressBar) -> u64 {
        pb.pos.pos.load(portable_atomic::Ordering::SeqCst)
    }

    // ---------------------------------------------------------------- iterators
    struct MockIter {
        n: usize,
        items: [u32; 3],
        front: usize,
        back: usize,
        // number of items handed out so far (= front + back); kept separately so that "exhausted or not" stays a concrete
        // fact for CBMC when the number of calls is concrete, whatever the (symbolic) mix of next / next_back is
        taken: usize,
    }
    impl Iterator for MockIter {
        type Item = u32;
        fn next(&mut self) -> Option<u32> {
            if self.taken < self.n {
                self.taken += 1;
                self.front += 1;
                Some(self.items[self.front - 1])
            } else {
                None
            }
        }
    }
    impl DoubleEndedIterator for MockIter {
        fn next_back(&mut self) -> Option<u32> {
            if self.taken < self.n {
                self.taken += 1;
                self.back += 1;
                Some(self.items[self.n - self.back])
            } else {
                None
            }
        }
    }
    impl ExactSizeIterator for MockIter {
        fn len(&self) -> usize {
            self.n - self.taken
        }
    }

    // @harness id=C17 tier=quick timeout=2400 mem=10
    // @bounds inner iterator of 3 symbolic items, 3 calls of next()/next_back() in symbolic order: same items in the same order, len() passes through, position advances by exactly one per item (wrapping u64 start position); exhaustion (None: no count, finish according to the finish behaviour) is c17_iter_exhaustion_finishes
    #[kani::proof]
    #[kani::unwind(6)]
    #[kani::stub(crate::state::AtomicPosition::allow, never_allow)]
    //@STUBS std now noterm nomulti norender rlany noweight
    fn c17_iterator_transparent() {
        let n: usize = 3;
        let items: [u32; 3] = kani::any();
        let p0: u64 = kani::any();
        let pb = bar(p0, ProgressFinish::AndLeave);
        // a finished bar: exhaustion must not touch it (and no lock traffic in this harness)
        pb.state.lock().unwrap().state.set_status_done();
        let mut it = ProgressBarIter { it: MockIter { n, items, front: 0, back: 0, taken: 0 }, progress: pb };
        let mut model = MockIter { n, items, front: 0, back: 0, taken: 0 };
        let mut expect = p0;
        let mut k = 0;
        while k < 3 {
            let back: bool = kani::any();
            assert!(it.len() == model.len());
            let (a, b) = if back { (it.next_back(), model.next_back()) } else { (it.next(), model.next()) };
            assert!(a == b);
            if b.is_some() {
                expect = expect.wrapping_add(1);
            }
            assert!(pos_of(&it.progress) == expect);
            k += 1;
        }
        kani::cover!(expect == p0.wrapping_add(3) && it.it.front == 1);
        kani::cover!(p0 == u64::MAX);
        std::mem::forget(it);
    }

    // @harness id=C17 tier=deep timeout=3400 mem=14
    // @bounds exhausting an iterator of 0..=1 items finishes the bar exactly according to its finish behaviour (AndLeave: position = length; Abandon: position unchanged) and a further next() changes nothing
    #[kani::proof]
    #[kani::unwind(6)]
    #[kani::stub(crate::state::AtomicPosition::allow, never_allow)]
    //@STUBS std now noterm nomulti norender rlany noweight
    fn c17_iter_exhaustion_finishes() {
        let n: usize = kani::any();
        kani::assume(n <= 1);
        let leave: bool = kani::any();
        let pb = bar(5, if leave { ProgressFinish::AndLeave } else { ProgressFinish::Abandon });
        let mut it = ProgressBarIter { it: MockIter { n, items: [7, 8, 9], front: 0, back: 0, taken: 0 }, progress: pb };
        if n == 1 {
            assert!(it.next() == Some(7));
            assert!(!it.progress.is_finished());
        }
        assert!(it.next().is_none());
        assert!(it.progress.is_finished());
        let want = if leave { 100 } else { 5 + n as u64 };
        assert!(pos_of(&it.progress) == want);
        assert!(it.next().is_none());
        assert!(pos_of(&it.progress) == want);
        std::mem::forget(it);
    }

    // @harness id=C17 tier=deep timeout=3400 mem=14
    // @bounds nth(k), k in 0..=3, on an inner iterator of 2 items wrapped in a bar that abandons on exhaustion: same result as the inner iterator's nth, and the position advances by exactly the number of items the inner iterator handed out (also when nth runs past the end)
    #[kani::proof]
    #[kani::unwind(6)]
    #[kani::stub(crate::state::AtomicPosition::allow, never_allow)]
    //@STUBS std now noterm nomulti norender rlany noweight
    fn c17_iter_nth_counts_pulled_items() {
        let k: usize = kani::any();
        kani::assume(k <= 3);
        let pb = bar(5, ProgressFinish::Abandon);
        let mut it = ProgressBarIter { it: MockIter { n: 2, items: [7, 8, 9], front: 0, back: 0, taken: 0 }, progress: pb };
        let mut model = MockIter { n: 2, items: [7, 8, 9], front: 0, back: 0, taken: 0 };
        let a = it.nth(k);
        let b = model.nth(k);
        assert!(a == b);
        assert!(pos_of(&it.progress) == 5 + model.taken as u64);
        assert!(it.it.taken == model.taken);
        kani::cover!(k == 3 && a.is_none());
        kani::cover!(k == 1 && a == Some(8));
        std::mem::forget(it);
    }

    // @harness id=C17 tier=quick timeout=1800 mem=12
    // @bounds an inner iterator of 0..=2 items, 4 calls of next()/next_back() in symbolic order, ProgressBar::is_finished / finish_using_style replaced by recorders: items pass through, the position counts exactly the items handed out, the bar is finished exactly once -- at the first None -- and never again
    #[kani::proof]
    #[kani::unwind(6)]
    #[kani::stub(crate::state::AtomicPosition::allow, never_allow)]
    //@STUBS std now noterm nomulti norender rlany noweight pbfinishrec
    fn c17_iter_exhaustion_finishes_once() {
        unsafe {
            PB_FINISHED = false;
            PB_FINISH_CALLS = 0;
        }
        let n: usize = kani::any();
        kani::assume(n <= 2);
        let items: [u32; 3] = kani::any();
        let p0: u64 = kani::any();
        let mut it = ProgressBarIter { it: MockIter { n, items, front: 0, back: 0, taken: 0 }, progress: bar(p0, ProgressFinish::AndLeave) };
        let mut model = MockIter { n, items, front: 0, back: 0, taken: 0 };
        let mut k = 0;
        while k < 4 {
            let back: bool = kani::any();
            let (a, b) = if back { (it.next_back(), model.next_back()) } else { (it.next(), model.next()) };
            assert!(a == b);
            assert!(pos_of(&it.progress) == p0.wrapping_add(model.taken as u64));
            let want_calls = if b.is_none() || unsafe { PB_FINISH_CALLS } > 0 { 1 } else { 0 };
            assert!(unsafe { PB_FINISH_CALLS } == want_calls);
            k += 1;
        }
        assert!(unsafe { PB_FINISH_CALLS } == 1); // 4 calls always run past the end of <= 2 items
        kani::cover!(n == 2);
        kani::cover!(n == 0);
        std::mem::forget(it);
    }

    // @harness id=C17 tier=quick timeout=1800 mem=12
    // @bounds nth(k), k in 0..=3, then next(), on an inner iterator of 2 items (same recorders): same results as the inner iterator, the position counts exactly the items the inner iterator handed out -- also when nth runs past the end
    #[kani::proof]
    #[kani::unwind(6)]
    #[kani::stub(crate::state::AtomicPosition::allow, never_allow)]
    //@STUBS std now noterm nomulti norender rlany noweight pbfinishrec
    fn c17_iter_nth_counts_items() {
        unsafe {
            PB_FINISHED = false;
            PB_FINISH_CALLS = 0;
        }
        let k: usize = kani::any();
        kani::assume(k <= 3);
        let mut it = ProgressBarIter { it: MockIter { n: 2, items: [7, 8, 9], front: 0, back: 0, taken: 0 }, progress: bar(5, ProgressFinish::Abandon) };
        let mut model = MockIter { n: 2, items: [7, 8, 9], front: 0, back: 0, taken: 0 };
        let a = it.nth(k);
        let b = model.nth(k);
        assert!(a == b);
        assert!(it.it.taken == model.taken);
        assert!(pos_of(&it.progress) == 5 + model.taken as u64);
        let a2 = it.next();
        let b2 = model.next();
        assert!(a2 == b2);
        assert!(pos_of(&it.progress) == 5 + model.taken as u64);
        kani::cover!(k == 3 && a.is_none());
        kani::cover!(k == 0 && a2 == Some(8));
        std::mem::forget(it);
    }

    // ---------------------------------------------------------------- io mocks
    /// every call returns a symbolic verdict: Ok(n) with n <= what was asked for, or Err(kind)
    struct MockIo {
        consumed: usize,
        last_seek: u64,
    }
    fn any_err() -> io::Error {
        let k: u8 = kani::any();
        io::Error::from(if k % 2 == 0 { io::ErrorKind::Interrupted } else { io::ErrorKind::UnexpectedEof })
    }
    fn any_result(max: usize) -> io::Result<usize> {
        if kani::any() {
            let n: usize = kani::any();
            kani::assume(n <= max);
            Ok(n)
        } else {
            Err(any_err())
        }
    }
    static mut LAST: (bool, usize, u8) = (false, 0, 0); // (is_ok, n, error kind) of the inner call, recorded by the mock
    fn record(r: &io::Result<usize>) {
        unsafe {
            LAST = match r {
                Ok(n) => (true, *n, 0),
                Err(e) => (false, 0, if e.kind() == io::ErrorKind::Interrupted { 1 } else { 2 }),
            };
        }
    }
    fn same_as_last(r: &io::Result<usize>) -> bool {
        let l = unsafe { LAST };
        match r {
            Ok(n) => l.0 && l.1 == *n,
            Err(e) => !l.0 && l.2 == if e.kind() == io::ErrorKind::Interrupted { 1 } else { 2 },
        }
    }
    impl Read for MockIo {
        fn read(&mut self, buf: &mut [u8]) -> io::Result<usize> {
            let r = any_result(buf.len());
            record(&r);
            r
        }
        fn read_vectored(&mut self, bufs: &mut [io::IoSliceMut<'_>]) -> io::Result<usize> {
            let r = any_result(if bufs.is_empty() { 0 } else { bufs[0].len() });
            record(&r);
            r
        }
        fn read_to_string(&mut self, _buf: &mut String) -> io::Result<usize> {
            let r = any_result(1 << 40);
            record(&r);
            r
        }
        fn read_exact(&mut self, buf: &mut [u8]) -> io::Result<()> {
            let r = any_result(0).map(|_| buf.len());
            record(&r);
            r.map(|_| ())
        }
    }
    impl BufRead for MockIo {
        fn fill_buf(&mut self) -> io::Result<&[u8]> {
            const DATA: [u8; 4] = [1, 2, 3, 4];
            let r = any_result(4);
            record(&r);
            r.map(|n| &DATA[..n])
        }
        fn consume(&mut self, amt: usize) {
            self.consumed += amt;
        }
    }
    impl Write for MockIo {
        fn write(&mut self, buf: &[u8]) -> io::Result<usize> {
            let r = any_result(buf.len());
            record(&r);
            r
        }
        fn write_vectored(&mut self, bufs: &[io::IoSlice<'_>]) -> io::Result<usize> {
            let r = any_result(if bufs.is_empty() { 0 } else { bufs[0].len() });
            record(&r);
            r
        }
        fn flush(&mut self) -> io::Result<()> {
            let r = any_result(0);
            record(&r);
            r.map(|_| ())
        }
    }
    impl Seek for MockIo {
        fn seek(&mut self, _f: SeekFrom) -> io::Result<u64> {
            if kani::any() {
                let p: u64 = kani::any();
                self.last_seek = p;
                unsafe { LAST = (true, 0, 0) };
                Ok(p)
            } else {
                unsafe { LAST = (false, 0, 1) };
                Err(io::Error::from(io::ErrorKind::Interrupted))
            }
        }
        fn stream_position(&mut self) -> io::Result<u64> {
            Ok(self.last_seek)
        }
    }

    // @harness id=C17 tier=quick timeout=2400 mem=10
    // @bounds Read: one of read / read_vectored / read_to_string / read_exact on an 8-byte buffer against a source returning any Ok(n <= asked) or any error: identical result, position += bytes reported (buffer length for read_exact), unchanged on error; start position over u64 (wrapping)
    #[kani::proof]
    #[kani::unwind(10)]
    #[kani::stub(crate::state::AtomicPosition::allow, never_allow)]
    //@STUBS std now noterm nomulti norender rlany noweight
    fn c17_read_counts_exactly() {
        let p0: u64 = kani::any();
        let mut w = ProgressBarIter { it: MockIo { consumed: 0, last_seek: 0 }, progress: bar(p0, ProgressFinish::AndLeave) };
        let mut buf = [0u8; 8];
        let len: usize = kani::any();
        kani::assume(len <= 8);
        let op: u8 = kani::any();
        kani::assume(op < 4);
        let (ok, n) = match op {
            0 => {
                let r = w.read(&mut buf[..len]);
                assert!(same_as_last(&r));
                (r.is_ok(), r.unwrap_or(0))
            }
            1 => {
                let mut bufs = [io::IoSliceMut::new(&mut buf[..len])];
                let r = w.read_vectored(&mut bufs);
                assert!(same_as_last(&r));
                (r.is_ok(), r.unwrap_or(0))
            }
            2 => {
                let mut s = String::new();
                let r = w.read_to_string(&mut s);
                assert!(same_as_last(&r));
                std::mem::forget(s);
                (r.is_ok(), r.unwrap_or(0))
            }
            _ => {
                let r = w.read_exact(&mut buf[..len]);
                assert!(r.is_ok() == unsafe { LAST.0 });
                (r.is_ok(), len)
            }
        };
        let want = if ok { p0.wrapping_add(n as u64) } else { p0 };
        assert!(pos_of(&w.progress) == want);
        kani::cover!(op == 3 && ok && len == 8);
        kani::cover!(op == 0 && !ok);
        kani::cover!(op == 1 && ok && n > 0);
        std::mem::forget(w);
    }

    // @harness id=C17 tier=quick timeout=2400 mem=10
    // @bounds BufRead: 3 calls of fill_buf / consume(amt <= 4) in symbolic order: fill_buf returns the inner slice (or error) and never moves the position, consume forwards the amount and advances the position by exactly it
    #[kani::proof]
    #[kani::unwind(10)]
    #[kani::stub(crate::state::AtomicPosition::allow, never_allow)]
    //@STUBS std now noterm nomulti norender rlany noweight
    fn c17_bufread_counts_on_consume() {
        let p0: u64 = kani::any();
        let mut w = ProgressBarIter { it: MockIo { consumed: 0, last_seek: 0 }, progress: bar(p0, ProgressFinish::AndLeave) };
        let mut expect = p0;
        let mut consumed = 0usize;
        let mut k = 0;
        while k < 3 {
            if kani::any() {
                let (ok, n) = match w.fill_buf() {
                    Ok(b) => (true, b.len()),
                    Err(_) => (false, 0),
                };
                let l = unsafe { LAST };
                assert!(ok == l.0 && (!ok || n == l.1));
            } else {
                let amt: usize = kani::any();
                kani::assume(amt <= 4);
                w.consume(amt);
                consumed += amt;
                expect = expect.wrapping_add(amt as u64);
            }
            assert!(pos_of(&w.progress) == expect);
            assert!(w.it.consumed == consumed);
            k += 1;
        }
        kani::cover!(consumed == 12);
        kani::cover!(consumed == 0);
        std::mem::forget(w);
    }

    // @harness id=C17 tier=quick timeout=2400 mem=10
    // @bounds Write: write / write_vectored / flush against a sink returning any Ok(n <= asked) or any error: identical result, position += bytes accepted, unchanged on error and on flush. Seek: seek in any mode returns the inner offset and SETS the position to it (unchanged on error); stream_position passes through without touching the position
    #[kani::proof]
    #[kani::unwind(10)]
    #[kani::stub(crate::state::AtomicPosition::allow, never_allow)]
    //@STUBS std now noterm nomulti norender rlany noweight
    fn c17_write_and_seek() {
        let p0: u64 = kani::any();
        let mut w = ProgressBarIter { it: MockIo { consumed: 0, last_seek: 0 }, progress: bar(p0, ProgressFinish::AndLeave) };
        let buf = [7u8; 8];
        let len: usize = kani::any();
        kani::assume(len <= 8);
        let op: u8 = kani::any();
        kani::assume(op < 5);
        let want = match op {
            0 => {
                let r = w.write(&buf[..len]);
                assert!(same_as_last(&r));
                if let Ok(n) = r { p0.wrapping_add(n as u64) } else { p0 }
            }
            1 => {
                let bufs = [io::IoSlice::new(&buf[..len])];
                let r = w.write_vectored(&bufs);
                assert!(same_as_last(&r));
                if let Ok(n) = r { p0.wrapping_add(n as u64) } else { p0 }
            }
            2 => {
                let r = w.flush();
                assert!(r.is_ok() == unsafe { LAST.0 });
                p0
            }
            3 => {
                let m: u8 = kani::any();
                let off: i64 = kani::any();
                let from = match m % 3 {
                    0 => SeekFrom::Start(off as u64),
                    1 => SeekFrom::End(off),
                    _ => SeekFrom::Current(off),
                };
                match w.seek(from) {
                    Ok(p) => {
                        assert!(unsafe { LAST.0 } && p == w.it.last_seek);
                        p
                    }
                    Err(_) => {
                        assert!(!unsafe { LAST.0 });
                        p0
                    }
                }
            }
            _ => {
                let r = w.stream_position();
                assert!(r.is_ok() && r.unwrap() == 0);
                p0
            }
        };
        assert!(pos_of(&w.progress) == want);
        kani::cover!(op == 3 && want != p0);
        kani::cover!(op == 0 && want == p0.wrapping_add(8));
        kani::cover!(op == 1 && want == p0);
        std::mem::forget(w);
    }

    // ---------------------------------------------------------------- write_all / write! through the adaptor
    /// a sink that follows a fixed plan: accept plan[k] bytes at call k (0 = fail with a hard error)
    struct PlanSink {
        plan: [usize; 3],
        calls: usize,
        accepted: usize,
    }
    impl Write for PlanSink {
        fn write(&mut self, buf: &[u8]) -> io::Result<usize> {
            let k = self.calls;
            self.calls += 1;
            let want = if k < 3 { self.plan[k] } else { 0 };
            if want == 0 {
                return Err(io::Error::from(io::ErrorKind::BrokenPipe));
            }
            let n = if want < buf.len() { want } else { buf.len() };
            self.accepted += n;
            Ok(n)
        }
        fn flush(&mut self) -> io::Result<()> {
            Ok(())
        }
    }

    /// the plan is concrete per harness (an io::Error whose existence is symbolic makes its drop glue explode under CBMC); the start
    /// position is symbolic
    fn write_all_plan(plan: [usize; 3], ok: bool) {
        let p0: u64 = kani::any();
        let mut w = ProgressBarIter { it: PlanSink { plan, calls: 0, accepted: 0 }, progress: bar(p0, ProgressFinish::AndLeave) };
        let r = w.write_all(&[1u8, 2, 3]);
        assert!(r.is_ok() == ok);
        std::mem::forget(r);
        // every byte the sink accepted is counted -- also when a later write of the same write_all fails
        assert!(pos_of(&w.progress) == p0.wrapping_add(w.it.accepted as u64));
        kani::cover!(p0 == u64::MAX);
        std::mem::forget(w);
    }

    // @harness id=C17 tier=quick timeout=1800 mem=12
    // @bounds write_all of 3 bytes to a sink that accepts 1 byte and then fails hard: the error comes back and the position advanced by the 1 byte that was accepted
    #[kani::proof]
    #[kani::unwind(6)]
    #[kani::stub(crate::state::AtomicPosition::allow, never_allow)]
    //@STUBS std now noterm nomulti norender rlany noweight
    fn c17_write_all_counts_accepted_bytes_on_error() {
        write_all_plan([1, 0, 0], false);
    }

    // @harness id=C17 tier=quick timeout=1800 mem=12
    // @bounds write_all of 3 bytes to a sink that accepts 2 bytes, then 1: Ok, position += 3
    #[kani::proof]
    #[kani::unwind(6)]
    #[kani::stub(crate::state::AtomicPosition::allow, never_allow)]
    //@STUBS std now noterm nomulti norender rlany noweight
    fn c17_write_all_short_writes_complete() {
        write_all_plan([2, 1, 0], true);
    }
}
