// C18 — ProgressBar::set_tab_width on a failing terminal (the one ProgressBar-level call site that used to unwrap a draw result).
// @file-encodes progress_bar::ProgressBar::set_tab_width
// @file-assumes ProgressBar built directly (rig); fault injected at DrawState::draw_to_term level (contract); format_state recorder; thorough tier: everything through Arc<Mutex<BarState>> is very expensive under CBMC
#[cfg(kani)]
mod verif_c18_pb {
    use super::verif_rig_pb::*;
    use super::*;
    use crate::draw_target::verif_rig_dt::*;
    use crate::state::verif_rig_state::*;
    use crate::style::verif_rig_style::*;
    use crate::verif_common::*;

    // @harness id=C18 tier=deep timeout=3400 mem=20 checks=rust
    // @bounds ProgressBar::set_tab_width(3) while the draw it triggers fails: no panic, the lock is not poisoned (a following position() works)
    #[kani::proof]
    #[kani::unwind(6)]
    //@STUBS std now widthascii noterm nomulti rlany posany noweight fsrecord dttcontract
    fn c18_set_tab_width_survives_draw_error() {
        unsafe {
            SLEN = 0;
            DRAWS = 0;
            LOG_FLOOR = 0;
            FAIL_DRAW_AT = 0;
        }
        let bs = rig_bar(rig_pstate(4, Some(9), 0, 0), rig_style_empty(), null_target(16, 8, 0), ProgressFinish::AndLeave);
        let pb = rig_pb(bs);
        pb.set_tab_width(3);
        assert!(pb.position() == 4);
        std::mem::forget(pb);
    }
}
