// C18 — terminal I/O failures never panic or corrupt logical state (ProgressBar side).
// @file-encodes progress_bar::ProgressBar::set_tab_width, progress_bar::ProgressBar::tick, progress_bar::ProgressBar::inc, progress_bar::ProgressBar::set_message, progress_bar::ProgressBar::println, progress_bar::ProgressBar::suspend, progress_bar::ProgressBar::finish, progress_bar::ProgressBar::finish_and_clear, progress_bar::ProgressBar::reset, state::BarState::draw, state::BarState::println, state::BarState::suspend, state::BarState::finish_using_style, draw_target::DrawState::draw_to_term
// @file-assumes ProgressBar built directly (rig) over the abstract screen (term_like target, no limiter), template "{msg}"; the k-th terminal call (k symbolic 0..=12; optionally all later ones) fails with BrokenPipe; Instant::now frozen
#[cfg(kani)]
mod verif_c18_pb {
    use super::verif_rig_pb::*;
    use super::*;
    use crate::draw_target::verif_scr::*;
    use crate::state::verif_rig_state::*;
    use crate::style::verif_rig_style::*;
    use crate::verif_common::*;

    fn setup(pos: u64, len: Option<u64>) -> (&'static Scr, ProgressBar) {
        let scr = leak_scr(8, 4);
        let spec = [RigPart::Key("msg")];
        let mut ps = rig_pstate(pos, len, 0, 0);
        ps.message = TabExpandedString::NoTabs("m".into());
        let bs = rig_bar(ps, rig_style_spec(&spec), scr_target(scr), ProgressFinish::AndLeave);
        (scr, rig_pb(bs))
    }

    fn run(ops: u8) {
        let pos: u64 = kani::any();
        let len: Option<u64> = kani::any();
        let (scr, pb) = setup(pos, len);
        pb.force_draw(); // healthy first frame
        let k: usize = kani::any();
        kani::assume(k <= 12);
        scr.fail_at.set(scr.calls.get() + k);
        scr.fail_sticky.set(kani::any());
        let op: u8 = kani::any();
        kani::assume(op < ops);
        let mut mpos = pos;
        let mut fin = false;
        let mut msg_is_x = false;
        match op {
            0 => pb.set_tab_width(2),
            1 => pb.tick(),
            2 => {
                pb.inc(3);
                mpos = mpos.wrapping_add(3);
            }
            3 => {
                pb.set_message("x");
                msg_is_x = true;
            }
            4 => pb.println("log"),
            5 => {
                let r = pb.suspend(|| 5);
                assert!(r == 5);
            }
            6 => {
                pb.finish();
                fin = true;
                mpos = len.unwrap_or(mpos);
            }
            7 => {
                pb.finish_and_clear();
                fin = true;
                mpos = len.unwrap_or(mpos);
            }
            _ => {
                pb.reset();
                mpos = 0;
            }
        }
        // logical state is exactly what it would be without the failure
        assert!(pb.position() == mpos);
        assert!(pb.length() == len);
        assert!(pb.is_finished() == fin);
        let m = pb.message();
        assert!(m.len() == 1 && m.as_bytes()[0] == if msg_is_x { b'x' } else { b'm' });
        // the lock is not poisoned and a later call on the same bar and on a clone works
        scr.fail_at.set(usize::MAX);
        scr.fail_sticky.set(false);
        let pb2 = pb.clone();
        pb2.tick();
        assert!(pb2.position() == mpos);
        kani::cover!(op == 0 && k == 0);
        kani::cover!(op == 5 && k == 1);
        kani::cover!(k == 12);
        std::mem::forget(m);
        std::mem::forget(pb);
        std::mem::forget(pb2);
    }

    // @harness id=C18 tier=quick timeout=3400 mem=16
    // @bounds one public call out of {set_tab_width, tick, inc, set_message, println, suspend, finish, finish_and_clear, reset} with the k-th terminal call failing (k <= 12, once or sticky), pos/len over u64; then tick on a clone with a healthy terminal
    #[kani::proof]
    #[kani::unwind(20)]
    //@STUBS std now widthascii repeat noterm nomulti posany rlany noweight
    fn c18_bar_fault_no_panic() {
        run(9);
    }
}
