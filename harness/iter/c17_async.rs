// C17 — async adaptors (tokio AsyncRead / AsyncWrite / AsyncBufRead, futures Stream): transparent and exact.
// @file-encodes iter::ProgressBarIter as tokio::io::AsyncSeek::{start_seek,poll_complete}, tokio::io::AsyncRead::poll_read, tokio::io::AsyncWrite::{poll_write,poll_flush,poll_shutdown}, tokio::io::AsyncBufRead::{poll_fill_buf,consume}, futures_core::Stream::poll_next
// @file-assumes inner objects are harness mocks returning symbolic Pending / Ready(Ok) / Ready(Err); no executor: the poll methods are called directly with a no-op waker; hidden ProgressBar (rig); AtomicPosition::allow replaced by "refuse" (see c17.rs)
#[cfg(all(kani, feature = "tokio", feature = "futures"))]
mod verif_c17_async {
    use super::*;
    use crate::progress_bar::verif_rig_pb::*;
    use crate::state::verif_rig_state::*;
    use crate::state::AtomicPosition;
    use crate::style::verif_rig_style::*;
    use crate::verif_common::*;
    use crate::ProgressDrawTarget;
    use std::task::Waker;
    use std::time::Instant;
    use tokio::io::{AsyncBufRead, AsyncRead, AsyncSeek, AsyncWrite};

    fn never_allow(_p: &AtomicPosition, _now: Instant) -> bool {
        false
    }

    fn bar(p0: u64) -> ProgressBar {
        rig_pb(rig_bar(rig_pstate(p0, Some(100), 0, 0), rig_style_empty(), ProgressDrawTarget::hidden(), ProgressFinish::AndLeave))
    }

    struct MockA {
        consumed: usize,
    }
    static mut LASTA: (u8, usize) = (0, 0); // 0 pending, 1 ok(n), 2 err
    impl AsyncRead for MockA {
        fn poll_read(self: Pin<&mut Self>, _cx: &mut Context<'_>, buf: &mut ReadBuf<'_>) -> Poll<io::Result<()>> {
            let v: u8 = kani::any();
            match v % 3 {
                0 => {
                    unsafe { LASTA = (0, 0) };
                    Poll::Pending
                }
                1 => {
                    let n: usize = kani::any();
                    kani::assume(n <= buf.remaining() && n <= 4);
                    buf.put_slice(&[9u8; 4][..n]);
                    unsafe { LASTA = (1, n) };
                    Poll::Ready(Ok(()))
                }
                _ => {
                    unsafe { LASTA = (2, 0) };
                    Poll::Ready(Err(io::Error::from(io::ErrorKind::Interrupted)))
                }
            }
        }
    }
    impl AsyncBufRead for MockA {
        fn poll_fill_buf(self: Pin<&mut Self>, _cx: &mut Context<'_>) -> Poll<io::Result<&[u8]>> {
            const DATA: [u8; 4] = [1, 2, 3, 4];
            let v: u8 = kani::any();
            match v % 3 {
                0 => {
                    unsafe { LASTA = (0, 0) };
                    Poll::Pending
                }
                1 => {
                    let n: usize = kani::any();
                    kani::assume(n <= 4);
                    unsafe { LASTA = (1, n) };
                    Poll::Ready(Ok(&DATA[..n]))
                }
                _ => {
                    unsafe { LASTA = (2, 0) };
                    Poll::Ready(Err(io::Error::from(io::ErrorKind::Interrupted)))
                }
            }
        }
        fn consume(mut self: Pin<&mut Self>, amt: usize) {
            self.consumed += amt;
        }
    }
    impl AsyncWrite for MockA {
        fn poll_write(self: Pin<&mut Self>, _cx: &mut Context<'_>, buf: &[u8]) -> Poll<io::Result<usize>> {
            let v: u8 = kani::any();
            match v % 3 {
                0 => {
                    unsafe { LASTA = (0, 0) };
                    Poll::Pending
                }
                1 => {
                    let n: usize = kani::any();
                    kani::assume(n <= buf.len());
                    unsafe { LASTA = (1, n) };
                    Poll::Ready(Ok(n))
                }
                _ => {
                    unsafe { LASTA = (2, 0) };
                    Poll::Ready(Err(io::Error::from(io::ErrorKind::Interrupted)))
                }
            }
        }
        fn poll_flush(self: Pin<&mut Self>, _cx: &mut Context<'_>) -> Poll<io::Result<()>> {
            Poll::Ready(Ok(()))
        }
        fn poll_shutdown(self: Pin<&mut Self>, _cx: &mut Context<'_>) -> Poll<io::Result<()>> {
            Poll::Ready(Ok(()))
        }
    }

    fn pos_of(w: &ProgressBarIter<MockA>) -> u64 {
        w.progress.position()
    }

    // @harness id=C17 tier=quick timeout=3000 mem=12 features=tokio,futures
    // @bounds tokio AsyncRead::poll_read and AsyncWrite::poll_write on an 8-byte buffer against a source/sink answering Pending, Ready(Ok(n)) or Ready(Err): same poll result; position += n on Ready(Ok), unchanged on Pending and on error
    #[kani::proof]
    #[kani::unwind(10)]
    #[kani::stub(crate::state::AtomicPosition::allow, never_allow)]
    //@STUBS std now noterm nomulti norender rlany noweight
    fn c17_tokio_read_write() {
        let p0: u64 = kani::any();
        let mut w = ProgressBarIter { it: MockA { consumed: 0 }, progress: bar(p0) };
        let mut cx = Context::from_waker(Waker::noop());
        let mut storage = [0u8; 8];
        let is_read: bool = kani::any();
        let want;
        if is_read {
            let mut rb = ReadBuf::new(&mut storage);
            // the caller may keep one ReadBuf across polls: some bytes are already filled in
            let pre: usize = kani::any();
            kani::assume(pre <= 2);
            rb.put_slice(&[5u8; 2][..pre]);
            let r = Pin::new(&mut w).poll_read(&mut cx, &mut rb);
            let l = unsafe { LASTA };
            match r {
                Poll::Pending => assert!(l.0 == 0),
                Poll::Ready(Ok(())) => assert!(l.0 == 1 && rb.filled().len() == pre + l.1),
                Poll::Ready(Err(_)) => assert!(l.0 == 2),
            }
            want = if l.0 == 1 { p0.wrapping_add(l.1 as u64) } else { p0 };
        } else {
            let len: usize = kani::any();
            kani::assume(len <= 8);
            let r = Pin::new(&mut w).poll_write(&mut cx, &storage[..len]);
            let l = unsafe { LASTA };
            match r {
                Poll::Pending => assert!(l.0 == 0),
                Poll::Ready(Ok(n)) => assert!(l.0 == 1 && n == l.1),
                Poll::Ready(Err(_)) => assert!(l.0 == 2),
            }
            want = if l.0 == 1 { p0.wrapping_add(l.1 as u64) } else { p0 };
        }
        assert!(pos_of(&w) == want);
        kani::cover!(is_read && want != p0);
        kani::cover!(!is_read && want == p0.wrapping_add(8));
        std::mem::forget(w);
    }

    // @harness id=C17 tier=quick timeout=3000 mem=12 features=tokio,futures
    // @bounds tokio AsyncBufRead: 3 calls of poll_fill_buf / consume(amt <= 4) in symbolic order: poll_fill_buf returns the inner result and does not move the position (re-polling without consuming must not count twice), consume forwards the amount and advances the position by exactly it
    #[kani::proof]
    #[kani::unwind(10)]
    #[kani::stub(crate::state::AtomicPosition::allow, never_allow)]
    //@STUBS std now noterm nomulti norender rlany noweight
    fn c17_tokio_bufread_counts_on_consume() {
        let p0: u64 = kani::any();
        let mut w = ProgressBarIter { it: MockA { consumed: 0 }, progress: bar(p0) };
        let mut cx = Context::from_waker(Waker::noop());
        let mut expect = p0;
        let mut consumed = 0usize;
        let mut fills = 0;
        let mut k = 0;
        while k < 3 {
            if kani::any() {
                let r = Pin::new(&mut w).poll_fill_buf(&mut cx);
                let l = unsafe { LASTA };
                match r {
                    Poll::Pending => assert!(l.0 == 0),
                    Poll::Ready(Ok(b)) => {
                        assert!(l.0 == 1 && b.len() == l.1);
                        fills += 1;
                    }
                    Poll::Ready(Err(_)) => assert!(l.0 == 2),
                }
            } else {
                let amt: usize = kani::any();
                kani::assume(amt <= 4);
                Pin::new(&mut w).consume(amt);
                consumed += amt;
                expect = expect.wrapping_add(amt as u64);
            }
            assert!(pos_of(&w) == expect);
            assert!(w.it.consumed == consumed);
            k += 1;
        }
        kani::cover!(fills == 2 && consumed > 0);
        kani::cover!(consumed == 12);
        std::mem::forget(w);
    }

    static mut LASTK: (u8, u64) = (0, 0);
    impl AsyncSeek for MockA {
        fn start_seek(self: Pin<&mut Self>, _position: SeekFrom) -> io::Result<()> {
            if kani::any() {
                Ok(())
            } else {
                Err(io::Error::from(io::ErrorKind::InvalidInput))
            }
        }
        fn poll_complete(self: Pin<&mut Self>, _cx: &mut Context<'_>) -> Poll<io::Result<u64>> {
            let v: u8 = kani::any();
            match v % 3 {
                0 => {
                    unsafe { LASTK = (0, 0) };
                    Poll::Pending
                }
                1 => {
                    let off: u64 = kani::any();
                    unsafe { LASTK = (1, off) };
                    Poll::Ready(Ok(off))
                }
                _ => {
                    unsafe { LASTK = (2, 0) };
                    Poll::Ready(Err(io::Error::from(io::ErrorKind::Interrupted)))
                }
            }
        }
    }

    // @harness id=C17 tier=quick timeout=3000 mem=12 features=tokio,futures
    // @bounds tokio AsyncSeek: start_seek (Start / End / Current with symbolic offsets; inner Ok or Err) followed by one poll_complete answering Pending, Ready(Ok(offset over u64)) or Ready(Err): same results; a completed seek sets the position to the new offset, Pending / errors leave it unchanged
    #[kani::proof]
    #[kani::unwind(10)]
    #[kani::stub(crate::state::AtomicPosition::allow, never_allow)]
    //@STUBS std now noterm nomulti norender rlany noweight
    fn c17_tokio_seek_sets_position() {
        let p0: u64 = kani::any();
        let mut w = ProgressBarIter { it: MockA { consumed: 0 }, progress: bar(p0) };
        let mut cx = Context::from_waker(Waker::noop());
        let mode: u8 = kani::any();
        let from = match mode % 3 {
            0 => SeekFrom::Start(kani::any()),
            1 => SeekFrom::End(kani::any()),
            _ => SeekFrom::Current(kani::any()),
        };
        let started = Pin::new(&mut w).start_seek(from);
        assert!(pos_of(&w) == p0);
        if started.is_ok() {
            let r = Pin::new(&mut w).poll_complete(&mut cx);
            let l = unsafe { LASTK };
            match r {
                Poll::Pending => assert!(l.0 == 0 && pos_of(&w) == p0),
                Poll::Ready(Ok(off)) => assert!(l.0 == 1 && off == l.1 && pos_of(&w) == off),
                Poll::Ready(Err(_)) => assert!(l.0 == 2 && pos_of(&w) == p0),
            }
            kani::cover!(l.0 == 1 && l.1 != p0);
        }
        kani::cover!(started.is_err());
        std::mem::forget(w);
    }

    struct MockS {
        left: usize,
    }
    impl futures_core::Stream for MockS {
        type Item = u32;
        fn poll_next(mut self: Pin<&mut Self>, _cx: &mut Context<'_>) -> Poll<Option<u32>> {
            if kani::any() {
                return Poll::Pending;
            }
            if self.left == 0 {
                Poll::Ready(None)
            } else {
                self.left -= 1;
                Poll::Ready(Some(40 + self.left as u32))
            }
        }
    }

    // @harness id=C17 tier=quick timeout=3000 mem=12 features=tokio,futures
    // @bounds futures Stream::poll_next, 3 polls of a stream of 0..=2 items that may answer Pending at any poll (ProgressBar::finish_using_style replaced by a recorder): same items; position += 1 per item, unchanged on Pending; the end of the stream finishes the bar
    #[kani::proof]
    #[kani::unwind(10)]
    #[kani::stub(crate::state::AtomicPosition::allow, never_allow)]
    //@STUBS std now noterm nomulti norender rlany noweight pbfinishrec
    fn c17_stream_poll_next() {
        unsafe {
            PB_FINISHED = false;
            PB_FINISH_CALLS = 0;
        }
        use futures_core::Stream;
        let n: usize = kani::any();
        kani::assume(n <= 2);
        let mut w = ProgressBarIter { it: MockS { left: n }, progress: bar(0) };
        let mut cx = Context::from_waker(Waker::noop());
        let mut got = 0u64;
        let mut ended = false;
        let mut k = 0;
        while k < 3 {
            match Pin::new(&mut w).poll_next(&mut cx) {
                Poll::Pending => {}
                Poll::Ready(Some(v)) => {
                    assert!(!ended && v == 40 + (n as u32 - 1 - got as u32));
                    got += 1;
                }
                Poll::Ready(None) => ended = true,
            }
            assert!(w.progress.position() == got);
            assert!((unsafe { PB_FINISH_CALLS } >= 1) == ended);
            k += 1;
        }
        kani::cover!(ended && got == 2);
        std::mem::forget(w);
    }
}
