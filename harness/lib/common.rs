// Shared helpers for all harness modules (appended to the scratch copy of src/lib.rs).
#[cfg(kani)]
pub(crate) mod verif_common {
    use std::fmt;
    use std::time::Instant;

    /// Model of `console::measure_text_width` for the harness alphabet:
    /// ASCII printable -> 1 column, 2-byte sequences (representative: U+00E9) -> 1 column,
    /// 3-byte sequences (representative: U+4E16, CJK) -> 2 columns; no escape sequences.
    /// Validated natively against the real function by engine/validate_stubs (setup + thorough tiers).
    pub(crate) fn stub_width(s: &str) -> usize {
        let b = s.as_bytes();
        let mut i = 0;
        let mut w = 0;
        while i < b.len() {
            let c = b[i];
            if c < 0x80 {
                w += 1;
                i += 1;
            } else if c < 0xE0 {
                w += 1;
                i += 2;
            } else {
                w += 2;
                i += 3;
            }
        }
        w
    }

    /// Pure-ASCII variant (length == columns); used where harness strings are ASCII by construction.
    pub(crate) fn stub_width_ascii(s: &str) -> usize {
        s.len()
    }

    /// `str::repeat` replacement: a fixed-capacity string of spaces cut to `n` (heap strings of
    /// symbolic size make CBMC run out of memory). Only ever called with a " " receiver in the code under test.
    pub(crate) fn stub_repeat(_s: &str, n: usize) -> String {
        let mut s = String::from("                                ");
        assert!(n <= 32, "stub_repeat: bound exceeded");
        unsafe {
            s.as_mut_vec().set_len(n);
        }
        s
    }

    pub(crate) fn stub_false() -> bool {
        false
    }

    /// Build an `Instant` from (secs, nanos). Layout (Linux): Instant{ Timespec{ tv_sec: i64, tv_nsec: u32 } }.
    pub(crate) fn mk_instant(secs: u64, nanos: u32) -> Instant {
        #[repr(C)]
        struct Raw {
            s: i64,
            n: u32,
        }
        unsafe { std::mem::transmute::<Raw, Instant>(Raw { s: secs as i64, n: nanos }) }
    }

    pub(crate) fn stub_now() -> Instant {
        mk_instant(1_000_000, 0)
    }

    /// Fixed-capacity output sink; `ovf` is set instead of panicking when the capacity is exceeded.
    pub(crate) struct Buf<const N: usize> {
        pub b: [u8; N],
        pub n: usize,
        pub ovf: bool,
    }
    impl<const N: usize> Buf<N> {
        pub(crate) fn new() -> Self {
            Buf { b: [0; N], n: 0, ovf: false }
        }
        pub(crate) fn as_str(&self) -> &str {
            unsafe { std::str::from_utf8_unchecked(&self.b[..self.n]) }
        }
    }
    impl<const N: usize> fmt::Write for Buf<N> {
        fn write_str(&mut self, s: &str) -> fmt::Result {
            let bs = s.as_bytes();
            let mut i = 0;
            while i < bs.len() {
                if self.n < N {
                    self.b[self.n] = bs[i];
                    self.n += 1;
                } else {
                    self.ovf = true;
                }
                i += 1;
            }
            Ok(())
        }
    }

    /// Render a Display value into a Buf without going through `format_args!` machinery.
    pub(crate) fn render<const N: usize, T: fmt::Display>(v: &T, out: &mut Buf<N>) -> fmt::Result {
        fmt::Display::fmt(v, &mut fmt::Formatter::new(out, fmt::FormattingOptions::new()))
    }
}
