// Shared helpers for all harness modules (appended to the scratch copy of src/lib.rs).
#[cfg(kani)]
pub(crate) mod verif_common {
    use std::fmt;
    use std::time::Instant;

    /// `rep12!(r, { body })`: the body for r = 0..12 WITHOUT a loop. Kani has one unwind bound per harness, so a harness
    /// loop of 12 iterations would force every (nested) loop of the code under test to be unwound 13 times.
    macro_rules! rep12 {
        ($r:ident, $body:block) => {
            { let $r: usize = 0; $body } { let $r: usize = 1; $body } { let $r: usize = 2; $body } { let $r: usize = 3; $body }
            { let $r: usize = 4; $body } { let $r: usize = 5; $body } { let $r: usize = 6; $body } { let $r: usize = 7; $body }
            { let $r: usize = 8; $body } { let $r: usize = 9; $body } { let $r: usize = 10; $body } { let $r: usize = 11; $body }
        };
    }
    pub(crate) use rep12;

    /// Model of `console::measure_text_width` for the harness alphabet:
    /// ASCII printable -> 1 column, 2-byte sequences (representative: U+00E9) -> 1 column,
    /// 3-byte sequences (representative: U+4E16, CJK) -> 2 columns; no escape sequences.
    /// Validated natively against the real function by engine/validate_stubs (setup + thorough tiers).
    pub(crate) fn stub_width(s: &str) -> usize {
        let b = s.as_bytes();
        let mut i = 0;
        let mut w = 0;
        while i < b.len() {
            let c = b[i];
            if c < 0x80 {
                w += 1;
                i += 1;
            } else if c < 0xE0 {
                w += 1;
                i += 2;
            } else {
                w += 2;
                i += 3;
            }
        }
        w
    }

    /// Pure-ASCII variant (length == columns); used where harness strings are ASCII by construction.
    pub(crate) fn stub_width_ascii(s: &str) -> usize {
        s.len()
    }

    /// `str::repeat` replacement: a fixed-capacity string of spaces cut to `n` (heap strings of
    /// symbolic size make CBMC run out of memory). Only ever called with a " " receiver in the code under test.
    pub(crate) fn stub_repeat(_s: &str, n: usize) -> String {
        let mut s = String::from("                                ");
        assert!(n <= 32, "stub_repeat: bound exceeded");
        unsafe {
            s.as_mut_vec().set_len(n);
        }
        s
    }

    /// `str::replace` model for the only pattern the code under test uses (the TAB character): byte-wise copy with the
    /// replacement spliced in, into a string of fixed capacity. std's implementation (CharSearcher + memchr) makes CBMC unwind
    /// thousands of memchr iterations on heap strings. Validated natively against str::replace by engine/validate_stubs.py.
    pub(crate) fn stub_replace_tab<P: core::str::pattern::Pattern>(s: &str, _from: P, to: &str) -> String {
        let mut out = String::with_capacity(64);
        let b = s.as_bytes();
        let t = to.as_bytes();
        let mut i = 0;
        while i < b.len() {
            if b[i] == b'\t' {
                let mut j = 0;
                while j < t.len() {
                    unsafe { out.as_mut_vec().push(t[j]) };
                    j += 1;
                }
            } else {
                unsafe { out.as_mut_vec().push(b[i]) };
            }
            i += 1;
        }
        assert!(out.len() <= 64, "stub_replace_tab: bound exceeded");
        out
    }

    pub(crate) fn stub_false() -> bool {
        false
    }

    /// Stand-ins for std's float formatting (Grisu/Dragon, far beyond CBMC): harnesses that are not about a float-rendering
    /// key never print a float; if one is printed after all, the marker text makes the harness's comparison fail.
    pub(crate) fn fmt_f32_marker(_v: &f32, f: &mut fmt::Formatter<'_>) -> fmt::Result {
        f.write_str("<f32>")
    }
    pub(crate) fn fmt_f64_marker(_v: &f64, f: &mut fmt::Formatter<'_>) -> fmt::Result {
        f.write_str("<f64>")
    }

    /// `<console::Style as Clone>::clone` for the harnesses, none of which configures a styled placeholder: the only
    /// styles ever cloned are attribute-less `Style::new()` values (format_bar's default, apply_to), whose clone is
    /// `Style::new()`. Saves CBMC the B-tree clone machinery (~1000 loop unwindings per format_state call).
    pub(crate) fn plain_style_clone(_s: &console::Style) -> console::Style {
        console::Style::new()
    }

    /// Build an `Instant` from (secs, nanos). Layout (Linux): Instant{ Timespec{ tv_sec: i64, tv_nsec: u32 } }.
    pub(crate) fn mk_instant(secs: u64, nanos: u32) -> Instant {
        #[repr(C)]
        struct Raw {
            s: i64,
            n: u32,
        }
        unsafe { std::mem::transmute::<Raw, Instant>(Raw { s: secs as i64, n: nanos }) }
    }

    pub(crate) fn stub_now() -> Instant {
        mk_instant(1_000_000, 0)
    }

    /// Fixed-capacity output sink; `ovf` is set instead of panicking when the capacity is exceeded.
    pub(crate) struct Buf<const N: usize> {
        pub b: [u8; N],
        pub n: usize,
        pub ovf: bool,
    }
    impl<const N: usize> Buf<N> {
        pub(crate) fn new() -> Self {
            Buf { b: [0; N], n: 0, ovf: false }
        }
        pub(crate) fn as_str(&self) -> &str {
            unsafe { std::str::from_utf8_unchecked(&self.b[..self.n]) }
        }
    }
    impl<const N: usize> fmt::Write for Buf<N> {
        fn write_str(&mut self, s: &str) -> fmt::Result {
            let bs = s.as_bytes();
            let mut i = 0;
            while i < bs.len() {
                if self.n < N {
                    self.b[self.n] = bs[i];
                    self.n += 1;
                } else {
                    self.ovf = true;
                }
                i += 1;
            }
            Ok(())
        }
    }

    /// Render a Display value into a Buf without going through `format_args!` machinery.
    pub(crate) fn render<const N: usize, T: fmt::Display>(v: &T, out: &mut Buf<N>) -> fmt::Result {
        fmt::Display::fmt(v, &mut fmt::Formatter::new(out, fmt::FormattingOptions::new()))
    }
}
