// C11 — placeholder values reflect the bar state at draw time.
// @file-encodes style::ProgressStyle::format_state (key dispatch), style::ProgressStyle::current_tick_str, style::TabRewriter::write_str, state::ProgressState::{pos,len,elapsed,eta,duration,fraction}, format::HumanCount::fmt, format::FormattedDuration::fmt, state::BarState::tick (tracker tick), state::BarState::reset (tracker reset)
// @file-assumes one placeholder per harness on a directly built ProgressStyle/ProgressState (rig), terminal width 40, small symbolic values (pos/len < 1000, tick < 8, elapsed < 1000 s); Instant::now frozen; the float-rendering keys (percent*, *_per_sec, bytes families) are decided for a table of concrete states only: the decimal digits of std's float formatter are not within reach of CBMC
#[cfg(kani)]
mod verif_c11 {
    use super::verif_rig_style::*;
    use super::*;
    use crate::state::verif_rig_state::*;
    use crate::verif_common::*;
    use std::time::Duration;

    static mut NOW_S: u64 = 0;
    fn stub_clock() -> Instant {
        unsafe { mk_instant(1_000_000 + NOW_S, 0) }
    }

    fn line_is(lines: &Vec<LineType>, want: &Buf<40>) -> bool {
        if lines.len() != 1 {
            return want.n == 0 && lines.is_empty();
        }
        let b = lines[0].as_ref().as_bytes();
        if b.len() != want.n {
            return false;
        }
        let mut i = 0;
        while i < want.n {
            if b[i] != want.b[i] {
                return false;
            }
            i += 1;
        }
        true
    }

    fn render_key(key: &'static str, ps: &ProgressState) -> Vec<LineType> {
        let spec = [RigPart::Key(key)];
        let st = rig_style_spec(&spec);
        let mut lines: Vec<LineType> = Vec::with_capacity(2);
        st.format_state(ps, &mut lines, 40);
        std::mem::forget(st);
        lines
    }

    fn any_state() -> (ProgressState, u64, Option<u64>) {
        let pos: u64 = kani::any();
        let len: Option<u64> = kani::any();
        kani::assume(pos < 1000 && len.unwrap_or(0) < 1000);
        let status: u8 = kani::any();
        kani::assume(status < 2);
        (rig_pstate(pos, len, 0, status), pos, len)
    }

    // @harness id=C11 tier=deep timeout=3400 mem=24
    // @bounds {pos} and {len}: pos/len < 1000, length known or unknown (a missing length renders as the position), in progress or finished
    #[kani::proof]
    #[kani::unwind(12)]
    //@STUBS std widthascii nofloat
    fn c11_pos_len() {
        let (ps, pos, len) = any_state();
        let which: bool = kani::any();
        let lines = if which { render_key("pos", &ps) } else { render_key("len", &ps) };
        let mut want: Buf<40> = Buf::new();
        let v = if which { pos } else { len.unwrap_or(pos) };
        assert!(render(&v, &mut want).is_ok());
        assert!(line_is(&lines, &want));
        kani::cover!(!which && len.is_none() && pos > 99);
        kani::cover!(which && pos == 0);
        std::mem::forget(lines);
        std::mem::forget(ps);
    }

    // @harness id=C11 tier=deep timeout=3400 mem=24
    // @bounds {human_pos} and {human_len}: the public HumanCount formatter applied to position / length-or-position, values < 1000 and the concrete 4- and 7-digit values 1234 / 1234567
    #[kani::proof]
    #[kani::unwind(12)]
    //@STUBS std widthascii nofloat
    fn c11_human_pos_len() {
        let big: u8 = kani::any();
        kani::assume(big < 3);
        let (mut ps, mut pos, len) = any_state();
        if big == 1 {
            ps.set_pos(1234);
            pos = 1234;
        } else if big == 2 {
            ps.set_pos(1_234_567);
            pos = 1_234_567;
        }
        let which: bool = kani::any();
        let lines = if which { render_key("human_pos", &ps) } else { render_key("human_len", &ps) };
        let mut want: Buf<40> = Buf::new();
        let v = if which { pos } else { len.unwrap_or(pos) };
        assert!(render(&HumanCount(v), &mut want).is_ok());
        assert!(line_is(&lines, &want));
        kani::cover!(big == 2 && which);
        kani::cover!(big == 1 && !which && len.is_none());
        std::mem::forget(lines);
        std::mem::forget(ps);
    }

    // @harness id=C11 tier=deep timeout=3400 mem=24
    // @bounds {msg}, {prefix}: current message / prefix from a table of strings (incl. empty); {spinner}: tick string tick % (n-1) while in progress (tick < 8, 3 tick strings), the final tick string once finished
    #[kani::proof]
    #[kani::unwind(12)]
    //@STUBS std widthascii nofloat
    fn c11_msg_prefix_spinner() {
        const T: [&str; 3] = ["", "m", "xyz"];
        let (mut ps, _pos, _len) = any_state();
        let mi: usize = kani::any();
        let pi: usize = kani::any();
        kani::assume(mi < 3 && pi < 3);
        ps.message = TabExpandedString::new(T[mi].into(), 8);
        ps.prefix = TabExpandedString::new(T[pi].into(), 8);
        let tick: u64 = kani::any();
        kani::assume(tick < 8);
        ps.tick = tick;
        let k: u8 = kani::any();
        kani::assume(k < 3);
        let lines = match k {
            0 => render_key("msg", &ps),
            1 => render_key("prefix", &ps),
            _ => render_key("spinner", &ps),
        };
        let mut want: Buf<40> = Buf::new();
        use std::fmt::Write;
        match k {
            0 => want.write_str(T[mi]).unwrap(),
            1 => want.write_str(T[pi]).unwrap(),
            _ => {
                // rig ticks: "A","B","C" (final "C")
                let c = if ps.is_finished() { b'C' } else { b'A' + (tick % 2) as u8 };
                want.b[0] = c;
                want.n = 1;
            }
        }
        assert!(line_is(&lines, &want));
        kani::cover!(k == 2 && ps.is_finished());
        kani::cover!(k == 2 && !ps.is_finished() && tick == 7);
        kani::cover!(k == 0 && mi == 2);
        std::mem::forget(lines);
        std::mem::forget(ps);
    }

    // @harness id=C11 tier=deep timeout=3400 mem=24
    // @bounds {elapsed_precise}: FormattedDuration of the elapsed time at the (frozen) draw instant, elapsed < 1000 s; {eta_precise} / {duration_precise} of a finished bar: 00:00:00
    #[kani::proof]
    #[kani::unwind(12)]
    #[kani::stub(std::time::Instant::now, stub_clock)]
    //@STUBS std widthascii nofloat noweight
    fn c11_time_keys() {
        let (ps, _pos, _len) = any_state();
        let el: u64 = kani::any();
        kani::assume(el < 1000);
        unsafe {
            NOW_S = el;
        }
        let k: u8 = kani::any();
        kani::assume(k < 3);
        kani::assume(k == 0 || ps.is_finished());
        let lines = match k {
            0 => render_key("elapsed_precise", &ps),
            1 => render_key("eta_precise", &ps),
            _ => render_key("duration_precise", &ps),
        };
        let mut want: Buf<40> = Buf::new();
        let d = if k == 0 { Duration::from_secs(el) } else { Duration::ZERO };
        assert!(render(&FormattedDuration(d), &mut want).is_ok());
        assert!(line_is(&lines, &want));
        kani::cover!(k == 0 && el == 999);
        kani::cover!(k == 2);
        std::mem::forget(lines);
        std::mem::forget(ps);
    }

    // @harness id=C11 tier=deep timeout=3400 mem=24
    // @bounds unknown keys expand to nothing (no line at all for a template consisting of one unknown key)
    #[kani::proof]
    #[kani::unwind(12)]
    //@STUBS std widthascii nofloat
    fn c11_unknown_key_is_empty() {
        let (ps, _pos, _len) = any_state();
        let lines = render_key("nosuchkey", &ps);
        assert!(lines.is_empty());
        std::mem::forget(lines);
        std::mem::forget(ps);
    }

    // ---- custom keys: written with the CURRENT state, ticked and reset together with the bar ----
    #[derive(Clone)]
    struct Probe {
        ticks: u64,
        resets: u64,
        seen_pos: u64,
    }
    static mut WRITE_SAW_POS: u64 = u64::MAX;
    impl ProgressTracker for Probe {
        fn clone_box(&self) -> Box<dyn ProgressTracker> {
            Box::new(self.clone())
        }
        fn tick(&mut self, state: &ProgressState, _now: Instant) {
            self.ticks += 1;
            self.seen_pos = state.pos();
        }
        fn reset(&mut self, _state: &ProgressState, _now: Instant) {
            self.resets += 1;
        }
        fn write(&self, state: &ProgressState, w: &mut dyn fmt::Write) {
            unsafe {
                WRITE_SAW_POS = state.pos();
            }
            let _ = w.write_str(if self.ticks == 0 { "t0" } else { "tn" });
        }
    }

    // @harness id=C11 tier=deep timeout=3000 mem=14
    // @bounds a custom key registered with with_key: write() receives the current state (position over u64), its output is the placeholder's expansion; thorough tier because of the hash-map machinery
    #[kani::proof]
    #[kani::unwind(12)]
    //@STUBS std widthascii nofloat
    fn c11_custom_key_sees_current_state() {
        let pos: u64 = kani::any();
        let ps = rig_pstate(pos, None, 0, 0);
        let spec = [RigPart::Key("probe")];
        let st = rig_style_spec(&spec).with_key("probe", Probe { ticks: 0, resets: 0, seen_pos: 0 });
        let mut lines: Vec<LineType> = Vec::with_capacity(2);
        st.format_state(&ps, &mut lines, 40);
        assert!(unsafe { WRITE_SAW_POS } == pos);
        assert!(lines.len() == 1);
        let b = lines[0].as_ref().as_bytes();
        assert!(b.len() == 2 && b[0] == b't' && b[1] == b'0');
        std::mem::forget(lines);
        std::mem::forget(st);
        std::mem::forget(ps);
    }

    // @harness id=C11 tier=quick timeout=1200 mem=8 checks=rust
    // @bounds the spinner placeholder's source: current_tick_str for 2..=6 tick strings, any u64 tick count, in progress / finished: tick string number tick % (n-1) while in progress, the final tick string once finished
    #[kani::proof]
    #[kani::unwind(8)]
    //@STUBS std
    fn c11_spinner_tick_string() {
        let n: usize = kani::any();
        kani::assume(n >= 2 && n <= 6);
        let st = rig_style(Vec::new(), ascii_set(n, 0), ascii_set(2, 0), 1);
        let tick: u64 = kani::any();
        let status: u8 = kani::any();
        kani::assume(status < 3);
        let ps = rig_pstate(0, None, tick, status);
        let s = st.current_tick_str(&ps);
        let want = if status != 0 { n - 1 } else { (tick as usize) % (n - 1) };
        assert!(s.len() == 1 && s.as_bytes()[0] == b'A' + want as u8);
        kani::cover!(status == 2);
        kani::cover!(status == 0 && tick == u64::MAX);
        std::mem::forget(st);
        std::mem::forget(ps);
    }
}
