// C01 — ProgressStyle::push_line: a rendered template line that contains newlines becomes one Bar line per row, blank rows
// included (every row of the bar must be counted by the next redraw), none of them containing a newline.
// @file-encodes style::ProgressStyle::push_line
// @file-assumes the rendered line is one of a table of strings over {letters, newline} incl. doubled and trailing newlines; no wide element
#[cfg(kani)]
mod verif_c01_push_line {
    use super::verif_rig_style::*;
    use super::*;
    use crate::state::verif_rig_state::*;
    use crate::verif_common::*;

    fn run(text: &'static str, rows: usize, blank: usize) {
        let st = rig_style_empty();
        let ps = rig_pstate(0, None, 0, 0);
        let mut lines: Vec<LineType> = Vec::with_capacity(4);
        let mut cur = String::from(text);
        let mut buf = String::new();
        st.push_line(&mut lines, &mut cur, &ps, &mut buf, 40, &None);
        assert!(lines.len() == rows);
        let mut i = 0;
        while i < 4 {
            if i < lines.len() {
                match &lines[i] {
                    LineType::Bar(s) => {
                        let b = s.as_bytes();
                        assert!(b.len() <= 1);
                        if b.len() == 1 {
                            assert!(b[0] != b'\n');
                        }
                        assert!((b.len() == 0) == (i == blank));
                    }
                    _ => assert!(false), // Text / Empty lines would not be counted as rows of the frame
                }
            }
            i += 1;
        }
        std::mem::forget(lines);
        std::mem::forget(st);
        std::mem::forget(ps);
    }

    // @harness id=C01 tier=quick timeout=1200 mem=8 checks=rust
    // @bounds push_line("t\n\nb"): three Bar lines, the middle one empty
    #[kani::proof]
    #[kani::unwind(8)]
    //@STUBS std
    fn c01_push_line_blank_row() {
        run("t\n\nb", 3, 1);
    }

    // @harness id=C01 tier=quick timeout=1200 mem=8 checks=rust
    // @bounds push_line("a\nb"): two Bar lines; push_line("m"): one
    #[kani::proof]
    #[kani::unwind(8)]
    //@STUBS std
    fn c01_push_line_two_rows() {
        if kani::any() {
            run("a\nb", 2, 9);
        } else {
            run("m", 1, 9);
        }
    }
}
