// C13 — progress-bar geometry.
// @file-encodes style::ProgressStyle::format_bar, style::BarDisplay::fmt, style::RepeatedStringDisplay::fmt, state::ProgressState::fraction, style::WideElement::expand, style::ProgressStyle::format_state, style::ProgressStyle::push_line
#[cfg(kani)]
mod verif_c13 {
    use super::verif_rig_style::*;
    use super::*;
    use crate::state::verif_rig_state::*;
    use crate::verif_common::*;

    // @harness id=C13 tier=quick timeout=1800 mem=10
    // @bounds bar width N 0..=65535, cluster width c in {1,2}, 2..=10 progress chars, every f32 fraction in [0,1] (bit-precise); struct-level (no rendering loop)
    #[kani::proof]
    #[kani::unwind(12)]
    //@STUBS std
    fn c13_cells_struct() {
        let n: usize = kani::any();
        kani::assume(n >= 2 && n <= 10);
        let cw: usize = kani::any();
        kani::assume(cw == 1 || cw == 2);
        let st = rig_style(Vec::new(), ascii_set(2, 0), ascii_set(n, 0), cw);
        let fract: f32 = kani::any();
        kani::assume(fract >= 0.0 && fract <= 1.0);
        let width: usize = kani::any();
        kani::assume(width <= 65535);
        let d = st.format_bar(fract, width, None);
        let cells = width / cw;
        // filled = floor(fraction * cells), reference in f64 (exact: 24-bit x 16-bit significands)
        let exact = (fract as f64) * (cells as f64);
        let fl = exact as usize;
        // f32 rounding of the product may reach the next integer only from less than half an ulp below it
        assert!(d.filled == fl || (d.filled == fl + 1 && (exact - fl as f64) > 0.99));
        assert!(d.filled <= cells);
        let head = d.cur.is_some();
        // at most one partial cell, present iff the bar is neither empty nor (rendered) full
        assert!(head == (fract > 0.0 && cells > 0 && d.filled < cells));
        if let Some(c) = d.cur {
            assert!(c < n); // one of the configured progress characters
        }
        // (background count: see c13_render_cells, where the rendered text is inspected)
        if fract == 0.0 {
            assert!(d.filled == 0 && !head);
        }
        if fract == 1.0 {
            assert!(d.filled == cells && !head);
        }
        kani::cover!(head && n == 10 && d.filled > 1000);
        kani::cover!(d.filled == fl + 1);
        kani::cover!(cw == 2 && width % 2 == 1 && d.filled == cells);
        std::mem::forget(d);
        std::mem::forget(st);
    }

    // @harness id=C13 tier=quick timeout=900 mem=8
    // @bounds small instance kept cheap so that a counter-example can always be extracted and replayed: 3 progress chars, c = 1, N <= 16, every f32 fraction in [0,1]: partial cell present iff 0 < fraction and filled < N; filled == floor(fraction * N) up to f32 rounding
    #[kani::proof]
    #[kani::unwind(12)]
    //@STUBS std
    fn c13_head_small() {
        let st = rig_style(Vec::new(), ascii_set(2, 0), ascii_set(3, 0), 1);
        let fract: f32 = kani::any();
        kani::assume(fract >= 0.0 && fract <= 1.0);
        let width: usize = kani::any();
        kani::assume(width <= 16);
        let d = st.format_bar(fract, width, None);
        let exact = (fract as f64) * (width as f64);
        let fl = exact as usize;
        assert!(d.filled == fl || (d.filled == fl + 1 && (exact - fl as f64) > 0.99));
        assert!(d.cur.is_some() == (fract > 0.0 && width > 0 && d.filled < width));
        if let Some(c) = d.cur {
            assert!(c < 3);
        }
        std::mem::forget(d);
        std::mem::forget(st);
    }

    // @harness id=C13 tier=quick timeout=2400 mem=10
    // @bounds pos, len over u64 with 1 <= len <= 2^24, N <= 65535, c in {1,2}: filled == cells  <=>  pos >= len; filled == 0 at pos == 0
    #[kani::proof]
    #[kani::unwind(12)]
    //@STUBS std
    fn c13_full_iff_done() {
        let cw: usize = kani::any();
        kani::assume(cw == 1 || cw == 2);
        let st = rig_style(Vec::new(), ascii_set(2, 0), ascii_set(3, 0), cw);
        let pos: u64 = kani::any();
        let len: u64 = kani::any();
        kani::assume(len >= 1 && len <= (1 << 24));
        let ps = rig_pstate(pos, Some(len), 0, 0);
        let width: usize = kani::any();
        kani::assume(width >= cw && width <= 65535);
        let d = st.format_bar(ps.fraction(), width, None);
        let cells = width / cw;
        assert!((d.filled == cells) == (pos >= len));
        if pos == 0 {
            assert!(d.filled == 0 && d.cur.is_none());
        }
        kani::cover!(pos == len - 1 && len == (1 << 24) && cells == 65535);
        kani::cover!(pos > len);
        std::mem::forget(d);
        std::mem::forget(st);
        std::mem::forget(ps);
    }

    // @harness id=C13 tier=quick timeout=2400 mem=8
    // @bounds two positions pos1 <= pos2 < 2^10, any length < 2^10 or unknown, N <= 64, c in {1,2}: filled is monotone in the position
    #[kani::proof]
    #[kani::unwind(12)]
    //@STUBS std
    fn c13_monotone_small() {
        let cw: usize = kani::any();
        kani::assume(cw == 1 || cw == 2);
        let st = rig_style(Vec::new(), ascii_set(2, 0), ascii_set(3, 0), cw);
        let p1: u64 = kani::any();
        let p2: u64 = kani::any();
        kani::assume(p1 <= p2 && p2 < 1024);
        let len: Option<u64> = kani::any();
        kani::assume(len.unwrap_or(0) < 1024);
        let s1 = rig_pstate(p1, len, 0, 0);
        let s2 = rig_pstate(p2, len, 0, 0);
        let width: usize = kani::any();
        kani::assume(width <= 64);
        let d1 = st.format_bar(s1.fraction(), width, None);
        let d2 = st.format_bar(s2.fraction(), width, None);
        assert!(d1.filled <= d2.filled);
        kani::cover!(d1.filled < d2.filled);
        kani::cover!(len.is_none());
        std::mem::forget(d1);
        std::mem::forget(d2);
        std::mem::forget(st);
        std::mem::forget(s1);
        std::mem::forget(s2);
    }

    // @harness id=C13 tier=deep timeout=3400 mem=10
    // @bounds stage 1 of monotonicity over the full range: pos1 <= pos2 over u64, any length: fraction(pos1) <= fraction(pos2)
    #[kani::proof]
    fn c13_monotone_fraction_full() {
        let p1: u64 = kani::any();
        let p2: u64 = kani::any();
        kani::assume(p1 <= p2);
        let len: Option<u64> = kani::any();
        let s1 = rig_pstate(p1, len, 0, 0);
        let s2 = rig_pstate(p2, len, 0, 0);
        assert!(s1.fraction() <= s2.fraction());
        std::mem::forget(s1);
        std::mem::forget(s2);
    }

    // @harness id=C13 tier=deep timeout=3400 mem=10
    // @bounds stage 2 of monotonicity over the full range: fractions f1 <= f2 in [0,1] (all f32), N <= 65535, c in {1,2}: filled(f1) <= filled(f2)
    #[kani::proof]
    #[kani::unwind(12)]
    //@STUBS std
    fn c13_monotone_fill_full() {
        let cw: usize = kani::any();
        kani::assume(cw == 1 || cw == 2);
        let st = rig_style(Vec::new(), ascii_set(2, 0), ascii_set(3, 0), cw);
        let f1: f32 = kani::any();
        let f2: f32 = kani::any();
        kani::assume(f1 >= 0.0 && f1 <= f2 && f2 <= 1.0);
        let width: usize = kani::any();
        kani::assume(width <= 65535);
        let d1 = st.format_bar(f1, width, None);
        let d2 = st.format_bar(f2, width, None);
        assert!(d1.filled <= d2.filled);
        std::mem::forget(d1);
        std::mem::forget(d2);
        std::mem::forget(st);
    }

    // @harness id=C13 tier=quick timeout=1800 mem=10
    // @bounds rendered text of {bar:N}: N <= 8, c in {1,2}, 2..=4 progress glyphs, every fraction in [0,1]: filled glyphs, then <=1 partial glyph from the configured set, then background glyphs; exactly floor(N/c) cells
    #[kani::proof]
    #[kani::unwind(12)]
    //@STUBS std
    fn c13_render_cells() {
        let n: usize = kani::any();
        kani::assume(n >= 2 && n <= 4);
        let cw: usize = kani::any();
        kani::assume(cw == 1 || cw == 2);
        let st = rig_style(Vec::new(), ascii_set(2, 0), ascii_set(n, 0), cw);
        let fract: f32 = kani::any();
        kani::assume(fract >= 0.0 && fract <= 1.0);
        let width: usize = kani::any();
        kani::assume(width <= 8);
        let d = st.format_bar(fract, width, None);
        let filled = d.filled;
        let cur = d.cur;
        let mut out: Buf<16> = Buf::new();
        assert!(render(&d, &mut out).is_ok());
        // one glyph per cell, floor(N/c) cells
        assert!(out.n == width / cw);
        let mut i = 0;
        while i < out.n {
            let ch = out.b[i];
            if i < filled {
                assert!(ch == b'A');
            } else if i == filled && cur.is_some() {
                assert!(ch == b'A' + cur.unwrap() as u8);
                assert!(ch >= b'A' && ch < b'A' + n as u8);
            } else {
                assert!(ch == b'A' + (n - 1) as u8);
            }
            i += 1;
        }
        kani::cover!(cur.is_some() && filled > 0 && filled + 1 < width);
        kani::cover!(cw == 2 && width == 7);
        std::mem::forget(d);
        std::mem::forget(st);
    }

}
