// C13 / C14 — the rendered bar judged from its TEXT only (no access to BarDisplay's private fields, so a refactor of that struct
// cannot break this file's build): exactly floor(N/c) cells; filled glyphs, at most one partial glyph, background glyphs, in this
// order; the filled count is floor(fraction * cells) (one more only within one ulp of an integer boundary); nothing panics.
// @file-encodes style::ProgressStyle::format_bar, style::BarDisplay as Display
// @file-assumes ProgressStyle built directly (rig) with 4..=5 distinct one-column ASCII glyphs (so the fine-grained partial glyphs exist), char width 1; N <= 8; every f32 fraction in [0,1]
#[cfg(kani)]
mod verif_c13_render {
    use super::verif_rig_style::*;
    use super::*;
    use crate::verif_common::*;

    fn render_text(n: usize) {
        let st = rig_style(Vec::new(), ascii_set(2, 0), ascii_set(n, 0), 1);
        let fract: f32 = kani::any();
        kani::assume(fract >= 0.0 && fract <= 1.0);
        let width: usize = kani::any();
        kani::assume(width <= 8);
        let d = st.format_bar(fract, width, None);
        let mut out: Buf<16> = Buf::new();
        assert!(render(&d, &mut out).is_ok());
        assert!(out.n == width);
        let bg = b'A' + (n - 1) as u8;
        // shape: A* (one of B..=bg-1)? bg*
        let mut filled = 0;
        let mut partial = 0;
        let mut phase = 0; // 0 filled, 1 after the partial glyph / in the background
        let mut i = 0;
        while i < 8 {
            if i < out.n {
                let ch = out.b[i];
                if phase == 0 && ch == b'A' {
                    filled += 1;
                } else if phase == 0 && ch > b'A' && ch < bg {
                    partial += 1;
                    phase = 1;
                } else {
                    assert!(ch == bg);
                    phase = 1;
                }
            }
            i += 1;
        }
        assert!(partial <= 1);
        let exact = fract as f64 * width as f64;
        let fl = exact as usize; // floor for non-negative values
        assert!(filled == fl || (filled == fl + 1 && (exact - fl as f64) > 0.99));
        // a partial glyph only when the bar is neither empty nor full
        if partial == 1 {
            assert!(fract > 0.0 && filled < width);
        }
        if fract >= 1.0 {
            assert!(filled == width);
        }
        kani::cover!(partial == 1 && filled > 0);
        kani::cover!(filled == width && width == 8);
        std::mem::forget(d);
        std::mem::forget(st);
    }

    // @harness id=C13 tier=quick timeout=1800 mem=10
    // @bounds rendered text of a bar of N <= 8 columns with 4 progress glyphs, every f32 fraction in [0,1]: shape, filled count and partial-cell rule read off the text
    #[kani::proof]
    #[kani::unwind(12)]
    //@STUBS std
    fn c13_render_text_4_glyphs() {
        render_text(4);
    }

    // @harness id=C14 tier=quick timeout=1800 mem=10
    // @bounds a style with 5 progress glyphs (3 fine-grained partial glyphs) renders every fraction in [0,1] at every width <= 8 without panicking, with the documented shape
    #[kani::proof]
    #[kani::unwind(12)]
    //@STUBS std
    fn c14_render_text_5_glyphs() {
        render_text(5);
    }
}
