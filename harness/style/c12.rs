// C12 — field width / alignment / truncation contract of PaddedStringDisplay.
// @file-encodes style::PaddedStringDisplay::fmt
// @file-assumes console::measure_text_width replaced by the byte-class width model verif_common::stub_width (1-byte->1 col, 2-byte->1 col, 3-byte CJK->2 cols; no ANSI escapes in content)
#[cfg(kani)]
mod verif_c12 {
    use super::*;
    use crate::verif_common::*;

    const MAXC: usize = 4;

    /// Symbolic content of `n <= MAXC` characters; kind 0 = ASCII, 1 = 2-byte/1 col, 2 = 3-byte/2 cols.
    /// Each position uses a distinct code point so that reordering/duplication is visible.
    fn content(bytes: &mut [u8; 12], kinds: &mut [u8; MAXC], n: usize, allow_wide: bool) -> usize {
        let mut len = 0;
        let mut i = 0;
        while i < n {
            let k: u8 = kani::any();
            kani::assume(k <= if allow_wide { 2 } else { 1 });
            kinds[i] = k;
            if k == 0 {
                bytes[len] = b'a' + i as u8;
                len += 1;
            } else if k == 1 {
                bytes[len] = 0xC3;
                bytes[len + 1] = 0xA0 + i as u8;
                len += 2;
            } else {
                bytes[len] = 0xE4;
                bytes[len + 1] = 0xB8;
                bytes[len + 2] = 0x80 + i as u8;
                len += 3;
            }
            i += 1;
        }
        len
    }

    fn push_char(out: &mut Buf<24>, kind: u8, i: usize) {
        use std::fmt::Write;
        if kind == 0 {
            out.b[out.n] = b'a' + i as u8;
            out.n += 1;
        } else if kind == 1 {
            out.b[out.n] = 0xC3;
            out.b[out.n + 1] = 0xA0 + i as u8;
            out.n += 2;
        } else {
            out.b[out.n] = 0xE4;
            out.b[out.n + 1] = 0xB8;
            out.b[out.n + 2] = 0x80 + i as u8;
            out.n += 3;
        }
    }

    fn same(a: &Buf<24>, b: &Buf<24>) -> bool {
        if a.n != b.n {
            return false;
        }
        let mut i = 0;
        while i < a.n {
            if a.b[i] != b.b[i] {
                return false;
            }
            i += 1;
        }
        true
    }

    /// mode 0: everything except (truncating an over-wide content that contains a multi-byte char)
    /// mode 1: exactly that region, 1-column chars only (known finding C12-truncate-multibyte)
    /// mode 2: truncation of content containing 2-column glyphs: weaker oracle (<= W columns, >= W-1, char-aligned window)
    fn run(align: Alignment, mode: u8) -> u8 {
        let mut bytes = [0u8; 12];
        let mut kinds = [0u8; MAXC];
        let n: usize = kani::any();
        kani::assume(n <= MAXC);
        let len = content(&mut bytes, &mut kinds, n, mode != 1);
        let s = unsafe { std::str::from_utf8_unchecked(&bytes[..len]) };
        let width: usize = kani::any();
        kani::assume(width <= 6);
        let truncate: bool = kani::any();

        let mut cols = 0;
        let mut multibyte = false;
        let mut wide = false;
        let mut i = 0;
        while i < n {
            cols += if kinds[i] == 2 { 2 } else { 1 };
            if kinds[i] != 0 {
                multibyte = true;
            }
            if kinds[i] == 2 {
                wide = true;
            }
            i += 1;
        }
        let cutting = truncate && cols > width;
        match mode {
            0 => kani::assume(!(cutting && multibyte)),
            1 => kani::assume(cutting && multibyte),
            _ => kani::assume(cutting && wide),
        }

        let p = PaddedStringDisplay { str: s, width, align, truncate };
        let mut out: Buf<24> = Buf::new();
        let r = render(&p, &mut out);
        assert!(r.is_ok());
        assert!(!out.ovf);

        let mut exp: Buf<24> = Buf::new();
        if cols <= width {
            // fits: exactly W columns, padding on the documented side(s)
            let d = width - cols;
            let (l, rr) = match align {
                Alignment::Left => (0, d),
                Alignment::Right => (d, 0),
                Alignment::Center => (d / 2, d - d / 2),
            };
            let mut j = 0;
            while j < l {
                exp.b[exp.n] = b' ';
                exp.n += 1;
                j += 1;
            }
            let mut j = 0;
            while j < n {
                push_char(&mut exp, kinds[j], j);
                j += 1;
            }
            let mut j = 0;
            while j < rr {
                exp.b[exp.n] = b' ';
                exp.n += 1;
                j += 1;
            }
            assert!(same(&out, &exp));
            assert!(stub_width(out.as_str()) == width);
            return if d > 0 && n > 0 { 1 } else { 0 };
        } else if !truncate {
            let mut j = 0;
            while j < n {
                push_char(&mut exp, kinds[j], j);
                j += 1;
            }
            assert!(same(&out, &exp));
            return 2;
        } else if mode != 2 {
            // 1-column characters only: exactly W columns kept from start / middle / end
            let excess = cols - width;
            let skip = match align {
                Alignment::Left => 0,
                Alignment::Right => excess,
                Alignment::Center => excess / 2,
            };
            let mut j = skip;
            while j < skip + width {
                push_char(&mut exp, kinds[j], j);
                j += 1;
            }
            assert!(same(&out, &exp));
            assert!(stub_width(out.as_str()) == width);
            return if width > 0 { 3 } else { 0 };
        } else {
            let oc = stub_width(out.as_str());
            assert!(oc <= width);
            assert!(oc + 1 >= width);
            return 4;
        }
    }

    // @harness id=C12 tier=quick timeout=900 mem=8
    // @bounds content <= 4 chars over {ASCII, 2-byte/1-col, 3-byte/2-col}, W in 0..=6, truncate symbolic, align=Left; excludes truncation of multi-byte content (known finding)
    #[kani::proof]
    #[kani::unwind(14)]
    #[kani::stub(console::measure_text_width, stub_width)]
    fn c12_pad_left() {
        let b = run(Alignment::Left, 0);
        kani::cover!(b == 1, "padded");
        kani::cover!(b == 2, "unshortened");
        kani::cover!(b == 3, "truncated");
    }

    // @harness id=C12 tier=quick timeout=900 mem=8
    // @bounds as c12_pad_left, align=Center
    #[kani::proof]
    #[kani::unwind(14)]
    #[kani::stub(console::measure_text_width, stub_width)]
    fn c12_pad_center() {
        let b = run(Alignment::Center, 0);
        kani::cover!(b == 1, "padded");
        kani::cover!(b == 2, "unshortened");
        kani::cover!(b == 3, "truncated");
    }

    // @harness id=C12 tier=quick timeout=900 mem=8
    // @bounds as c12_pad_left, align=Right
    #[kani::proof]
    #[kani::unwind(14)]
    #[kani::stub(console::measure_text_width, stub_width)]
    fn c12_pad_right() {
        let b = run(Alignment::Right, 0);
        kani::cover!(b == 1, "padded");
        kani::cover!(b == 2, "unshortened");
        kani::cover!(b == 3, "truncated");
    }

    // @harness id=C12 tier=quick timeout=900 mem=8 expect=known:C12-truncate-multibyte
    // @bounds truncation of over-wide content containing a 2-byte (1-column) character, <= 4 chars, W <= 6, align=Center
    #[kani::proof]
    #[kani::unwind(14)]
    #[kani::stub(console::measure_text_width, stub_width)]
    fn c12_trunc_multibyte_center() {
        let b = run(Alignment::Center, 1);
        kani::cover!(b == 3, "truncated");
    }

    // @harness id=C12 tier=quick timeout=900 mem=8 expect=known:C12-truncate-multibyte
    // @bounds as c12_trunc_multibyte_center, align=Left
    #[kani::proof]
    #[kani::unwind(14)]
    #[kani::stub(console::measure_text_width, stub_width)]
    fn c12_trunc_multibyte_left() {
        let b = run(Alignment::Left, 1);
        kani::cover!(b == 3, "truncated");
    }

    // @harness id=C12 tier=quick timeout=900 mem=8 expect=known:C12-truncate-multibyte
    // @bounds as c12_trunc_multibyte_center, align=Right
    #[kani::proof]
    #[kani::unwind(14)]
    #[kani::stub(console::measure_text_width, stub_width)]
    fn c12_trunc_multibyte_right() {
        let b = run(Alignment::Right, 1);
        kani::cover!(b == 3, "truncated");
    }
    // @harness id=C12 tier=quick timeout=900 mem=8 expect=known:C12-truncate-multibyte
    // @bounds truncation of over-wide content containing a 3-byte/2-column glyph, <= 4 chars, W <= 6, all alignments; oracle: W-1 <= kept columns <= W
    #[kani::proof]
    #[kani::unwind(14)]
    #[kani::stub(console::measure_text_width, stub_width)]
    fn c12_trunc_wide_glyph() {
        let a: u8 = kani::any();
        let align = match a % 3 {
            0 => Alignment::Left,
            1 => Alignment::Center,
            _ => Alignment::Right,
        };
        let b = run(align, 2);
        kani::cover!(b == 4, "truncated-wide");
    }
}
