// C14 — every style the builder accepts can be rendered without panicking; unrenderable ones are rejected by the builder.
// @file-encodes style::ProgressStyle::tick_strings, style::ProgressStyle::tick_chars, style::ProgressStyle::progress_chars, style::ProgressStyle::get_tick_str, style::ProgressStyle::get_final_tick_str, style::ProgressStyle::format_bar, style::BarDisplay::fmt, style::width, style::segment
#[cfg(kani)]
mod verif_c14 {
    use super::verif_rig_style::*;
    use super::*;
    use crate::verif_common::*;

    fn base() -> ProgressStyle {
        rig_style(Vec::new(), ascii_set(3, 0), ascii_set(3, 3), 1)
    }

    // ---- indexing of every accepted tick configuration, any tick value ----
    // @harness id=C14 tier=quick timeout=600 mem=6
    // @bounds tick string count n in 2..=6 (symbolic), tick index over the whole u64 range
    #[kani::proof]
    #[kani::unwind(12)]
    #[kani::stub(std::hash::RandomState::new, stub_rs)]
    fn c14_tick_index_any_u64() {
        let n: usize = kani::any();
        kani::assume(n >= 2 && n <= 6);
        let st = rig_style(Vec::new(), ascii_set(n, 0), ascii_set(2, 0), 1);
        let idx: u64 = kani::any();
        let s = st.get_tick_str(idx);
        let want = (idx as usize) % (n - 1);
        assert!(s.as_bytes()[0] == b'A' + want as u8);
        let f = st.get_final_tick_str();
        assert!(f.as_bytes()[0] == b'A' + (n - 1) as u8);
        kani::cover!(idx == u64::MAX);
        kani::cover!(n == 2);
        std::mem::forget(st);
    }

    // ---- accepted builder arguments: no panic in the builder, and the result renders ----
    // @harness id=C14 tier=quick timeout=900 mem=8
    // @bounds builder called with 2 and 3 tick strings / tick chars / progress chars (concrete), then get_tick_str for any u64 and format_bar rendered for any fraction in [0,1] (all f32 bit patterns) and width <= 6
    #[kani::proof]
    #[kani::unwind(12)]
    #[kani::stub(std::hash::RandomState::new, stub_rs)]
    #[kani::stub(console::colors_enabled, stub_false)]
    #[kani::stub(console::colors_enabled_stderr, stub_false)]
    fn c14_accept_then_render() {
        let which: u8 = kani::any();
        kani::assume(which < 6);
        let st = match which {
            0 => base().tick_strings(&["x", "y"]),
            1 => base().tick_strings(&["x", "yy", "z"]),
            2 => base().tick_chars("xy"),
            3 => base().tick_chars("xyz"),
            4 => base().progress_chars("#-"),
            _ => base().progress_chars("#>-"),
        };
        let idx: u64 = kani::any();
        let _ = st.get_tick_str(idx);
        let _ = st.get_final_tick_str();
        let fract: f32 = kani::any();
        kani::assume(fract >= 0.0 && fract <= 1.0);
        let width: usize = kani::any();
        kani::assume(width <= 6);
        let d = st.format_bar(fract, width, None);
        let mut out: Buf<16> = Buf::new();
        let r = render(&d, &mut out);
        assert!(r.is_ok());
        assert!(out.n == width);
        kani::cover!(which == 0 && idx > 5);
        kani::cover!(which == 5 && width == 6 && fract > 0.5 && fract < 1.0);
        std::mem::forget(d);
        std::mem::forget(st);
    }

    // ---- rejected configurations: the *builder* must panic (each harness calls only the builder, with concrete
    //      arguments, so the single path must end in a panic) ----
    // @harness id=C14 tier=quick timeout=600 mem=6 kind=should_panic
    // @bounds tick_strings(&[]) must panic in the builder
    #[kani::proof]
    #[kani::unwind(12)]
    #[kani::should_panic]
    #[kani::stub(std::hash::RandomState::new, stub_rs)]
    fn c14_reject_tick_strings_0() {
        let st = base().tick_strings(&[]);
        std::mem::forget(st);
    }

    // @harness id=C14 tier=quick timeout=600 mem=6 kind=should_panic
    // @bounds tick_strings(&["x"]) must panic in the builder
    #[kani::proof]
    #[kani::unwind(12)]
    #[kani::should_panic]
    #[kani::stub(std::hash::RandomState::new, stub_rs)]
    fn c14_reject_tick_strings_1() {
        let st = base().tick_strings(&["x"]);
        std::mem::forget(st);
    }

    // @harness id=C14 tier=quick timeout=600 mem=6 kind=should_panic
    // @bounds tick_chars("") must panic in the builder
    #[kani::proof]
    #[kani::unwind(12)]
    #[kani::should_panic]
    #[kani::stub(std::hash::RandomState::new, stub_rs)]
    fn c14_reject_tick_chars_0() {
        let st = base().tick_chars("");
        std::mem::forget(st);
    }

    // @harness id=C14 tier=quick timeout=600 mem=6 kind=should_panic
    // @bounds tick_chars("x") must panic in the builder
    #[kani::proof]
    #[kani::unwind(12)]
    #[kani::should_panic]
    #[kani::stub(std::hash::RandomState::new, stub_rs)]
    fn c14_reject_tick_chars_1() {
        let st = base().tick_chars("x");
        std::mem::forget(st);
    }

    // @harness id=C14 tier=quick timeout=600 mem=6 kind=should_panic
    // @bounds progress_chars("") must panic in the builder
    #[kani::proof]
    #[kani::unwind(12)]
    #[kani::should_panic]
    #[kani::stub(std::hash::RandomState::new, stub_rs)]
    fn c14_reject_progress_chars_0() {
        let st = base().progress_chars("");
        std::mem::forget(st);
    }

    // @harness id=C14 tier=quick timeout=600 mem=6 kind=should_panic
    // @bounds progress_chars("#") must panic in the builder
    #[kani::proof]
    #[kani::unwind(12)]
    #[kani::should_panic]
    #[kani::stub(std::hash::RandomState::new, stub_rs)]
    fn c14_reject_progress_chars_1() {
        let st = base().progress_chars("#");
        std::mem::forget(st);
    }

    // @harness id=C14 tier=quick timeout=900 mem=8 kind=should_panic
    // @bounds progress_chars("a\u{4e16}") (1-column + 2-column cluster) must panic in the builder
    #[kani::proof]
    #[kani::unwind(12)]
    #[kani::should_panic]
    #[kani::stub(std::hash::RandomState::new, stub_rs)]
    fn c14_reject_progress_chars_mixed() {
        let st = base().progress_chars("a\u{4e16}");
        std::mem::forget(st);
    }

    // @harness id=C14 tier=quick timeout=600 mem=6 kind=should_panic
    // @bounds tick_chars with ONE multi-byte character ("\u{2801}", 3 bytes) must panic in the builder (the count is in characters, not bytes)
    #[kani::proof]
    #[kani::unwind(12)]
    #[kani::should_panic]
    #[kani::stub(std::hash::RandomState::new, stub_rs)]
    fn c14_reject_tick_chars_1_multibyte() {
        let st = base().tick_chars("\u{2801}");
        std::mem::forget(st);
    }

    // @harness id=C14 tier=quick timeout=900 mem=8 kind=should_panic
    // @bounds progress_chars with ONE multi-byte character ("\u{2588}") must panic in the builder
    #[kani::proof]
    #[kani::unwind(12)]
    #[kani::should_panic]
    #[kani::stub(std::hash::RandomState::new, stub_rs)]
    fn c14_reject_progress_chars_1_multibyte() {
        let st = base().progress_chars("\u{2588}");
        std::mem::forget(st);
    }
}
