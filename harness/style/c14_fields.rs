// C14 — format_bar index safety at the level of the BarDisplay struct (kept in a file of its own: it reads private fields of
// BarDisplay, so a refactor of that struct breaks only this file's build, not the other C14 harnesses; see kani_run.run_all).
// @file-encodes style::ProgressStyle::format_bar
// @file-assumes as harness/style/c14.rs
#[cfg(kani)]
mod verif_c14_fields {
    use super::verif_rig_style::*;
    use super::*;
    use crate::verif_common::*;

    // format_bar index safety for every accepted progress-char count and every width/fraction (struct level, no rendering loop)
    // @harness id=C14 tier=quick timeout=900 mem=8
    // @bounds progress char count 2..=10 (symbolic), width 0..=65535, fraction: every f32 in [0,1], char_width in {1,2}
    #[kani::proof]
    #[kani::unwind(12)]
    #[kani::stub(std::hash::RandomState::new, stub_rs)]
    #[kani::stub(console::colors_enabled, stub_false)]
    #[kani::stub(console::colors_enabled_stderr, stub_false)]
    fn c14_format_bar_indices() {
        let n: usize = kani::any();
        kani::assume(n >= 2 && n <= 10);
        let cw: usize = kani::any();
        kani::assume(cw == 1 || cw == 2);
        let st = rig_style(Vec::new(), ascii_set(2, 0), ascii_set(n, 0), cw);
        let fract: f32 = kani::any();
        kani::assume(fract >= 0.0 && fract <= 1.0);
        let width: usize = kani::any();
        kani::assume(width <= 65535);
        let d = st.format_bar(fract, width, None);
        if let Some(c) = d.cur {
            assert!(c < n);
        }
        assert!(d.filled <= width / cw);
        kani::cover!(d.cur.is_some() && n == 10);
        kani::cover!(d.cur.is_none() && d.filled > 0);
        std::mem::forget(d);
        std::mem::forget(st);
    }
}
