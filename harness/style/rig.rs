// Shared rig: direct construction of ProgressStyle values.
#[cfg(kani)]
pub(crate) mod verif_rig_style {
    use super::*;

    pub(crate) fn stub_rs() -> std::hash::RandomState {
        unsafe { std::mem::transmute::<[u64; 2], std::hash::RandomState>([1, 2]) }
    }

    pub(crate) fn rig_style(parts: Vec<TemplatePart>, ticks: Vec<Box<str>>, pchars: Vec<Box<str>>, char_width: usize) -> ProgressStyle {
        ProgressStyle {
            tick_strings: ticks,
            progress_chars: pchars,
            template: Template { parts },
            char_width,
            tab_width: DEFAULT_TAB_WIDTH,
            format_map: HashMap::default(),
        }
    }

    pub(crate) fn placeholder(key: &str, align: Alignment, width: Option<u16>, truncate: bool) -> TemplatePart {
        TemplatePart::Placeholder { key: String::from(key), align, width, truncate, style: None, alt_style: None }
    }

    pub(crate) fn literal(s: &'static str) -> TemplatePart {
        TemplatePart::Literal(TabExpandedString::new(s.into(), DEFAULT_TAB_WIDTH))
    }

    /// n boxed one-byte strings "A","B",...
    pub(crate) fn ascii_set(n: usize, first: u8) -> Vec<Box<str>> {
        const T: [&str; 10] = ["A", "B", "C", "D", "E", "F", "G", "H", "I", "J"];
        let mut v: Vec<Box<str>> = Vec::with_capacity(10);
        let mut i = 0;
        while i < n {
            v.push(T[(i + first as usize) % 10].into());
            i += 1;
        }
        v
    }
}
