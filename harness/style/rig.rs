// Shared rig: direct construction of ProgressStyle values.
#[cfg(kani)]
pub(crate) mod verif_rig_style {
    use super::*;

    pub(crate) fn stub_rs() -> std::hash::RandomState {
        unsafe { std::mem::transmute::<[u64; 2], std::hash::RandomState>([1, 2]) }
    }

    pub(crate) fn rig_style(parts: Vec<TemplatePart>, ticks: Vec<Box<str>>, pchars: Vec<Box<str>>, char_width: usize) -> ProgressStyle {
        ProgressStyle {
            tick_strings: ticks,
            progress_chars: pchars,
            template: Template { parts },
            char_width,
            tab_width: DEFAULT_TAB_WIDTH,
            format_map: HashMap::default(),
        }
    }

    pub(crate) fn placeholder(key: &str, align: Alignment, width: Option<u16>, truncate: bool) -> TemplatePart {
        TemplatePart::Placeholder { key: String::from(key), align, width, truncate, style: None, alt_style: None }
    }

    pub(crate) fn literal(s: &'static str) -> TemplatePart {
        TemplatePart::Literal(TabExpandedString::new(s.into(), DEFAULT_TAB_WIDTH))
    }

    /// n boxed one-byte strings "A","B",...
    pub(crate) fn ascii_set(n: usize, first: u8) -> Vec<Box<str>> {
        const T: [&str; 10] = ["A", "B", "C", "D", "E", "F", "G", "H", "I", "J"];
        let mut v: Vec<Box<str>> = Vec::with_capacity(10);
        let mut i = 0;
        while i < n {
            v.push(T[(i + first as usize) % 10].into());
            i += 1;
        }
        v
    }

    /// Template description usable from other modules (TemplatePart itself is private to style.rs).
    #[derive(Clone, Copy)]
    pub(crate) enum RigPart {
        Lit(&'static str),
        Key(&'static str),
        /// key, width, align (0 left, 1 center, 2 right), truncate
        KeyW(&'static str, u16, u8, bool),
        NewLine,
    }

    pub(crate) fn rig_align(a: u8) -> Alignment {
        match a {
            0 => Alignment::Left,
            1 => Alignment::Center,
            _ => Alignment::Right,
        }
    }

    pub(crate) fn rig_parts(spec: &[RigPart]) -> Vec<TemplatePart> {
        let mut v = Vec::with_capacity(8);
        let mut i = 0;
        while i < spec.len() {
            v.push(match spec[i] {
                RigPart::Lit(s) => literal(s),
                RigPart::Key(k) => placeholder(k, Alignment::Left, None, false),
                RigPart::KeyW(k, w, a, t) => placeholder(k, rig_align(a), Some(w), t),
                RigPart::NewLine => TemplatePart::NewLine,
            });
            i += 1;
        }
        v
    }

    /// Style with the given template description, ticks "A".."C" (final "C"), progress chars "#>-".
    pub(crate) fn rig_style_spec(spec: &[RigPart]) -> ProgressStyle {
        let mut pc: Vec<Box<str>> = Vec::with_capacity(4);
        pc.push("#".into());
        pc.push(">".into());
        pc.push("-".into());
        rig_style(rig_parts(spec), ascii_set(3, 0), pc, 1)
    }

    pub(crate) fn rig_style_empty() -> ProgressStyle {
        rig_style(Vec::new(), ascii_set(2, 0), ascii_set(2, 0), 1)
    }

    /// Panicking stand-in for `ProgressStyle::format_state` in harnesses whose bars are hidden: rendering must not be
    /// reached at all there (if it is, the harness fails), and CBMC is spared the formatting machinery.
    pub(crate) fn no_format_state(_s: &ProgressStyle, _st: &ProgressState, _l: &mut Vec<LineType>, _w: u16) {
        panic!("verif: format_state reached although the draw target is hidden")
    }

    // ---- recording stand-in for ProgressStyle::format_state (assume-guarantee): harnesses about WHEN a frame is drawn and
    //      from WHICH state (BarState::{draw,println,finish_using_style,drop}) do not re-execute the template engine (which
    //      costs CBMC > 15 minutes per call even for an unknown key); they record the state format_state is handed and
    //      contribute one bar line. What format_state renders from a state is decided by C10-C13 (and C11, thorough tier).
    pub(crate) static mut FS_CALLS: usize = 0;
    pub(crate) static mut FS_POS: u64 = 0;
    pub(crate) static mut FS_LEN: Option<u64> = None;
    pub(crate) static mut FS_FINISHED: bool = false;
    pub(crate) static mut FS_MSG0: u8 = 0; // first byte of the message (0 = empty)
    pub(crate) static mut FS_MSG_LEN: usize = 0;
    pub(crate) static mut FS_TICK: u64 = 0;
    pub(crate) fn recording_format_state(_s: &ProgressStyle, st: &ProgressState, lines: &mut Vec<LineType>, _w: u16) {
        unsafe {
            FS_CALLS += 1;
            FS_POS = st.pos();
            FS_LEN = st.len();
            FS_FINISHED = st.is_finished();
            // the original text, read without expanding tabs (expanded() allocates a string of symbolic size)
            let m = match &st.message {
                TabExpandedString::NoTabs(s) => s.as_bytes(),
                TabExpandedString::WithTabs { original, .. } => original.as_bytes(),
            };
            FS_MSG0 = if m.is_empty() { 0 } else { m[0] };
            FS_MSG_LEN = m.len();
            FS_TICK = st.tick;
        }
        lines.push(LineType::Bar(String::from("B")));
    }

    /// every tab-carrying template literal of `st` is set to expand with `tw`, and so is the style itself (custom keys)
    pub(crate) fn style_tab_width_is(st: &ProgressStyle, tw: usize) -> bool {
        let mut ok = st.tab_width == tw;
        let mut i = 0;
        while i < 4 {
            if i < st.template.parts.len() {
                if let TemplatePart::Literal(TabExpandedString::WithTabs { tab_width, .. }) = &st.template.parts[i] {
                    ok &= *tab_width == tw;
                }
            }
            i += 1;
        }
        ok
    }

    /// Overwrite the tab width carried by a style and by every tab-carrying literal of its template DIRECTLY (not through the
    /// set_tab_width functions under test): used to build arbitrary pre-states.
    pub(crate) fn style_force_tab_width(st: &mut ProgressStyle, w: usize) {
        st.tab_width = w;
        for p in st.template.parts.iter_mut() {
            if let TemplatePart::Literal(TabExpandedString::WithTabs { tab_width, .. }) = p {
                *tab_width = w;
            }
        }
    }

    /// Overwrite only the width carried by the tab-carrying literals (a style whose literals were re-parsed by `template()` carry
    /// the default width while the style's own field keeps the old one).
    pub(crate) fn style_force_literal_width(st: &mut ProgressStyle, w: usize) {
        for p in st.template.parts.iter_mut() {
            if let TemplatePart::Literal(TabExpandedString::WithTabs { tab_width, .. }) = p {
                *tab_width = w;
            }
        }
    }

    /// one write through the (private) TabRewriter that format_state wraps around custom keys
    pub(crate) fn tab_rewrite(w: &mut dyn fmt::Write, tw: usize, s: &str) -> fmt::Result {
        use std::fmt::Write as _;
        TabRewriter(w, tw).write_str(s)
    }
}
