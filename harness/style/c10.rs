// C10 — template parsing is total and preserves literal text.
// @file-encodes style::Template::from_str_with_tab_width, style::Template::from_str, style::ProgressStyle::format_state (walk order), state::TabExpandedString::new
#[cfg(kani)]
mod verif_c10 {
    use super::verif_rig_style::*;
    use super::*;
    use crate::state::verif_rig_state::*;
    use crate::verif_common::*;

    /// One representative per branch class of the parser's state machine, plus multi-byte characters.
    const NALPHA: usize = 16;
    fn put_letter(bytes: &mut [u8; 24], len: &mut usize, k: usize) {
        const ONE: [u8; 14] = [b'{', b'}', b':', b'!', b'.', b'/', b'<', b'^', b'>', b'0', b'9', b'a', b' ', b'\n'];
        if k < 14 {
            bytes[*len] = ONE[k];
            *len += 1;
        } else if k == 14 {
            bytes[*len] = 0xC3;
            bytes[*len + 1] = 0xA9;
            *len += 2;
        } else {
            bytes[*len] = 0xE4;
            bytes[*len + 1] = 0xB8;
            bytes[*len + 2] = 0x96;
            *len += 3;
        }
    }

    /// prefix (concrete) followed by `m <= k` symbolic letters; returns whether parsing succeeded
    fn total(prefix: &[u8], k: usize, style_chars: bool) -> bool {
        let mut bytes = [0u8; 24];
        let mut len = 0;
        let mut i = 0;
        while i < prefix.len() {
            bytes[len] = prefix[i];
            len += 1;
            i += 1;
        }
        let m: usize = kani::any();
        kani::assume(m <= k);
        let mut i = 0;
        while i < m {
            let a: usize = kani::any();
            kani::assume(a < NALPHA);
            if !style_chars {
                // '.' and '/' create console::Style values (BTreeSet drop glue); covered by the grammar harnesses
                kani::assume(a != 4 && a != 5);
            }
            put_letter(&mut bytes, &mut len, a);
            i += 1;
        }
        let s = unsafe { std::str::from_utf8_unchecked(&bytes[..len]) };
        let r = Template::from_str_with_tab_width(s, 8);
        let ok = r.is_ok();
        std::mem::forget(r);
        ok
    }

    /// Totality by transitions: a concrete prefix drives the parser into one of its states (with the buffer empty,
    /// non-empty or holding an over-long number), then ONE symbolic character over the whole `char` range is consumed,
    /// then a concrete suffix. Every panic site of the parser sits in the code executed for one (state, character)
    /// pair, so covering every state with an arbitrary next character covers every transition of the machine.
    fn one_step(prefix: &str, suffix: &str) -> bool {
        // stack buffer of concrete length: the trip count of the parser loop stays concrete
        let mut bytes = [0u8; 40];
        let mut len = 0;
        let pb = prefix.as_bytes();
        let mut i = 0;
        while i < pb.len() {
            bytes[len] = pb[i];
            len += 1;
            i += 1;
        }
        let c: u8 = kani::any();
        kani::assume(c < 0x80);
        bytes[len] = c;
        len += 1;
        let sb = suffix.as_bytes();
        let mut i = 0;
        while i < sb.len() {
            bytes[len] = sb[i];
            len += 1;
            i += 1;
        }
        let s = unsafe { std::str::from_utf8_unchecked(&bytes[..len]) };
        let r = Template::from_str_with_tab_width(s, 8);
        let ok = r.is_ok();
        std::mem::forget(r);
        ok
    }

    // @harness id=C10 tier=quick timeout=1200 mem=10
    // @bounds prefix '' + one symbolic ASCII character (all 128) + suffix '': no panic (Ok or Err)
    #[kani::proof]
    #[kani::unwind(12)]
    //@STUBS std
    fn c10_total_literal_empty() {
        let ok = one_step("", "");
        kani::cover!(ok || !ok);
    }

    // @harness id=C10 tier=deep timeout=3400 mem=20
    // @bounds prefix 'x' + one symbolic ASCII character (all 128) + suffix '': no panic (Ok or Err)
    #[kani::proof]
    #[kani::unwind(12)]
    //@STUBS std
    fn c10_total_literal_text() {
        let ok = one_step("x", "");
        kani::cover!(ok || !ok);
    }

    // @harness id=C10 tier=deep timeout=3400 mem=20
    // @bounds prefix '{' + one symbolic ASCII character (all 128) + suffix '}': no panic (Ok or Err)
    #[kani::proof]
    #[kani::unwind(12)]
    //@STUBS std
    fn c10_total_maybe_open() {
        let ok = one_step("{", "}");
        kani::cover!(ok || !ok);
    }

    // @harness id=C10 tier=deep timeout=3400 mem=20
    // @bounds prefix 'x{' + one symbolic ASCII character (all 128) + suffix '}': no panic (Ok or Err)
    #[kani::proof]
    #[kani::unwind(12)]
    //@STUBS std
    fn c10_total_maybe_open_after_text() {
        let ok = one_step("x{", "}");
        kani::cover!(ok || !ok);
    }

    // @harness id=C10 tier=quick timeout=1200 mem=10
    // @bounds prefix '}' + one symbolic ASCII character (all 128) + suffix '': no panic (Ok or Err)
    #[kani::proof]
    #[kani::unwind(12)]
    //@STUBS std
    fn c10_total_double_close() {
        let ok = one_step("}", "");
        kani::cover!(ok || !ok);
    }

    // @harness id=C10 tier=deep timeout=3400 mem=20
    // @bounds prefix 'x}' + one symbolic ASCII character (all 128) + suffix 'y': no panic (Ok or Err)
    #[kani::proof]
    #[kani::unwind(12)]
    //@STUBS std
    fn c10_total_double_close_after_text() {
        let ok = one_step("x}", "y");
        kani::cover!(ok || !ok);
    }

    // @harness id=C10 tier=deep timeout=3400 mem=20
    // @bounds prefix '{a' + one symbolic ASCII character (all 128) + suffix '}': no panic (Ok or Err)
    #[kani::proof]
    #[kani::unwind(12)]
    //@STUBS std
    fn c10_total_key() {
        let ok = one_step("{a", "}");
        kani::cover!(ok || !ok);
    }

    // @harness id=C10 tier=deep timeout=3400 mem=20
    // @bounds prefix 'x{a' + one symbolic ASCII character (all 128) + suffix '}y': no panic (Ok or Err)
    #[kani::proof]
    #[kani::unwind(12)]
    //@STUBS std
    fn c10_total_key_after_text() {
        let ok = one_step("x{a", "}y");
        kani::cover!(ok || !ok);
    }

    // @harness id=C10 tier=deep timeout=3400 mem=20
    // @bounds prefix '{a:' + one symbolic ASCII character (all 128) + suffix '}': no panic (Ok or Err)
    #[kani::proof]
    #[kani::unwind(12)]
    //@STUBS std
    fn c10_total_align() {
        let ok = one_step("{a:", "}");
        kani::cover!(ok || !ok);
    }

    // @harness id=C10 tier=deep timeout=3400 mem=20
    // @bounds prefix '{a:9' + one symbolic ASCII character (all 128) + suffix '}': no panic (Ok or Err)
    #[kani::proof]
    #[kani::unwind(12)]
    //@STUBS std
    fn c10_total_width_digit() {
        let ok = one_step("{a:9", "}");
        kani::cover!(ok || !ok);
    }

    // @harness id=C10 tier=deep timeout=3400 mem=20
    // @bounds prefix '{a:<' + one symbolic ASCII character (all 128) + suffix '}': no panic (Ok or Err)
    #[kani::proof]
    #[kani::unwind(12)]
    //@STUBS std
    fn c10_total_width_after_align() {
        let ok = one_step("{a:<", "}");
        kani::cover!(ok || !ok);
    }

    // @harness id=C10 tier=deep timeout=3400 mem=20
    // @bounds prefix '{a:99999' + one symbolic ASCII character (all 128) + suffix '}': no panic (Ok or Err)
    #[kani::proof]
    #[kani::unwind(12)]
    //@STUBS std
    fn c10_total_width_overflowing() {
        let ok = one_step("{a:99999", "}");
        kani::cover!(ok || !ok);
    }

    // @harness id=C10 tier=deep timeout=3400 mem=20
    // @bounds prefix '{a!' + one symbolic ASCII character (all 128) + suffix '}': no panic (Ok or Err)
    #[kani::proof]
    #[kani::unwind(12)]
    //@STUBS std
    fn c10_total_width_after_bang() {
        let ok = one_step("{a!", "}");
        kani::cover!(ok || !ok);
    }

    // @harness id=C10 tier=deep timeout=3400 mem=20
    // @bounds prefix '{a:.' + one symbolic ASCII character (all 128) + suffix '}': no panic (Ok or Err)
    #[kani::proof]
    #[kani::unwind(12)]
    //@STUBS std
    fn c10_total_first_style_empty() {
        let ok = one_step("{a:.", "}");
        kani::cover!(ok || !ok);
    }

    // @harness id=C10 tier=deep timeout=3400 mem=20
    // @bounds prefix '{a:.r' + one symbolic ASCII character (all 128) + suffix '}': no panic (Ok or Err)
    #[kani::proof]
    #[kani::unwind(12)]
    //@STUBS std
    fn c10_total_first_style() {
        let ok = one_step("{a:.r", "}");
        kani::cover!(ok || !ok);
    }

    // @harness id=C10 tier=deep timeout=3400 mem=20
    // @bounds prefix '{a:.r/' + one symbolic ASCII character (all 128) + suffix '}': no panic (Ok or Err)
    #[kani::proof]
    #[kani::unwind(12)]
    //@STUBS std
    fn c10_total_alt_style_empty() {
        let ok = one_step("{a:.r/", "}");
        kani::cover!(ok || !ok);
    }

    // @harness id=C10 tier=deep timeout=3400 mem=20
    // @bounds prefix '{a:.r/b' + one symbolic ASCII character (all 128) + suffix '}': no panic (Ok or Err)
    #[kani::proof]
    #[kani::unwind(12)]
    //@STUBS std
    fn c10_total_alt_style() {
        let ok = one_step("{a:.r/b", "}");
        kani::cover!(ok || !ok);
    }

    // @harness id=C10 tier=deep timeout=3400 mem=20
    // @bounds prefix '{a' + one symbolic ASCII character (all 128) + suffix '': no panic (Ok or Err)
    #[kani::proof]
    #[kani::unwind(12)]
    //@STUBS std
    fn c10_total_key_unclosed() {
        let ok = one_step("{a", "");
        kani::cover!(ok || !ok);
    }

    // @harness id=C10 tier=deep timeout=3400 mem=20
    // @bounds prefix '{a:9' + one symbolic ASCII character (all 128) + suffix '': no panic (Ok or Err)
    #[kani::proof]
    #[kani::unwind(12)]
    //@STUBS std
    fn c10_total_width_unclosed() {
        let ok = one_step("{a:9", "");
        kani::cover!(ok || !ok);
    }

    // @harness id=C10 tier=deep timeout=3400 mem=20
    // @bounds prefix '{a:4294967296' + one symbolic ASCII character (all 128) + suffix '}': no panic (Ok or Err)
    #[kani::proof]
    #[kani::unwind(18)]
    //@STUBS std
    fn c10_total_width_10_digits() {
        let ok = one_step("{a:4294967296", "}");
        kani::cover!(ok || !ok);
    }

    // @harness id=C10 tier=deep timeout=3400 mem=20
    // @bounds prefix '{a:99999999999999999999' + one symbolic ASCII character (all 128) + suffix '}': no panic (Ok or Err)
    #[kani::proof]
    #[kani::unwind(28)]
    //@STUBS std
    fn c10_total_width_20_digits() {
        let ok = one_step("{a:99999999999999999999", "}");
        kani::cover!(ok || !ok);
    }

    // ---- widths up to and beyond u16::MAX: "{a:" + 1..=6 symbolic digits + "}" must yield Ok (value fits) or Err, never panic
    // @harness id=C10 tier=deep timeout=3400 mem=20
    // @bounds "{a:" + d digits (d in 1..=6, each 0..=9 symbolic) + "}": no panic; Ok iff the value fits into u16, and then the parsed width equals the value
    #[kani::proof]
    #[kani::unwind(12)]
    //@STUBS std
    fn c10_width_digits() {
        let mut bytes = [0u8; 24];
        bytes[0] = b'{';
        bytes[1] = b'a';
        bytes[2] = b':';
        let d: usize = kani::any();
        kani::assume(d >= 1 && d <= 6);
        let mut val: u32 = 0;
        let mut i = 0;
        while i < d {
            let x: u8 = kani::any();
            kani::assume(x <= 9);
            bytes[3 + i] = b'0' + x;
            val = val * 10 + x as u32;
            i += 1;
        }
        bytes[3 + d] = b'}';
        let s = unsafe { std::str::from_utf8_unchecked(&bytes[..4 + d]) };
        let r = Template::from_str_with_tab_width(s, 8);
        match &r {
            Ok(t) => {
                assert!(val <= u16::MAX as u32);
                assert!(t.parts.len() == 1);
                match &t.parts[0] {
                    TemplatePart::Placeholder { width, key, .. } => {
                        assert!(*width == Some(val as u16));
                        assert!(key.len() == 1 && key.as_bytes()[0] == b'a');
                    }
                    _ => assert!(false),
                }
            }
            Err(_) => assert!(val > u16::MAX as u32),
        }
        kani::cover!(val == 65535);
        kani::cover!(val == 65536);
        kani::cover!(val == 999999);
        std::mem::forget(r);
    }

    // ---- fidelity: literals adjacent to braces, "{ " standing for itself, escapes ----
    fn lit_eq(p: &TemplatePart, want: &[u8]) -> bool {
        match p {
            TemplatePart::Literal(s) => {
                let b = s.expanded().as_bytes();
                if b.len() != want.len() {
                    return false;
                }
                let mut i = 0;
                while i < b.len() {
                    if b[i] != want[i] {
                        return false;
                    }
                    i += 1;
                }
                true
            }
            _ => false,
        }
    }

    /// concatenation of all literal parts (placeholders contribute nothing) compared with `want`
    fn literal_concat_eq(t: &Template, want: &[u8]) -> bool {
        let mut pos = 0;
        let mut i = 0;
        while i < t.parts.len() {
            match &t.parts[i] {
                TemplatePart::Literal(s) => {
                    let b = s.expanded().as_bytes();
                    let mut j = 0;
                    while j < b.len() {
                        if pos >= want.len() || want[pos] != b[j] {
                            return false;
                        }
                        pos += 1;
                        j += 1;
                    }
                }
                TemplatePart::NewLine => {
                    if pos >= want.len() || want[pos] != b'\n' {
                        return false;
                    }
                    pos += 1;
                }
                _ => {}
            }
            i += 1;
        }
        pos == want.len()
    }

    // @harness id=C10 tier=deep timeout=3400 mem=20
    // @bounds lit1 + "{" + ws + lit2 with lit1, lit2 in 0..=2 symbolic letters from {x, y, '"', ','} and ws in {space, tab, newline, carriage return}: the brace stands for itself and the literal text is preserved in order
    #[kani::proof]
    #[kani::unwind(12)]
    //@STUBS std
    fn c10_open_brace_whitespace_literal() {
        const L: [u8; 4] = [b'x', b'y', b'"', b','];
        let mut bytes = [0u8; 24];
        let mut len = 0;
        let n1: usize = kani::any();
        let n2: usize = kani::any();
        kani::assume(n1 <= 2 && n2 <= 2);
        let mut i = 0;
        while i < n1 {
            let a: usize = kani::any();
            kani::assume(a < 4);
            bytes[len] = L[a];
            len += 1;
            i += 1;
        }
        bytes[len] = b'{';
        len += 1;
        let ws: u8 = kani::any();
        kani::assume(ws < 4);
        bytes[len] = [b' ', b'\t', b'\n', b'\r'][ws as usize];
        len += 1;
        let mut i = 0;
        while i < n2 {
            let a: usize = kani::any();
            kani::assume(a < 4);
            bytes[len] = L[a];
            len += 1;
            i += 1;
        }
        let s = unsafe { std::str::from_utf8_unchecked(&bytes[..len]) };
        let r = Template::from_str_with_tab_width(s, 8);
        assert!(r.is_ok());
        let t = r.unwrap();
        // no placeholder, and the literal parts concatenate to the input itself
        assert!(literal_concat_eq(&t, &bytes[..len]));
        kani::cover!(n1 == 2 && n2 == 2 && ws == 2);
        kani::cover!(n1 == 0 && ws == 1);
        std::mem::forget(t);
    }

    // @harness id=C10 tier=deep timeout=3400 mem=20
    // @bounds lit1 + "{k" + [":" + align? + width digit? + "!"?] + "}" + lit2, lit1/lit2 in 0..=2 letters from {x, "{{", "}}", newline}: parts = literal(lit1 unescaped), placeholder(k, align, width, truncate), literal(lit2 unescaped) in this order
    #[kani::proof]
    #[kani::unwind(12)]
    //@STUBS std
    fn c10_grammar_placeholder() {
        let mut bytes = [0u8; 24];
        let mut want = [0u8; 24]; // expected literal text (unescaped), placeholders removed
        let mut len = 0;
        let mut wl = 0;
        let n1: usize = kani::any();
        let n2: usize = kani::any();
        kani::assume(n1 <= 2 && n2 <= 2);
        let mut i = 0;
        while i < n1 {
            let a: u8 = kani::any();
            kani::assume(a < 4);
            match a {
                0 => {
                    bytes[len] = b'x';
                    len += 1;
                    want[wl] = b'x';
                    wl += 1;
                }
                1 => {
                    bytes[len] = b'{';
                    bytes[len + 1] = b'{';
                    len += 2;
                    want[wl] = b'{';
                    wl += 1;
                }
                2 => {
                    bytes[len] = b'}';
                    bytes[len + 1] = b'}';
                    len += 2;
                    want[wl] = b'}';
                    wl += 1;
                }
                _ => {
                    bytes[len] = b'\n';
                    len += 1;
                    want[wl] = b'\n';
                    wl += 1;
                }
            }
            i += 1;
        }
        let lit1_len = wl;
        bytes[len] = b'{';
        bytes[len + 1] = b'k';
        len += 2;
        let spec: bool = kani::any();
        let al: u8 = kani::any();
        kani::assume(al < 4);
        let has_w: bool = kani::any();
        let wd: u8 = kani::any();
        kani::assume(wd <= 9);
        let tr: bool = kani::any();
        if spec {
            bytes[len] = b':';
            len += 1;
            if al < 3 {
                bytes[len] = [b'<', b'^', b'>'][al as usize];
                len += 1;
            }
            if has_w {
                bytes[len] = b'0' + wd;
                len += 1;
            }
            if tr {
                bytes[len] = b'!';
                len += 1;
            }
        }
        bytes[len] = b'}';
        len += 1;
        let mut i = 0;
        while i < n2 {
            let a: u8 = kani::any();
            kani::assume(a < 2);
            if a == 0 {
                bytes[len] = b'y';
                len += 1;
                want[wl] = b'y';
                wl += 1;
            } else {
                bytes[len] = b'\n';
                len += 1;
                want[wl] = b'\n';
                wl += 1;
            }
            i += 1;
        }
        let s = unsafe { std::str::from_utf8_unchecked(&bytes[..len]) };
        let r = Template::from_str_with_tab_width(s, 8);
        assert!(r.is_ok());
        let t = r.unwrap();
        assert!(literal_concat_eq(&t, &want[..wl]));
        // exactly one placeholder, located after the parts that make up lit1
        let mut seen = 0;
        let mut before = 0; // literal bytes before the placeholder
        let mut nph = 0;
        let mut i = 0;
        while i < t.parts.len() {
            match &t.parts[i] {
                TemplatePart::Literal(x) => seen += x.expanded().len(),
                TemplatePart::NewLine => seen += 1,
                TemplatePart::Placeholder { key, align, width, truncate, style, alt_style } => {
                    nph += 1;
                    before = seen;
                    assert!(key.len() == 1 && key.as_bytes()[0] == b'k');
                    let want_align = if spec && al == 1 {
                        Alignment::Center
                    } else if spec && al == 2 {
                        Alignment::Right
                    } else {
                        Alignment::Left
                    };
                    assert!(*align == want_align);
                    assert!(*width == if spec && has_w { Some(wd as u16) } else { None });
                    assert!(*truncate == (spec && tr));
                    assert!(style.is_none() && alt_style.is_none());
                }
            }
            i += 1;
        }
        assert!(nph == 1);
        assert!(before == lit1_len);
        kani::cover!(spec && al == 1 && has_w && tr && n1 == 2 && n2 == 2);
        kani::cover!(!spec && n1 == 0 && n2 == 0);
        std::mem::forget(t);
    }

    // ---- fidelity on templates of CONCRETE shape (the trip count of the parser loop and every string length stay concrete;
    //      only the interesting characters are symbolic). Literal text is read from the parts directly (no expanded()).
    fn lit_bytes(t: &TabExpandedString) -> &[u8] {
        match t {
            TabExpandedString::NoTabs(s) => s.as_bytes(),
            TabExpandedString::WithTabs { original, .. } => original.as_bytes(),
        }
    }
    fn bytes_are(a: &[u8], want: &[u8]) -> bool {
        if a.len() != want.len() {
            return false;
        }
        let mut ok = true;
        let mut i = 0;
        while i < 6 {
            if i < want.len() {
                ok &= a[i] == want[i];
            }
            i += 1;
        }
        ok
    }

    fn check_brace_ws(ws: u8) {
        let bytes = [b'x', b'{', ws, b'y'];
        let s = unsafe { std::str::from_utf8_unchecked(&bytes) };
        let r = Template::from_str_with_tab_width(s, 8);
        assert!(r.is_ok());
        let t = r.unwrap();
        assert!(t.parts.len() == 2);
        match (&t.parts[0], &t.parts[1]) {
            (TemplatePart::Literal(a), TemplatePart::Literal(b)) => {
                assert!(bytes_are(lit_bytes(a), &[b'x', b'{', ws]));
                assert!(bytes_are(lit_bytes(b), &[b'y']));
            }
            _ => assert!(false),
        }
        std::mem::forget(t);
    }

    // One harness per whitespace character: a SYMBOLIC character pushed into a String gives the string a symbolic length
    // (UTF-8 encoding), and every later string operation then explodes under CBMC (> 25 min for this 4-character template).
    // @harness id=C10 tier=quick timeout=1800 mem=12
    // @bounds "x{ y" (space): Ok, no placeholder, two literal parts "x{ " and "y" (the brace stands for itself, the text before it stays before it)
    #[kani::proof]
    #[kani::unwind(8)]
    //@STUBS std
    fn c10_fidelity_brace_space() {
        check_brace_ws(b' ');
    }

    // @harness id=C10 tier=quick timeout=1800 mem=12
    // @bounds "x{<TAB>y": as above with a tab
    #[kani::proof]
    #[kani::unwind(8)]
    //@STUBS std
    fn c10_fidelity_brace_tab() {
        check_brace_ws(b'\t');
    }

    // @harness id=C10 tier=quick timeout=1800 mem=12
    // @bounds "x{<CR>y": as above with a carriage return
    #[kani::proof]
    #[kani::unwind(8)]
    //@STUBS std
    fn c10_fidelity_brace_cr() {
        check_brace_ws(b'\r');
    }

    // @harness id=C10 tier=quick timeout=1800 mem=12
    // @bounds "{{a}}b": Ok, one literal part "{a}b" (escapes stand for single braces)
    #[kani::proof]
    #[kani::unwind(8)]
    //@STUBS std
    fn c10_fidelity_escapes() {
        let r = Template::from_str_with_tab_width("{{a}}b", 8);
        assert!(r.is_ok());
        let t = r.unwrap();
        assert!(t.parts.len() == 1);
        match &t.parts[0] {
            TemplatePart::Literal(a) => assert!(bytes_are(lit_bytes(a), b"{a}b")),
            _ => assert!(false),
        }
        std::mem::forget(t);
    }

    fn check_placeholder(a: u8, d: u8) {
        let bytes = [b'a', b'{', b'k', b':', [b'<', b'^', b'>'][a as usize], b'0' + d, b'!', b'}', b'\n', b'b'];
        let s = unsafe { std::str::from_utf8_unchecked(&bytes) };
        let r = Template::from_str_with_tab_width(s, 8);
        assert!(r.is_ok());
        let t = r.unwrap();
        assert!(t.parts.len() == 4);
        match &t.parts[0] {
            TemplatePart::Literal(x) => assert!(bytes_are(lit_bytes(x), b"a")),
            _ => assert!(false),
        }
        match &t.parts[1] {
            TemplatePart::Placeholder { key, align, width, truncate, style, alt_style } => {
                assert!(bytes_are(key.as_bytes(), b"k"));
                assert!(matches!((a, align), (0, Alignment::Left) | (1, Alignment::Center) | (2, Alignment::Right)));
                assert!(*width == Some(d as u16) && *truncate && style.is_none() && alt_style.is_none());
            }
            _ => assert!(false),
        }
        assert!(matches!(&t.parts[2], TemplatePart::NewLine));
        match &t.parts[3] {
            TemplatePart::Literal(x) => assert!(bytes_are(lit_bytes(x), b"b")),
            _ => assert!(false),
        }
        std::mem::forget(t);
    }

    // @harness id=C10 tier=deep timeout=3000 mem=28
    // @bounds "a{k:>7!}<NL>b": parts = Literal a, Placeholder(k, Right, width 7, truncate), NewLine, Literal b, in this order
    #[kani::proof]
    #[kani::unwind(12)]
    //@STUBS std
    fn c10_fidelity_placeholder_right() {
        check_placeholder(2, 7);
    }

    // @harness id=C10 tier=deep timeout=3000 mem=28
    // @bounds "a{k:^0!}<NL>b": parts = Literal a, Placeholder(k, Center, width 0, truncate), NewLine, Literal b
    #[kani::proof]
    #[kani::unwind(12)]
    //@STUBS std
    fn c10_fidelity_placeholder_center() {
        check_placeholder(1, 0);
    }
}
