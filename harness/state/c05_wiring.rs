// C05 (wiring part, engine K): ordinary draws consult the limiter, forced draws do not, and skipped draws lose nothing.
// The two token buckets themselves are decided by engine M from their MIR (engine/props/C05.py).
// @file-encodes state::BarState::draw, state::BarState::tick, state::BarState::update_estimate_and_draw, state::BarState::set_length, draw_target::ProgressDrawTarget::drawable, draw_target::Drawable::state, draw_target::Drawable::draw
// @file-assumes RateLimiter::allow is replaced by a harness-controlled verdict (its law is engine M's subject); BarState built directly; ProgressStyle::format_state replaced by a recorder of the state it is handed; DrawState::draw_to_term by its contract
#[cfg(kani)]
mod verif_c05_wiring {
    use super::verif_rig_state::*;
    use super::*;
    use crate::draw_target::verif_rig_dt::*;
    use crate::style::verif_rig_style::*;
    use crate::verif_common::*;

    /// `forced` is concrete per harness: with a symbolic flag the limiter verdict written before the last draw is symbolic too and
    /// CBMC explores the refused and the admitted draw behind symbolic pointers (out of memory at 24 GB)
    fn scenario(forced: bool) {
        unsafe {
            SLEN = 0;
            DRAWS = 0;
            LOG_FLOOR = 0;
            FS_CALLS = 0;
            RL_VERDICT = false;
        }
        let now = mk_instant(1_000_000, 0);
        let mut ps = rig_pstate(1, Some(2), 0, 0);
        ps.message = TabExpandedString::NoTabs("m0".into());
        let mut bs = rig_bar(ps, rig_style_empty(), null_target(16, 8, 0), ProgressFinish::AndLeave);
        assert!(bs.draw(false, now).is_ok());
        assert!(unsafe { DRAWS } == 0);
        // one estimator update with a symbolic position (each one costs CBMC a u64 -> f64 division chain)
        let p2: u64 = kani::any();
        let l2: u64 = kani::any();
        bs.state.set_pos(p2);
        bs.set_length(now, l2);
        bs.state.message = TabExpandedString::NoTabs("ab".into());
        bs.update_estimate_and_draw(now);
        assert!(unsafe { DRAWS } == 0 && unsafe { FS_CALLS } == 0);
        if !forced {
            unsafe {
                RL_VERDICT = true;
            }
        }
        assert!(bs.draw(forced, now).is_ok());
        unsafe {
            assert!(DRAWS == 1 && FS_CALLS == 1);
            assert!(FS_POS == p2 && FS_LEN == Some(l2));
            assert!(FS_MSG0 == b'a');
        }
        kani::cover!(p2 == u64::MAX);
        std::mem::forget(bs);
    }

    // @harness id=C05 tier=quick timeout=1800 mem=16 checks=rust
    // @bounds limiter refusing: ordinary draws reach nothing while position (u64), length (u64) and message are updated; then one FORCED draw under the still refusing limiter: exactly one frame, rendered from the LATEST position, length and message
    #[kani::proof]
    #[kani::unwind(6)]
    //@STUBS std now widthascii noterm nomulti rlctl noweight fsrecord dttcontract
    fn c05_forced_draw_bypasses_the_limiter() {
        scenario(true);
    }

    // @harness id=C05 tier=quick timeout=1800 mem=16 checks=rust
    // @bounds as above, then the limiter admits one ORDINARY draw: exactly one frame, rendered from the latest state (skipped draws lose nothing)
    #[kani::proof]
    #[kani::unwind(6)]
    //@STUBS std now widthascii noterm nomulti rlctl noweight fsrecord dttcontract
    fn c05_skipped_draws_lose_nothing() {
        scenario(false);
    }
}
