// C05 (wiring part, engine K): ordinary draws consult the limiter, forced draws do not, and skipped draws lose nothing.
// The two token buckets themselves are decided by engine M from their MIR (engine/props/C05.py).
// @file-encodes state::BarState::draw, state::BarState::tick, state::BarState::update_estimate_and_draw, draw_target::ProgressDrawTarget::drawable, draw_target::Drawable::state, draw_target::Drawable::draw, style::ProgressStyle::format_state
// @file-assumes RateLimiter::allow is replaced by a harness-controlled verdict (its law is engine M's subject); BarState built directly over the abstract screen; template "{pos}/{len} {msg}", values < 100
#[cfg(kani)]
mod verif_c05_wiring {
    use super::verif_rig_state::*;
    use super::*;
    use crate::draw_target::verif_rig_dt::RL_VERDICT;
    use crate::draw_target::verif_scr::*;
    use crate::style::verif_rig_style::*;
    use crate::verif_common::*;

    struct Exp {
        b: [u8; 16],
        n: usize,
    }
    fn put_num(e: &mut Exp, v: u64) {
        if v >= 10 {
            e.b[e.n] = b'0' + (v / 10) as u8;
            e.n += 1;
        }
        e.b[e.n] = b'0' + (v % 10) as u8;
        e.n += 1;
    }

    // @harness id=C05 tier=quick timeout=3000 mem=12
    // @bounds limiter refusing: an ordinary draw reaches no terminal call, a forced draw does; then two updates (position, length, message from a table) under a refusing limiter followed by one admitted ordinary draw: the painted frame shows the LATEST position, length and message
    #[kani::proof]
    #[kani::unwind(13)]
    //@STUBS std now widthascii repeat noterm nomulti rlctl noweight
    fn c05_skipped_draws_lose_nothing() {
        let scr = leak_scr(16, 4);
        scr_with_frame(scr, 2, 0);
        let now = mk_instant(1_000_000, 0);
        let spec = [RigPart::Key("pos"), RigPart::Lit("/"), RigPart::Key("len"), RigPart::Lit(" "), RigPart::Key("msg")];
        let mut ps = rig_pstate(1, Some(2), 0, 0);
        ps.message = TabExpandedString::NoTabs("m0".into());
        let mut bs = rig_bar(ps, rig_style_spec(&spec), scr_target_limited(scr, 20, 0, now, 0), ProgressFinish::AndLeave);
        unsafe {
            RL_VERDICT = false;
        }
        // refused: nothing reaches the terminal
        assert!(bs.draw(false, now).is_ok());
        assert!(scr.calls.get() == 0);
        // two skipped updates
        let p1: u64 = kani::any();
        let p2: u64 = kani::any();
        let l2: u64 = kani::any();
        kani::assume(p1 < 100 && p2 < 100 && l2 < 100);
        bs.state.set_pos(p1);
        bs.tick(now);
        bs.state.set_pos(p2);
        bs.set_length(now, l2);
        let which: bool = kani::any();
        bs.state.message = TabExpandedString::new(if which { "ab".into() } else { "cd".into() }, bs.tab_width);
        bs.update_estimate_and_draw(now);
        assert!(scr.calls.get() == 0);
        // forced draws bypass the limiter
        let forced: bool = kani::any();
        if !forced {
            unsafe {
                RL_VERDICT = true;
            }
        }
        scr.capture.set(true);
        assert!(bs.draw(forced, now).is_ok());
        let mut e = Exp { b: [0; 16], n: 0 };
        put_num(&mut e, p2);
        e.b[e.n] = b'/';
        e.n += 1;
        put_num(&mut e, l2);
        e.b[e.n] = b' ';
        e.n += 1;
        e.b[e.n] = if which { b'a' } else { b'c' };
        e.b[e.n + 1] = if which { b'b' } else { b'd' };
        e.n += 2;
        assert!(scr.flushes.get() == 1);
        assert!(scr.cap_is(&e.b, e.n));
        kani::cover!(forced);
        kani::cover!(!forced && p2 == 99);
        std::mem::forget(bs);
    }
}
