// C11 — custom keys are ticked and reset together with the bar.
// @file-encodes state::BarState::update_estimate_and_draw (tracker tick), state::BarState::tick, state::BarState::set_length, state::BarState::inc_length, state::BarState::dec_length, state::BarState::unset_length, state::BarState::reset (tracker reset)
// @file-assumes hidden BarState (rig) whose style carries one custom key (a counting ProgressTracker registered with with_key); format_state is never reached (hidden); the message/prefix setters are performed as ProgressBar does (assignment + update_estimate_and_draw)
#[cfg(kani)]
mod verif_c11_trackers {
    use super::verif_rig_state::*;
    use super::*;
    use crate::style::verif_rig_style::*;
    use crate::style::ProgressTracker;
    use crate::verif_common::*;

    static mut TICKS: u64 = 0;
    static mut RESETS: u64 = 0;
    static mut SEEN_POS: u64 = 0;
    static mut SEEN_LEN: Option<u64> = None;

    #[derive(Clone)]
    struct Probe;
    impl ProgressTracker for Probe {
        fn clone_box(&self) -> Box<dyn ProgressTracker> {
            Box::new(Probe)
        }
        fn tick(&mut self, state: &ProgressState, _now: Instant) {
            unsafe {
                TICKS += 1;
                SEEN_POS = state.pos();
                SEEN_LEN = state.len();
            }
        }
        fn reset(&mut self, _state: &ProgressState, _now: Instant) {
            unsafe {
                RESETS += 1;
            }
        }
        fn write(&self, _state: &ProgressState, _w: &mut dyn std::fmt::Write) {}
    }

    /// the operation is CONCRETE per harness (a symbolic choice among operations makes CBMC explore all of them behind
    /// symbolic pointers and run out of memory); position and argument are symbolic
    fn one_op(op: u8) {
        let pos: u64 = kani::any();
        let now = mk_instant(1_000_000, 0);
        let style = rig_style_empty().with_key("probe", Probe);
        let mut bs = rig_bar(rig_pstate(pos, Some(5), 0, 0), style, ProgressDrawTarget::hidden(), ProgressFinish::AndLeave);
        let arg: u64 = kani::any();
        let mut want_len = Some(5u64);
        match op {
            0 => bs.tick(now),
            1 => {
                bs.set_length(now, arg);
                want_len = Some(arg);
            }
            2 => {
                bs.inc_length(now, arg);
                want_len = Some(5u64.saturating_add(arg));
            }
            3 => {
                bs.dec_length(now, arg);
                want_len = Some(5u64.saturating_sub(arg));
            }
            4 => {
                bs.unset_length(now);
                want_len = None;
            }
            5 => {
                bs.state.message = TabExpandedString::NoTabs("m".into());
                bs.update_estimate_and_draw(now);
            }
            _ => {
                bs.reset(now, Reset::All);
            }
        }
        unsafe {
            if op == 6 {
                assert!(RESETS == 1);
            } else {
                assert!(TICKS == 1 && RESETS == 0);
                assert!(SEEN_POS == pos && SEEN_LEN == want_len);
            }
        }
        kani::cover!(pos == u64::MAX);
        std::mem::forget(bs);
    }

    macro_rules! c11_tracker {
        ($name:ident, $op:expr) => {
            #[kani::proof]
            #[kani::unwind(8)]
            //@STUBS std now noterm nomulti norender rlany noweight
            fn $name() {
                one_op($op);
            }
        };
    }

    // @harness id=C11 tier=deep timeout=3400 mem=28 checks=rust
    // @bounds tick() on a hidden bar with a custom key (position over u64): the tracker is ticked exactly once and sees the current state
    c11_tracker!(c11_tracker_ticked_on_tick, 0);
    // @harness id=C11 tier=deep timeout=3400 mem=28 checks=rust
    // @bounds set_length(any u64): the tracker is ticked exactly once and sees the NEW length
    c11_tracker!(c11_tracker_ticked_on_set_length, 1);
    // @harness id=C11 tier=deep timeout=3400 mem=28 checks=rust
    // @bounds inc_length(any u64): ticked once, sees the saturated new length
    c11_tracker!(c11_tracker_ticked_on_inc_length, 2);
    // @harness id=C11 tier=deep timeout=3400 mem=28 checks=rust
    // @bounds dec_length(any u64): ticked once, sees the saturated new length
    c11_tracker!(c11_tracker_ticked_on_dec_length, 3);
    // @harness id=C11 tier=deep timeout=3400 mem=28 checks=rust
    // @bounds unset_length(): ticked once, sees an unknown length
    c11_tracker!(c11_tracker_ticked_on_unset_length, 4);
    // @harness id=C11 tier=deep timeout=3400 mem=28 checks=rust
    // @bounds set_message (assignment + update_estimate_and_draw, as ProgressBar performs it): ticked once
    c11_tracker!(c11_tracker_ticked_on_set_message, 5);
    // @harness id=C11 tier=deep timeout=3400 mem=28 checks=rust
    // @bounds reset(): the tracker is reset exactly once (and not ticked)
    c11_tracker!(c11_tracker_reset_on_reset, 6);
}
