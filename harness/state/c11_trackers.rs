// C11 — custom keys are ticked and reset together with the bar.
// @file-encodes state::BarState::update_estimate_and_draw (tracker tick), state::BarState::tick, state::BarState::set_length, state::BarState::inc_length, state::BarState::dec_length, state::BarState::unset_length, state::BarState::reset (tracker reset)
// @file-assumes hidden BarState (rig) whose style carries one custom key (a counting ProgressTracker registered with with_key); format_state is never reached (hidden); the message/prefix setters are performed as ProgressBar does (assignment + update_estimate_and_draw)
#[cfg(kani)]
mod verif_c11_trackers {
    use super::verif_rig_state::*;
    use super::*;
    use crate::style::verif_rig_style::*;
    use crate::style::ProgressTracker;
    use crate::verif_common::*;

    static mut TICKS: u64 = 0;
    static mut RESETS: u64 = 0;
    static mut SEEN_POS: u64 = 0;
    static mut SEEN_LEN: Option<u64> = None;

    #[derive(Clone)]
    struct Probe;
    impl ProgressTracker for Probe {
        fn clone_box(&self) -> Box<dyn ProgressTracker> {
            Box::new(Probe)
        }
        fn tick(&mut self, state: &ProgressState, _now: Instant) {
            unsafe {
                TICKS += 1;
                SEEN_POS = state.pos();
                SEEN_LEN = state.len();
            }
        }
        fn reset(&mut self, _state: &ProgressState, _now: Instant) {
            unsafe {
                RESETS += 1;
            }
        }
        fn write(&self, _state: &ProgressState, _w: &mut dyn std::fmt::Write) {}
    }

    // @harness id=C11 tier=quick timeout=1800 mem=10 checks=rust
    // @bounds one update out of {tick, set_length, inc_length, dec_length, unset_length, set_message, set_prefix} on a hidden bar with a custom key: the tracker is ticked exactly once and sees the state AFTER the update; reset() resets it exactly once
    #[kani::proof]
    #[kani::unwind(8)]
    //@STUBS std noterm nomulti norender rlany noweight
    fn c11_custom_keys_ticked_on_every_update() {
        let pos: u64 = kani::any();
        let now = mk_instant(1_000_000, 0);
        let style = rig_style_empty().with_key("probe", Probe);
        let mut bs = rig_bar(rig_pstate(pos, Some(5), 0, 0), style, ProgressDrawTarget::hidden(), ProgressFinish::AndLeave);
        let op: u8 = kani::any();
        kani::assume(op < 8);
        let arg: u64 = kani::any();
        let mut want_len = Some(5u64);
        match op {
            0 => bs.tick(now),
            1 => {
                bs.set_length(now, arg);
                want_len = Some(arg);
            }
            2 => {
                bs.inc_length(now, arg);
                want_len = Some(5u64.saturating_add(arg));
            }
            3 => {
                bs.dec_length(now, arg);
                want_len = Some(5u64.saturating_sub(arg));
            }
            4 => {
                bs.unset_length(now);
                want_len = None;
            }
            5 => {
                bs.state.message = TabExpandedString::NoTabs("m".into());
                bs.update_estimate_and_draw(now);
            }
            6 => {
                bs.state.prefix = TabExpandedString::NoTabs("p".into());
                bs.update_estimate_and_draw(now);
            }
            _ => {
                bs.reset(now, Reset::All);
            }
        }
        unsafe {
            if op == 7 {
                assert!(RESETS == 1);
            } else {
                assert!(TICKS == 1 && RESETS == 0);
                assert!(SEEN_POS == pos && SEEN_LEN == want_len);
            }
        }
        kani::cover!(op == 4);
        kani::cover!(op == 7);
        std::mem::forget(bs);
    }
}
