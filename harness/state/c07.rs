// C07 — position and length bookkeeping (sequential part; see DESIGN for what is said about concurrent inc/dec).
// @file-encodes state::AtomicPosition::inc, state::AtomicPosition::dec, state::AtomicPosition::set, state::AtomicPosition::reset, state::ProgressState::pos, state::ProgressState::set_pos, state::ProgressState::fraction, state::BarState::set_length, state::BarState::inc_length, state::BarState::dec_length, state::BarState::unset_length, state::BarState::finish_using_style
#[cfg(kani)]
mod verif_c07 {
    use super::verif_rig_state::*;
    use super::*;
    use crate::style::verif_rig_style::*;
    use crate::verif_common::*;

    // @harness id=C07 tier=quick timeout=900 mem=8
    // @bounds 4 symbolic operations out of {inc, dec, set, set_pos, reset} with arguments over the whole u64 range, arbitrary start position
    #[kani::proof]
    #[kani::unwind(6)]
    fn c07_pos_history() {
        let p0: u64 = kani::any();
        let st = rig_pstate(p0, None, 0, 0);
        let mut st = st;
        let mut model = p0;
        let t = mk_instant(1_000_000, 5);
        let mut i = 0;
        while i < 4 {
            let op: u8 = kani::any();
            let arg: u64 = kani::any();
            match op % 5 {
                0 => {
                    st.pos.inc(arg);
                    model = model.wrapping_add(arg);
                }
                1 => {
                    st.pos.dec(arg);
                    model = model.wrapping_sub(arg);
                }
                2 => {
                    st.pos.set(arg);
                    model = arg;
                }
                3 => {
                    st.set_pos(arg);
                    model = arg;
                }
                _ => {
                    st.pos.reset(t);
                    model = 0;
                }
            }
            assert!(st.pos() == model);
            i += 1;
        }
        kani::cover!(model == u64::MAX);
        kani::cover!(model == 0 && p0 != 0);
        std::mem::forget(st);
    }

    // @harness id=C07 tier=quick timeout=900 mem=8
    // @bounds wrap-around at the u64 boundary: inc by any delta from any position, then dec by any delta
    #[kani::proof]
    fn c07_pos_wraps() {
        let p0: u64 = kani::any();
        let a: u64 = kani::any();
        let b: u64 = kani::any();
        let st = rig_pstate(p0, None, 0, 0);
        st.pos.inc(a);
        assert!(st.pos() == p0.wrapping_add(a));
        st.pos.dec(b);
        assert!(st.pos() == p0.wrapping_add(a).wrapping_sub(b));
        kani::cover!(p0 == u64::MAX && a == 1);
        kani::cover!(p0 == 0 && a == 0 && b == 1);
        std::mem::forget(st);
    }

    // @harness id=C07 tier=quick timeout=900 mem=8
    // @bounds 4 symbolic operations out of {set_length, inc_length, dec_length, unset_length} over the whole u64 range on a hidden bar, arbitrary start length
    #[kani::proof]
    #[kani::unwind(6)]
    //@STUBS std noterm nomulti norender
    fn c07_len_history() {
        let l0: Option<u64> = kani::any();
        let p0: u64 = kani::any();
        let t0 = mk_instant(1_000_000, 0);
        let style = rig_style_empty();
        let mut bs = rig_bar(rig_pstate(p0, l0, 0, 0), style, ProgressDrawTarget::hidden(), ProgressFinish::AndLeave);
        let mut model = l0;
        let mut i = 0;
        while i < 4 {
            let op: u8 = kani::any();
            let arg: u64 = kani::any();
            match op % 4 {
                0 => {
                    bs.set_length(t0, arg);
                    model = Some(arg);
                }
                1 => {
                    bs.inc_length(t0, arg);
                    model = model.map(|l| l.saturating_add(arg));
                }
                2 => {
                    bs.dec_length(t0, arg);
                    model = model.map(|l| l.saturating_sub(arg));
                }
                _ => {
                    bs.unset_length(t0);
                    model = None;
                }
            }
            assert!(bs.state.len() == model);
            assert!(bs.state.pos() == p0);
            i += 1;
        }
        kani::cover!(model == Some(u64::MAX));
        kani::cover!(model == Some(0));
        kani::cover!(model.is_none() && l0.is_some());
        std::mem::forget(bs);
    }

    // @harness id=C07 tier=quick timeout=900 mem=8
    // @bounds every ProgressFinish variant on a hidden bar, pos/len over the whole u64 range: finish variants set pos=len (when a length is known), abandon variants leave it
    #[kani::proof]
    #[kani::unwind(6)]
    //@STUBS std noterm nomulti norender
    fn c07_finish_position() {
        let l0: Option<u64> = kani::any();
        let p0: u64 = kani::any();
        let t0 = mk_instant(1_000_000, 0);
        let style = rig_style_empty();
        let mut bs = rig_bar(rig_pstate(p0, l0, 0, 0), style, ProgressDrawTarget::hidden(), ProgressFinish::AndLeave);
        let v: u8 = kani::any();
        kani::assume(v < 5);
        let fin = match v {
            0 => ProgressFinish::AndLeave,
            1 => ProgressFinish::WithMessage("m".into()),
            2 => ProgressFinish::AndClear,
            3 => ProgressFinish::Abandon,
            _ => ProgressFinish::AbandonWithMessage("m".into()),
        };
        bs.finish_using_style(t0, fin);
        assert!(bs.state.is_finished());
        assert!(bs.state.len() == l0);
        if v <= 2 {
            assert!(bs.state.pos() == l0.unwrap_or(p0));
        } else {
            assert!(bs.state.pos() == p0);
        }
        kani::cover!(v == 2 && l0.is_some());
        kani::cover!(v == 4);
        std::mem::forget(bs);
    }

    // @harness id=C07 tier=quick timeout=1200 mem=8
    // @bounds fraction() for every (pos, Option<len>) in u64 x Option<u64>, bit-precise f32
    #[kani::proof]
    fn c07_fraction_range() {
        let pos: u64 = kani::any();
        let len: Option<u64> = kani::any();
        let st = rig_pstate(pos, len, 0, 0);
        let f = st.fraction();
        assert!(!f.is_nan());
        assert!(f >= 0.0 && f <= 1.0);
        match len {
            None => assert!(f == 0.0),
            Some(0) => assert!(f == 1.0),
            Some(l) => {
                if pos == 0 {
                    assert!(f == 0.0);
                }
                if pos >= l {
                    assert!(f == 1.0);
                }
            }
        }
        kani::cover!(len == Some(u64::MAX) && pos == u64::MAX);
        kani::cover!(f > 0.0 && f < 1.0);
        std::mem::forget(st);
    }
}
