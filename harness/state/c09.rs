// C09 — rate and ETA estimator laws (the part that does not need the real powf; see DESIGN 4/C09).
// @file-encodes state::Estimator::new, state::Estimator::record, state::Estimator::reset, state::Estimator::steps_per_second, state::ProgressState::eta, state::ProgressState::duration, state::ProgressState::per_sec, state::secs_to_duration, state::duration_to_secs
// @file-assumes state::estimator_weight (0.1^(age/15), needs powf) is replaced by its contract: w(0) = 1 and for age > 0 an ARBITRARY value in [0, 1 - 1e-10] per call (the smallest positive age is 1 ns, where the real weight is 1 - 1.5e-10); cadence-independence, monotone decay and the max-rate bound depend on w(a+b) = w(a)w(b) and are NOT decided
// @file-assumes std::time::Instant::now is a harness-controlled frozen clock
#[cfg(kani)]
mod verif_c09 {
    use super::verif_rig_state::*;
    use super::*;
    use crate::verif_common::*;

    // The stand-in for estimator_weight is a FUNCTION: the same age gives the same weight (memo of the distinct ages
    // seen so far), a new age gives an arbitrary weight within the contract.
    static mut W_AGE: [f64; 6] = [0.0; 6];
    static mut W_VAL: [f64; 6] = [0.0; 6];
    static mut W_N: usize = 0;
    fn stub_weight(age: f64) -> f64 {
        if age == 0.0 {
            return 1.0;
        }
        unsafe {
            let mut i = 0;
            while i < 6 {
                if i < W_N && W_AGE[i] == age {
                    return W_VAL[i];
                }
                i += 1;
            }
            let w: f64 = kani::any();
            kani::assume(w >= 0.0 && w <= 1.0 - 1e-10);
            if W_N < 6 {
                W_AGE[W_N] = age;
                W_VAL[W_N] = w;
                W_N += 1;
            }
            w
        }
    }

    static mut NOW_S: u64 = 0;
    static mut NOW_N: u32 = 0;
    fn stub_clock() -> Instant {
        unsafe { mk_instant(1_000_000 + NOW_S, NOW_N) }
    }

    fn any_gap() -> Duration {
        let s: u64 = kani::any();
        let n: u32 = kani::any();
        kani::assume(s < (1 << 32) && n < 1_000_000_000);
        Duration::new(s, n)
    }

    // @harness id=C09 tier=quick timeout=2400 mem=12
    // @bounds Estimator::new, one record(pos, t1) with pos over u64 and t1 - t0 in [0, 2^32 s), query at any now >= t1 with now > t0: rate finite, not NaN, >= 0
    #[kani::proof]
    #[kani::unwind(8)]
    #[kani::stub(crate::state::estimator_weight, stub_weight)]
    fn c09_rate_finite_one_record() {
        let t0 = mk_instant(1_000_000, 0);
        let mut est = Estimator::new(t0);
        let p1: u64 = kani::any();
        let t1 = t0 + any_gap();
        est.record(p1, t1);
        let now = t1 + any_gap();
        kani::assume(now > t0);
        let r = est.steps_per_second(now);
        assert!(!r.is_nan());
        assert!(r.is_finite());
        assert!(r >= 0.0);
        kani::cover!(r > 0.0);
        kani::cover!(p1 == u64::MAX && r > 0.0);
    }

    // @harness id=C09 tier=thorough timeout=3400 mem=14
    // @bounds as above with two record calls (positions over u64, any order incl. rewind and no-progress)
    #[kani::proof]
    #[kani::unwind(8)]
    #[kani::stub(crate::state::estimator_weight, stub_weight)]
    fn c09_rate_finite_two_records() {
        let t0 = mk_instant(1_000_000, 0);
        let mut est = Estimator::new(t0);
        let p1: u64 = kani::any();
        let p2: u64 = kani::any();
        let t1 = t0 + any_gap();
        est.record(p1, t1);
        let t2 = t1 + any_gap();
        est.record(p2, t2);
        let now = t2 + any_gap();
        kani::assume(now > est.start_time);
        let r = est.steps_per_second(now);
        assert!(!r.is_nan() && r.is_finite() && r >= 0.0);
        kani::cover!(p2 < p1);
        kani::cover!(p2 > p1 && p1 > 0 && r > 0.0);
    }

    // @harness id=C09 tier=quick timeout=1200 mem=8
    // @bounds reset(now) from ARBITRARY prior field values (any f64 bit pattern incl. NaN/inf, any instants): every field except prev_steps equals Estimator::new(now); a query one ns later returns exactly 0
    #[kani::proof]
    #[kani::unwind(8)]
    #[kani::stub(crate::state::estimator_weight, stub_weight)]
    fn c09_reset_forgets_everything() {
        let a: f64 = kani::any();
        let b: f64 = kani::any();
        let ps: u64 = kani::any();
        let t0 = mk_instant(1_000_000, 0);
        let mut est = Estimator {
            smoothed_steps_per_sec: a,
            double_smoothed_steps_per_sec: b,
            prev_steps: ps,
            prev_time: t0 + any_gap(),
            start_time: t0 + any_gap(),
        };
        let now = t0 + any_gap();
        est.reset(now);
        assert!(est.smoothed_steps_per_sec == 0.0 && est.double_smoothed_steps_per_sec == 0.0);
        assert!(est.prev_time == now && est.start_time == now);
        assert!(est.prev_steps == ps);
        let r = est.steps_per_second(now + Duration::from_nanos(1));
        assert!(r == 0.0);
        kani::cover!(a.is_nan());
    }

    // @harness id=C09 tier=quick timeout=1200 mem=8
    // @bounds record() with a position below the previous one (backwards seek), arbitrary prior fields: behaves as reset(now) and remembers the new position; equal position or non-advancing time: no change at all
    #[kani::proof]
    #[kani::unwind(8)]
    #[kani::stub(crate::state::estimator_weight, stub_weight)]
    fn c09_rewind_resets() {
        let a: f64 = kani::any();
        let b: f64 = kani::any();
        kani::assume(!a.is_nan() && !b.is_nan());
        let ps: u64 = kani::any();
        let t0 = mk_instant(1_000_000, 0);
        let pt = t0 + any_gap();
        let st = t0 + any_gap();
        let mut est = Estimator { smoothed_steps_per_sec: a, double_smoothed_steps_per_sec: b, prev_steps: ps, prev_time: pt, start_time: st };
        let np: u64 = kani::any();
        let now = t0 + any_gap();
        est.record(np, now);
        if np < ps {
            assert!(est.smoothed_steps_per_sec == 0.0 && est.double_smoothed_steps_per_sec == 0.0);
            assert!(est.prev_time == now && est.start_time == now && est.prev_steps == np);
        } else if np == ps || now <= pt {
            assert!(est.smoothed_steps_per_sec == a && est.double_smoothed_steps_per_sec == b);
            assert!(est.prev_time == pt && est.start_time == st && est.prev_steps == ps);
        } else {
            assert!(est.prev_steps == np && est.prev_time == now && est.start_time == st);
        }
        kani::cover!(np < ps);
        kani::cover!(np > ps && now > pt);
    }

    // @harness id=C09 tier=quick timeout=1200 mem=8
    // @bounds secs_to_duration for EVERY f64 bit pattern (NaN, +-inf, negative, huge): no panic
    #[kani::proof]
    fn c09_secs_to_duration_total() {
        let s: f64 = kani::any();
        let d = secs_to_duration(s);
        if s >= 0.0 && s < 1e15 {
            // whole seconds are the truncation
            assert!(d.as_secs() == s.trunc() as u64 || d.as_secs() == s.trunc() as u64 + 1);
        }
        kani::cover!(s.is_nan());
        kani::cover!(s == f64::INFINITY);
        kani::cover!(s < 0.0);
    }

    /// ProgressState whose estimator holds ARBITRARY finite non-negative averages (whatever history produced them),
    /// last sample `g1` after creation, queried `g1 + g2 > 0` after creation with a frozen clock.
    fn any_pstate(pos: u64, len: Option<u64>, status: u8) -> (ProgressState, Duration) {
        let mut ps = rig_pstate(pos, len, 0, status);
        let a: f64 = kani::any();
        let b: f64 = kani::any();
        kani::assume(a >= 0.0 && a <= 1e30 && b >= 0.0 && b <= 1e30);
        let g1 = any_gap();
        let g2 = any_gap();
        ps.est.smoothed_steps_per_sec = a;
        ps.est.double_smoothed_steps_per_sec = b;
        ps.est.prev_time = ps.started + g1;
        ps.est.prev_steps = pos;
        let total = g1 + g2;
        kani::assume(total > Duration::ZERO);
        unsafe {
            NOW_S = total.as_secs();
            NOW_N = total.subsec_nanos();
        }
        (ps, total)
    }

    // @harness id=C09 tier=quick timeout=2400 mem=10
    // @bounds eta(): pos/len over u64, all three statuses, arbitrary finite non-negative estimator averages (<= 1e30), any query instant strictly after creation: zero when finished / length unknown / rate zero; never panics (saturating conversions)
    #[kani::proof]
    #[kani::unwind(8)]
    #[kani::stub(crate::state::estimator_weight, stub_weight)]
    #[kani::stub(std::time::Instant::now, stub_clock)]
    fn c09_eta_zero_cases() {
        let pos: u64 = kani::any();
        let len: Option<u64> = kani::any();
        let status: u8 = kani::any();
        kani::assume(status < 3);
        let (ps, _total) = any_pstate(pos, len, status);
        let eta = ps.eta();
        if status != 0 || len.is_none() {
            assert!(eta == Duration::ZERO);
        }
        if ps.est.smoothed_steps_per_sec == 0.0 && ps.est.double_smoothed_steps_per_sec == 0.0 {
            assert!(eta == Duration::ZERO); // no progress seen yet
        }
        kani::cover!(status == 0 && len.is_some() && eta > Duration::ZERO);
        kani::cover!(status == 2);
        std::mem::forget(ps);
    }

    // @harness id=C09 tier=deep timeout=3400 mem=12
    // @bounds duration() with a frozen clock: zero when finished / length unknown, otherwise elapsed + eta (saturating); elapsed is the frozen instant minus creation
    #[kani::proof]
    #[kani::unwind(8)]
    #[kani::stub(crate::state::estimator_weight, stub_weight)]
    #[kani::stub(std::time::Instant::now, stub_clock)]
    fn c09_duration_is_elapsed_plus_eta() {
        let pos: u64 = kani::any();
        let len: Option<u64> = kani::any();
        let status: u8 = kani::any();
        kani::assume(status < 3);
        let (ps, total) = any_pstate(pos, len, status);
        let dur = ps.duration();
        if status != 0 || len.is_none() {
            assert!(dur == Duration::ZERO);
        } else {
            assert!(ps.elapsed() == total);
            assert!(dur == total.saturating_add(ps.eta()));
        }
        kani::cover!(status == 0 && len.is_some() && dur > total);
        std::mem::forget(ps);
    }

    // @harness id=C09 tier=quick timeout=2400 mem=10
    // @bounds per_sec() strictly after creation: finite, not NaN, >= 0 for in-progress bars (estimator path) and finished bars (position / elapsed path)
    #[kani::proof]
    #[kani::unwind(8)]
    #[kani::stub(crate::state::estimator_weight, stub_weight)]
    #[kani::stub(std::time::Instant::now, stub_clock)]
    fn c09_per_sec_finite() {
        let pos: u64 = kani::any();
        let status: u8 = kani::any();
        kani::assume(status < 3);
        let (ps, _total) = any_pstate(pos, None, status);
        let rate = ps.per_sec();
        assert!(!rate.is_nan() && rate.is_finite() && rate >= 0.0);
        kani::cover!(status == 1 && rate > 0.0);
        kani::cover!(status == 0 && rate > 0.0);
        std::mem::forget(ps);
    }

    // @harness id=C09 tier=quick timeout=1800 mem=6 checks=rust
    // @bounds BarState::reset in every mode (reset_eta / reset_elapsed / reset) on a hidden bar whose estimator holds ARBITRARY values: the estimator forgets everything in all three modes; elapsed restarts for Elapsed/All; position returns to 0 and the bar is in progress again for All
    #[kani::proof]
    #[kani::unwind(6)]
    #[kani::stub(crate::state::estimator_weight, stub_weight)]
    //@STUBS std noterm nomulti norender rlany
    fn c09_bar_reset_modes() {
        use crate::style::verif_rig_style::*;
        let pos: u64 = kani::any();
        let status: u8 = kani::any();
        kani::assume(status < 3);
        let mut ps = rig_pstate(pos, Some(7), 0, status);
        let a: f64 = kani::any();
        let b: f64 = kani::any();
        ps.est.smoothed_steps_per_sec = a;
        ps.est.double_smoothed_steps_per_sec = b;
        ps.est.prev_steps = kani::any();
        let started0 = ps.started;
        let mut bs = rig_bar(ps, rig_style_empty(), ProgressDrawTarget::hidden(), ProgressFinish::AndLeave);
        let now = mk_instant(1_000_000, 0) + any_gap();
        let mode: u8 = kani::any();
        kani::assume(mode < 3);
        match mode {
            0 => bs.reset(now, Reset::Eta),
            1 => bs.reset(now, Reset::Elapsed),
            _ => bs.reset(now, Reset::All),
        }
        let st = &bs.state;
        assert!(st.est.smoothed_steps_per_sec == 0.0 && st.est.double_smoothed_steps_per_sec == 0.0);
        assert!(st.est.prev_time == now && st.est.start_time == now);
        assert!(st.started == if mode == 0 { started0 } else { now });
        if mode == 2 {
            assert!(st.pos() == 0 && !st.is_finished());
        } else {
            assert!(st.pos() == pos && st.is_finished() == (status != 0));
        }
        kani::cover!(mode == 2 && status == 2);
        kani::cover!(mode == 0 && a.is_nan());
        std::mem::forget(bs);
    }
}
