// C01 — composition of a frame by BarState::{draw, println}: text lines first (one per printed line, never counted),
// then the bar's own rendering split into one Bar line per newline-separated row (blank rows included), nothing of the
// bar only when it is finished-and-cleared. This is the precondition the draw_to_term step harnesses assume, and the
// row accounting (last_line_count = number of bar rows) that makes the next redraw erase exactly the old frame.
// @file-encodes state::BarState::println, state::BarState::draw, style::ProgressStyle::format_state, style::ProgressStyle::push_line, draw_target::Drawable::state, draw_target::Drawable::draw, draw_target::DrawState::draw_to_term
// @file-assumes BarState built directly (rig) over the abstract screen (W=16, H=8: nothing wraps, everything fits), template "{msg}", message / printed text from small tables incl. embedded and doubled newlines and the empty string; Instant::now frozen
#[cfg(kani)]
mod verif_c01_compose {
    use super::verif_rig_state::*;
    use super::*;
    use crate::draw_target::verif_scr::*;
    use crate::style::verif_rig_style::*;
    use crate::verif_common::*;

    // message table: (text, number of rows it renders to, index of a blank row or 9)
    const MSG: [(&str, usize, usize); 4] = [("m", 1, 9), ("a\nb", 2, 9), ("t\n\nb", 3, 1), ("", 0, 9)];
    // printed text table: (text, number of log lines it prints)
    const LOG: [(&str, usize); 3] = [("x", 1), ("x\ny", 2), ("", 1)];

    /// message and printed text are CONCRETE per instance (symbolic string contents make the str::lines/split machinery
    /// explode); the bar status is symbolic
    fn run(use_println: bool, mi: usize, li: usize) {
        let scr = leak_scr(16, 8);
        scr_with_frame(scr, 3, 0);
        let now = mk_instant(1_000_000, 0);
        let status: u8 = kani::any();
        kani::assume(status < 3);
        let spec = [RigPart::Key("msg")];
        let mut ps = rig_pstate(1, Some(2), 0, status);
        ps.message = TabExpandedString::new(MSG[mi].0.into(), 8);
        let mut bs = rig_bar(ps, rig_style_spec(&spec), scr_target(scr), ProgressFinish::AndLeave);
        if use_println {
            bs.println(now, LOG[li].0);
        } else {
            assert!(bs.draw(true, now).is_ok());
        }
        let ntext = if use_println { LOG[li].1 } else { 0 };
        let nbar = if status == 2 { 0 } else { MSG[mi].1 };
        let lines = target_lines(&bs.draw_target);
        assert!(lines.len() == ntext + nbar);
        let mut i = 0;
        while i < 5 {
            if i < lines.len() {
                let k = line_kind(&lines[i]);
                if i < ntext {
                    assert!(k == 0 || k == 2); // printed text (Empty for an empty println)
                } else {
                    assert!(k == 1); // every row of the bar is a Bar line, blank rows included
                }
                // no line contains a newline
                let b = lines[i].as_ref().as_bytes();
                assert!(b.len() <= 1);
                if b.len() == 1 {
                    assert!(b[0] != b'\n');
                }
            }
            i += 1;
        }
        // row accounting and screen: text rows stay above, exactly the bar rows are owned by the frame
        assert!(target_last(&bs.draw_target) == nbar);
        let mut r = 0;
        while r < NROWS {
            if r < 4 {
                assert!(scr.tag(r) == T_LOG);
            }
            r += 1;
        }
        if ntext + nbar > 0 {
            assert!(scr.row.get() == 4 + ntext + nbar - 1);
        }
        kani::cover!(status == 1);
        kani::cover!(status == 2);
        kani::cover!(status == 0);
        std::mem::forget(bs);
    }

    // @harness id=C01 tier=quick timeout=3000 mem=14
    // @bounds BarState::println with message "t\\n\\nb", printed text "x\\ny", bar in progress / finished-visible / finished-and-cleared (symbolic): lines = printed lines, then one Bar line per message row (none when cleared, blank rows included); last_line_count = bar rows
    #[kani::proof]
    #[kani::unwind(13)]
    //@STUBS std now widthascii repeat noterm nomulti rlany noweight
    fn c01_compose_println_m2_l1() {
        run(true, 2, 1);
    }

    // @harness id=C01 tier=quick timeout=3000 mem=14
    // @bounds BarState::println with message "m", printed text "", bar in progress / finished-visible / finished-and-cleared (symbolic): lines = printed lines, then one Bar line per message row (none when cleared, blank rows included); last_line_count = bar rows
    #[kani::proof]
    #[kani::unwind(13)]
    //@STUBS std now widthascii repeat noterm nomulti rlany noweight
    fn c01_compose_println_m0_l2() {
        run(true, 0, 2);
    }

    // @harness id=C01 tier=thorough timeout=3000 mem=14
    // @bounds BarState::println with message "", printed text "x", bar in progress / finished-visible / finished-and-cleared (symbolic): lines = printed lines, then one Bar line per message row (none when cleared, blank rows included); last_line_count = bar rows
    #[kani::proof]
    #[kani::unwind(13)]
    //@STUBS std now widthascii repeat noterm nomulti rlany noweight
    fn c01_compose_println_m3_l0() {
        run(true, 3, 0);
    }

    // @harness id=C01 tier=quick timeout=3000 mem=14
    // @bounds BarState::draw (forced) with message "a\\nb", bar in progress / finished-visible / finished-and-cleared (symbolic): lines = printed lines, then one Bar line per message row (none when cleared, blank rows included); last_line_count = bar rows
    #[kani::proof]
    #[kani::unwind(13)]
    //@STUBS std now widthascii repeat noterm nomulti rlany noweight
    fn c01_compose_draw_m1() {
        run(false, 1, 0);
    }

    // @harness id=C01 tier=thorough timeout=3000 mem=14
    // @bounds BarState::draw (forced) with message "t\\n\\nb", bar in progress / finished-visible / finished-and-cleared (symbolic): lines = printed lines, then one Bar line per message row (none when cleared, blank rows included); last_line_count = bar rows
    #[kani::proof]
    #[kani::unwind(13)]
    //@STUBS std now widthascii repeat noterm nomulti rlany noweight
    fn c01_compose_draw_m2() {
        run(false, 2, 0);
    }

}
