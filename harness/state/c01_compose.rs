// C01 — composition of a frame by BarState::{draw, println}: printed text lines first (never counted), then the bar's own
// lines, and nothing of the bar only when it is finished-and-cleared. (How a rendered string is split into Bar lines is
// decided by the push_line harness in harness/style/c01_push_line.rs; the terminal protocol by the draw_to_term steps.)
// @file-encodes state::BarState::println, state::BarState::draw, draw_target::ProgressDrawTarget::drawable, draw_target::Drawable::state, draw_target::Drawable::draw, draw_target::ProgressDrawTarget::width
// @file-assumes BarState built directly (rig); ProgressStyle::format_state replaced by a recorder that contributes one bar line; DrawState::draw_to_term replaced by its contract on a row stack; printed text is "x" (one line) -- the split of multi-line text is a String allocation of symbolic size per line that CBMC cannot digest; Instant::now frozen
#[cfg(kani)]
mod verif_c01_compose {
    use super::verif_rig_state::*;
    use super::*;
    use crate::draw_target::verif_rig_dt::*;
    use crate::style::verif_rig_style::*;
    use crate::verif_common::*;

    fn run(use_println: bool) {
        let status: u8 = kani::any();
        kani::assume(status < 3);
        run_status(use_println, status);
    }

    fn run_status(use_println: bool, status: u8) {
        unsafe {
            SLEN = 0;
            DRAWS = 0;
            LOG_FLOOR = 2;
            FS_CALLS = 0;
        }
        stack_push(b'L');
        stack_push(b'L');
        let b: usize = kani::any();
        kani::assume(b <= 1);
        if b == 1 {
            stack_push(b'O');
        }
        let now = mk_instant(1_000_000, 0);
        let ps = rig_pstate(1, Some(2), 0, status);
        let mut bs = rig_bar(ps, rig_style_empty(), null_target(16, 8, b), ProgressFinish::AndLeave);
        if use_println {
            bs.println(now, "x");
        } else {
            let r = bs.draw(true, now);
            assert!(r.is_ok());
            std::mem::forget(r); // (the drop glue of an io::Result whose variant CBMC cannot fix is very expensive)
        }
        let ntext = if use_println { 1 } else { 0 };
        let nbar = if status == 2 { 0 } else { 1 };
        unsafe {
            assert!(DRAWS == 1);
            assert!(FS_CALLS == nbar); // the bar is rendered unless it is finished-and-cleared (also when finished visibly)
            assert!(LAST_TEXT == ntext && LAST_BARS == nbar);
            assert!(SLEN == 2 + ntext + nbar); // the old frame is gone, the text row stays above the new frame
            if ntext == 1 {
                assert!(STACK[2] == b'x');
            }
        }
        assert!(target_last_rows(&bs.draw_target) == nbar); // text rows are never counted
        kani::cover!(b == 1);
        kani::cover!(b == 0);
        std::mem::forget(bs);
    }

    // @harness id=C01 tier=quick timeout=1800 mem=16 checks=rust
    // @bounds BarState::println("x") on a bar in progress / finished-visible / finished-and-cleared (symbolic), previous frame of 0..=1 rows: text line first, then the bar line (none when cleared); last_line_count = bar rows
    #[kani::proof]
    #[kani::unwind(6)]
    //@STUBS std now widthascii noterm nomulti rlany noweight fsrecord dttcontract
    fn c01_compose_println() {
        run(true);
    }

    // (the status is concrete per harness here: with a symbolic status the forced-or-finished flag of BarState::draw is symbolic
    //  and CBMC runs out of 16 GB)
    // @harness id=C01 tier=quick timeout=1800 mem=16 checks=rust
    // @bounds BarState::draw (forced) on a bar in progress, previous frame of 0..=1 rows: the frame is the bar line
    #[kani::proof]
    #[kani::unwind(6)]
    //@STUBS std now widthascii noterm nomulti rlany noweight fsrecord dttcontract
    fn c01_compose_draw_in_progress() {
        run_status(false, 0);
    }

    // @harness id=C01 tier=quick timeout=1800 mem=16 checks=rust
    // @bounds BarState::draw (forced) on a bar finished visibly: the frame is still the bar line
    #[kani::proof]
    #[kani::unwind(6)]
    //@STUBS std now widthascii noterm nomulti rlany noweight fsrecord dttcontract
    fn c01_compose_draw_finished() {
        run_status(false, 1);
    }

    // @harness id=C01 tier=quick timeout=1800 mem=16 checks=rust
    // @bounds BarState::draw (forced) on a bar finished and cleared: nothing of the bar is painted, the old frame is erased
    #[kani::proof]
    #[kani::unwind(6)]
    //@STUBS std now widthascii noterm nomulti rlany noweight fsrecord dttcontract
    fn c01_compose_draw_cleared() {
        run_status(false, 2);
    }
}
