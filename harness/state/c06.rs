// C06 — hidden or non-terminal targets are silent and state-equivalent.
// @file-encodes state::BarState::tick, state::BarState::update_estimate_and_draw, state::BarState::draw, state::BarState::println, state::BarState::suspend, state::BarState::reset, state::BarState::finish_using_style, state::BarState::set_length, state::BarState::inc_length, state::BarState::dec_length, state::BarState::unset_length, draw_target::ProgressDrawTarget::drawable, draw_target::ProgressDrawTarget::width, draw_target::ProgressDrawTarget::is_hidden, multi::MultiState::draw, multi::MultiState::width, multi::MultiState::suspend
// @file-assumes every console::Term OUTPUT method (write_line, write_str, clear_line, flush, move_cursor_*) and ProgressStyle::format_state are replaced by panicking stubs, so reaching any of them fails the harness; Term::is_term = false and Term::size = (24,80) model a terminal that is not a tty; Instant::now frozen; the reference for the getters is the documented wrapping/saturating model (the same one the visible bar is checked against in C07)
#[cfg(kani)]
mod verif_c06 {
    use super::verif_rig_state::*;
    use super::*;
    use crate::multi::verif_rig_multi::*;
    use crate::style::verif_rig_style::*;
    use crate::verif_common::*;

    const TXT: [&str; 3] = ["", "a", "bc"];

    /// kind 0: hidden target; 1: console::Term that is not a tty; 2: member of a MultiProgress whose target is hidden
    fn target(kind: u8) -> ProgressDrawTarget {
        match kind {
            0 => ProgressDrawTarget::hidden(),
            1 => ProgressDrawTarget::term(console::Term::buffered_stderr(), 20),
            _ => {
                let mut ms = rig_multi(ProgressDrawTarget::hidden());
                push_member(&mut ms, false, 0, b'A', false);
                ProgressDrawTarget::new_remote(Arc::new(std::sync::RwLock::new(ms)), 0)
            }
        }
    }

    fn run(kind: u8, nops: usize) {
        let p0: u64 = kani::any();
        let l0: Option<u64> = kani::any();
        let now = mk_instant(1_000_000, 0);
        let spec = [RigPart::Key("msg")];
        let mut bs = rig_bar(rig_pstate(p0, l0, 0, 0), rig_style_spec(&spec), target(kind), ProgressFinish::AndLeave);
        assert!(bs.draw_target.is_hidden());
        let mut mp = p0;
        let mut ml = l0;
        let mut fin = false;
        let mut mi = 0usize; // index into TXT of the current message
        let mut pi = 0usize;
        let mut i = 0;
        while i < nops {
            let op: u8 = kani::any();
            kani::assume(op < 13);
            let arg: u64 = kani::any();
            let ti: usize = kani::any();
            kani::assume(ti < 3);
            match op {
                0 => bs.tick(now),
                1 => {
                    bs.state.set_pos(arg);
                    bs.tick(now);
                    mp = arg;
                }
                2 => {
                    bs.set_length(now, arg);
                    ml = Some(arg);
                }
                3 => {
                    bs.inc_length(now, arg);
                    ml = ml.map(|l| l.saturating_add(arg));
                }
                4 => {
                    bs.dec_length(now, arg);
                    ml = ml.map(|l| l.saturating_sub(arg));
                }
                5 => {
                    bs.unset_length(now);
                    ml = None;
                }
                6 => {
                    bs.state.message = TabExpandedString::new(TXT[ti].into(), bs.tab_width);
                    bs.update_estimate_and_draw(now);
                    mi = ti;
                }
                7 => {
                    bs.state.prefix = TabExpandedString::new(TXT[ti].into(), bs.tab_width);
                    bs.update_estimate_and_draw(now);
                    pi = ti;
                }
                8 => {
                    bs.reset(now, Reset::All);
                    mp = 0;
                    fin = false;
                }
                9 => {
                    bs.finish_using_style(now, ProgressFinish::AndLeave);
                    fin = true;
                    mp = ml.unwrap_or(mp);
                }
                10 => {
                    bs.finish_using_style(now, ProgressFinish::AbandonWithMessage(TXT[ti].into()));
                    fin = true;
                    mi = ti;
                }
                11 => bs.println(now, "log"),
                _ => {
                    let r = bs.suspend(now, || 9);
                    assert!(r == 9);
                }
            }
            assert!(bs.state.pos() == mp);
            assert!(bs.state.len() == ml);
            assert!(bs.state.is_finished() == fin);
            assert!(bs.state.message.expanded().len() == TXT[mi].len());
            assert!(bs.state.prefix.expanded().len() == TXT[pi].len());
            i += 1;
        }
        kani::cover!(fin && mi == 2);
        kani::cover!(ml.is_none() && l0.is_some());
        std::mem::forget(bs);
    }

    // @harness id=C06 tier=quick timeout=3000 mem=12
    // @bounds explicitly hidden target: 2 symbolic operations out of 13 (tick, set position, set/inc/dec/unset length, set message/prefix, reset, finish, abandon_with_message, println, suspend) with u64 arguments
    #[kani::proof]
    #[kani::unwind(6)]
    //@STUBS std now nontty nomulti norender rlany noweight
    fn c06_hidden_target() {
        run(0, 2);
    }

    // @harness id=C06 tier=quick timeout=3000 mem=12
    // @bounds console::Term that is not a tty (with its 20 Hz limiter): same 13 operations, 2 in a row
    #[kani::proof]
    #[kani::unwind(6)]
    //@STUBS std now nontty nomulti norender rlany noweight
    fn c06_term_not_a_tty() {
        run(1, 2);
    }

    // @harness id=C06 tier=quick timeout=3000 mem=14
    // @bounds member of a MultiProgress whose draw target is hidden: same 13 operations, 2 in a row (real MultiState::draw / suspend / width)
    #[kani::proof]
    #[kani::unwind(6)]
    //@STUBS std now nontty norender rlany noweight
    fn c06_member_of_hidden_multi() {
        run(2, 2);
    }
}
