// C06 — hidden or non-terminal targets are silent and state-equivalent.
// @file-encodes state::BarState::tick, state::BarState::update_estimate_and_draw, state::BarState::draw, state::BarState::println, state::BarState::suspend, state::BarState::reset, state::BarState::finish_using_style, state::BarState::set_length, state::BarState::inc_length, state::BarState::dec_length, state::BarState::unset_length, draw_target::ProgressDrawTarget::drawable, draw_target::ProgressDrawTarget::width, draw_target::ProgressDrawTarget::is_hidden, multi::MultiState::draw, multi::MultiState::width, multi::MultiState::suspend
// @file-assumes every console::Term OUTPUT method (write_line, write_str, clear_line, flush, move_cursor_*) and ProgressStyle::format_state are replaced by panicking stubs, so reaching any of them fails the harness; Term::is_term = false and Term::size = (24,80) model a terminal that is not a tty; Instant::now frozen; the reference for the getters is the documented wrapping/saturating model (the same one the visible bar is checked against in C07)
#[cfg(kani)]
mod verif_c06 {
    use super::verif_rig_state::*;
    use super::*;
    use crate::multi::verif_rig_multi::*;
    use crate::style::verif_rig_style::*;
    use crate::verif_common::*;

    /// kind 0: hidden target; 1: console::Term that is not a tty; 2: member of a MultiProgress whose target is hidden
    fn target(kind: u8) -> ProgressDrawTarget {
        match kind {
            0 => ProgressDrawTarget::hidden(),
            1 => ProgressDrawTarget::term(console::Term::buffered_stderr(), 20),
            _ => {
                let mut ms = rig_multi(ProgressDrawTarget::hidden());
                push_member(&mut ms, false, 0, b'A', false);
                ProgressDrawTarget::new_remote(Arc::new(std::sync::RwLock::new(ms)), 0)
            }
        }
    }

    /// group 0: two symbolic numeric operations (u64 arguments); groups 1..=5: one concrete text / finish / println / suspend
    /// operation (a symbolic choice among operations that carry strings makes every string operation a symbolic-pointer one)
    fn run(kind: u8, group: u8) {
        let p0: u64 = kani::any();
        let l0: Option<u64> = kani::any();
        let now = mk_instant(1_000_000, 0);
        let mut bs = rig_bar(rig_pstate(p0, l0, 0, 0), rig_style_empty(), target(kind), ProgressFinish::AndLeave);
        assert!(bs.draw_target.is_hidden());
        let mut mp = p0;
        let mut ml = l0;
        let mut fin = false;
        let mut mlen = 0usize; // length of the current message
        let mut plen = 0usize;
        match group {
            0 => {
                let mut i = 0;
                while i < 2 {
                    let op: u8 = kani::any();
                    kani::assume(op < 7);
                    let arg: u64 = kani::any();
                    match op {
                        0 => bs.tick(now),
                        1 => {
                            bs.state.set_pos(arg);
                            bs.tick(now);
                            mp = arg;
                        }
                        2 => {
                            bs.set_length(now, arg);
                            ml = Some(arg);
                        }
                        3 => {
                            bs.inc_length(now, arg);
                            ml = ml.map(|l| l.saturating_add(arg));
                        }
                        4 => {
                            bs.dec_length(now, arg);
                            ml = ml.map(|l| l.saturating_sub(arg));
                        }
                        5 => {
                            bs.unset_length(now);
                            ml = None;
                        }
                        _ => {
                            bs.reset(now, Reset::All);
                            mp = 0;
                        }
                    }
                    assert!(bs.state.pos() == mp && bs.state.len() == ml && !bs.state.is_finished());
                    i += 1;
                }
            }
            1 => {
                bs.state.message = TabExpandedString::new("bc".into(), bs.tab_width);
                bs.update_estimate_and_draw(now);
                bs.state.prefix = TabExpandedString::new("a".into(), bs.tab_width);
                bs.update_estimate_and_draw(now);
                mlen = 2;
                plen = 1;
            }
            2 => {
                bs.finish_using_style(now, ProgressFinish::AndLeave);
                fin = true;
                mp = ml.unwrap_or(mp);
            }
            3 => {
                bs.finish_using_style(now, ProgressFinish::AbandonWithMessage("bc".into()));
                fin = true;
                mlen = 2;
            }
            4 => bs.println(now, "log"),
            _ => {
                let r = bs.suspend(now, || 9);
                assert!(r == 9);
            }
        }
        assert!(bs.state.pos() == mp);
        assert!(bs.state.len() == ml);
        assert!(bs.state.is_finished() == fin);
        assert!(matches!(&bs.state.message, TabExpandedString::NoTabs(s) if s.len() == mlen));
        assert!(matches!(&bs.state.prefix, TabExpandedString::NoTabs(s) if s.len() == plen));
        kani::cover!(ml.is_none() || ml.is_some());
        std::mem::forget(bs);
    }

    // @harness id=C06 tier=quick timeout=1800 mem=10 checks=rust
    // @bounds explicitly hidden target: two symbolic operations out of {tick, set position, set/inc/dec/unset length, reset} with u64 arguments; every console::Term output method and format_state panic when reached; getters compared with the reference model
    #[kani::proof]
    #[kani::unwind(6)]
    //@STUBS std now nontty nomulti norender rlany noweight
    fn c06_hidden_target_numeric_ops() {
        run(0, 0);
    }

    // @harness id=C06 tier=quick timeout=1800 mem=10 checks=rust
    // @bounds explicitly hidden target: set_message then set_prefix; every console::Term output method and format_state panic when reached; getters compared with the reference model
    #[kani::proof]
    #[kani::unwind(6)]
    //@STUBS std now nontty nomulti norender rlany noweight
    fn c06_hidden_target_message_prefix() {
        run(0, 1);
    }

    // @harness id=C06 tier=quick timeout=1800 mem=10 checks=rust
    // @bounds explicitly hidden target: finish; every console::Term output method and format_state panic when reached; getters compared with the reference model
    #[kani::proof]
    #[kani::unwind(6)]
    //@STUBS std now nontty nomulti norender rlany noweight
    fn c06_hidden_target_finish() {
        run(0, 2);
    }

    // @harness id=C06 tier=quick timeout=1800 mem=10 checks=rust
    // @bounds explicitly hidden target: abandon_with_message; every console::Term output method and format_state panic when reached; getters compared with the reference model
    #[kani::proof]
    #[kani::unwind(6)]
    //@STUBS std now nontty nomulti norender rlany noweight
    fn c06_hidden_target_abandon_with_message() {
        run(0, 3);
    }

    // @harness id=C06 tier=quick timeout=1800 mem=10 checks=rust
    // @bounds explicitly hidden target: println; every console::Term output method and format_state panic when reached; getters compared with the reference model
    #[kani::proof]
    #[kani::unwind(6)]
    //@STUBS std now nontty nomulti norender rlany noweight
    fn c06_hidden_target_println() {
        run(0, 4);
    }

    // @harness id=C06 tier=quick timeout=1800 mem=10 checks=rust
    // @bounds explicitly hidden target: suspend; every console::Term output method and format_state panic when reached; getters compared with the reference model
    #[kani::proof]
    #[kani::unwind(6)]
    //@STUBS std now nontty nomulti norender rlany noweight
    fn c06_hidden_target_suspend() {
        run(0, 5);
    }

    // @harness id=C06 tier=quick timeout=1800 mem=10 checks=rust
    // @bounds console::Term that is not a tty (with its 20 Hz limiter): two symbolic operations out of {tick, set position, set/inc/dec/unset length, reset} with u64 arguments; every console::Term output method and format_state panic when reached; getters compared with the reference model
    #[kani::proof]
    #[kani::unwind(6)]
    //@STUBS std now nontty nomulti norender rlany noweight
    fn c06_term_not_a_tty_numeric_ops() {
        run(1, 0);
    }

    // @harness id=C06 tier=deep timeout=1800 mem=10 checks=rust
    // @bounds console::Term that is not a tty (with its 20 Hz limiter): set_message then set_prefix; every console::Term output method and format_state panic when reached; getters compared with the reference model
    #[kani::proof]
    #[kani::unwind(6)]
    //@STUBS std now nontty nomulti norender rlany noweight
    fn c06_term_not_a_tty_message_prefix() {
        run(1, 1);
    }

    // @harness id=C06 tier=deep timeout=1800 mem=10 checks=rust
    // @bounds console::Term that is not a tty (with its 20 Hz limiter): finish; every console::Term output method and format_state panic when reached; getters compared with the reference model
    #[kani::proof]
    #[kani::unwind(6)]
    //@STUBS std now nontty nomulti norender rlany noweight
    fn c06_term_not_a_tty_finish() {
        run(1, 2);
    }

    // @harness id=C06 tier=deep timeout=1800 mem=10 checks=rust
    // @bounds console::Term that is not a tty (with its 20 Hz limiter): abandon_with_message; every console::Term output method and format_state panic when reached; getters compared with the reference model
    #[kani::proof]
    #[kani::unwind(6)]
    //@STUBS std now nontty nomulti norender rlany noweight
    fn c06_term_not_a_tty_abandon_with_message() {
        run(1, 3);
    }

    // @harness id=C06 tier=quick timeout=1800 mem=10 checks=rust
    // @bounds console::Term that is not a tty (with its 20 Hz limiter): println; every console::Term output method and format_state panic when reached; getters compared with the reference model
    #[kani::proof]
    #[kani::unwind(6)]
    //@STUBS std now nontty nomulti norender rlany noweight
    fn c06_term_not_a_tty_println() {
        run(1, 4);
    }

    // @harness id=C06 tier=quick timeout=1800 mem=10 checks=rust
    // @bounds console::Term that is not a tty (with its 20 Hz limiter): suspend; every console::Term output method and format_state panic when reached; getters compared with the reference model
    #[kani::proof]
    #[kani::unwind(6)]
    //@STUBS std now nontty nomulti norender rlany noweight
    fn c06_term_not_a_tty_suspend() {
        run(1, 5);
    }

    // @harness id=C06 tier=deep timeout=3400 mem=24 checks=rust
    // @bounds member of a MultiProgress whose draw target is hidden (real MultiState::draw / suspend / width): two symbolic operations out of {tick, set position, set/inc/dec/unset length, reset} with u64 arguments; every console::Term output method and format_state panic when reached; getters compared with the reference model
    #[kani::proof]
    #[kani::unwind(6)]
    //@STUBS std now nontty norender rlany noweight
    fn c06_member_of_hidden_multi_numeric_ops() {
        run(2, 0);
    }

    // @harness id=C06 tier=deep timeout=3400 mem=24 checks=rust
    // @bounds member of a MultiProgress whose draw target is hidden (real MultiState::draw / suspend / width): set_message then set_prefix; every console::Term output method and format_state panic when reached; getters compared with the reference model
    #[kani::proof]
    #[kani::unwind(6)]
    //@STUBS std now nontty norender rlany noweight
    fn c06_member_of_hidden_multi_message_prefix() {
        run(2, 1);
    }

    // @harness id=C06 tier=deep timeout=3400 mem=24 checks=rust
    // @bounds member of a MultiProgress whose draw target is hidden (real MultiState::draw / suspend / width): finish; every console::Term output method and format_state panic when reached; getters compared with the reference model
    #[kani::proof]
    #[kani::unwind(6)]
    //@STUBS std now nontty norender rlany noweight
    fn c06_member_of_hidden_multi_finish() {
        run(2, 2);
    }

    // @harness id=C06 tier=deep timeout=3400 mem=24 checks=rust
    // @bounds member of a MultiProgress whose draw target is hidden (real MultiState::draw / suspend / width): abandon_with_message; every console::Term output method and format_state panic when reached; getters compared with the reference model
    #[kani::proof]
    #[kani::unwind(6)]
    //@STUBS std now nontty norender rlany noweight
    fn c06_member_of_hidden_multi_abandon_with_message() {
        run(2, 3);
    }

    // @harness id=C06 tier=deep timeout=3400 mem=24 checks=rust
    // @bounds member of a MultiProgress whose draw target is hidden (real MultiState::draw / suspend / width): println; every console::Term output method and format_state panic when reached; getters compared with the reference model
    #[kani::proof]
    #[kani::unwind(6)]
    //@STUBS std now nontty norender rlany noweight
    fn c06_member_of_hidden_multi_println() {
        run(2, 4);
    }

    // @harness id=C06 tier=deep timeout=3400 mem=24 checks=rust
    // @bounds member of a MultiProgress whose draw target is hidden (real MultiState::draw / suspend / width): suspend; every console::Term output method and format_state panic when reached; getters compared with the reference model
    #[kani::proof]
    #[kani::unwind(6)]
    //@STUBS std now nontty norender rlany noweight
    fn c06_member_of_hidden_multi_suspend() {
        run(2, 5);
    }


    // @harness id=C06 tier=quick timeout=1200 mem=10 checks=rust
    // @bounds the gate every terminal write passes (see the engine M part): ProgressDrawTarget::drawable(force_draw symbolic, now) offers NO drawable for an explicitly hidden target and for a console::Term that is not a tty -- forced draws included; is_hidden() is true for both
    #[kani::proof]
    #[kani::unwind(6)]
    //@STUBS std now nontty nomulti norender rlany noweight
    fn c06_hidden_targets_offer_no_drawable() {
        let kind: u8 = kani::any();
        kani::assume(kind < 2);
        let mut t = if kind == 0 { ProgressDrawTarget::hidden() } else { ProgressDrawTarget::term(console::Term::buffered_stderr(), 20) };
        let force: bool = kani::any();
        assert!(t.is_hidden());
        let d = t.drawable(force, mk_instant(1_000_000, 0));
        assert!(d.is_none());
        kani::cover!(kind == 1 && force);
        kani::cover!(kind == 0 && !force);
        std::mem::forget(d);
        std::mem::forget(t);
    }
}
