// C18 — terminal I/O failures never panic, poison or corrupt logical state (BarState level).
// @file-encodes state::BarState::draw, state::BarState::tick, state::BarState::println, state::BarState::suspend, state::BarState::finish_using_style, state::BarState::reset, state::BarState::set_length, state::BarState::set_tab_width, draw_target::Drawable::clear, draw_target::Drawable::draw
// @file-assumes BarState built directly (rig); the rate limiter admits every draw (a refused draw reaches no terminal call; whether the failing draw happens must be a concrete fact: dropping an io::Error whose existence is symbolic explodes under CBMC); the terminal fault is injected at the level of DrawState::draw_to_term (the k-th draw of the operation returns io::ErrorKind::BrokenPipe BEFORE updating last_line_count, which is how the real draw_to_term propagates a failing terminal call with `?`; that propagation itself is checked on the abstract screen in harness/draw_target/c18_dtt.rs); format_state replaced by a recorder; Instant::now frozen
#[cfg(kani)]
mod verif_c18_state {
    use super::verif_rig_state::*;
    use super::*;
    use crate::draw_target::verif_rig_dt::*;
    use crate::style::verif_rig_style::*;
    use crate::verif_common::*;

    /// operation and failing draw are CONCRETE per harness (dropping an io::Error whose existence is symbolic makes CBMC
    /// explore the boxed-custom-error drop glue behind a symbolic pointer); position and length are symbolic
    fn one_op(op: u8, k: usize) {
        let pos: u64 = kani::any();
        let len: Option<u64> = kani::any();
        unsafe {
            SLEN = 0;
            DRAWS = 0;
            LOG_FLOOR = 0;
            FS_CALLS = 0;
        }
        let now = mk_instant(1_000_000, 0);
        let mut ps = rig_pstate(pos, len, 0, 0);
        ps.message = TabExpandedString::NoTabs("m".into());
        let mut bs = rig_bar(ps, rig_style_empty(), null_target(16, 8, 0), ProgressFinish::AndLeave);
        unsafe {
            FAIL_DRAW_AT = k;
        }
        let mut mlen = len;
        let mut mpos = pos;
        let mut fin = false;
        match op {
            0 => bs.tick(now),
            1 => {
                bs.set_length(now, 7);
                mlen = Some(7);
            }
            2 => bs.set_tab_width(3),
            3 => bs.println(now, "x"),
            4 => {
                let r = bs.suspend(now, || 5);
                assert!(r == 5);
            }
            5 => {
                bs.finish_using_style(now, ProgressFinish::AndLeave);
                fin = true;
                mpos = mlen.unwrap_or(mpos);
            }
            6 => {
                bs.finish_using_style(now, ProgressFinish::AndClear);
                fin = true;
                mpos = mlen.unwrap_or(mpos);
            }
            7 => {
                bs.reset(now, Reset::All);
                mpos = 0;
            }
            _ => {
                let r = bs.draw(true, now);
                // the explicit io::Result reports the failure
                assert!(r.is_err() == (k == 0));
            }
        }
        assert!(bs.state.pos() == mpos && bs.state.len() == mlen && bs.state.is_finished() == fin);
        assert!(matches!(&bs.state.message, TabExpandedString::NoTabs(s) if s.len() == 1));
        // healthy terminal again: the next call works and paints
        unsafe {
            FAIL_DRAW_AT = usize::MAX;
        }
        let before = unsafe { DRAWS };
        assert!(bs.draw(true, now).is_ok());
        assert!(unsafe { DRAWS } == before + 1);
        kani::cover!(len.is_none());
        kani::cover!(len.is_some());
        std::mem::forget(bs);
    }

    // @harness id=C18 tier=quick timeout=1800 mem=12 checks=rust
    // @bounds BarState tick whose draw number 0 fails with an I/O error; pos/len over u64; then a healthy forced draw: no panic, position / length / finished / message exactly as without the failure, the following call works and paints
    #[kani::proof]
    #[kani::unwind(6)]
    //@STUBS std now widthascii noterm nomulti rlctl noweight fsrecord dttcontract
    fn c18_bar_tick_fail0() {
        one_op(0, 0);
    }

    // @harness id=C18 tier=quick timeout=1800 mem=12 checks=rust
    // @bounds BarState set_length whose draw number 0 fails with an I/O error; pos/len over u64; then a healthy forced draw: no panic, position / length / finished / message exactly as without the failure, the following call works and paints
    #[kani::proof]
    #[kani::unwind(6)]
    //@STUBS std now widthascii noterm nomulti rlctl noweight fsrecord dttcontract
    fn c18_bar_set_length_fail0() {
        one_op(1, 0);
    }

    // @harness id=C18 tier=quick timeout=1800 mem=12 checks=rust
    // @bounds BarState set_tab_width whose draw number 0 fails with an I/O error; pos/len over u64; then a healthy forced draw: no panic, position / length / finished / message exactly as without the failure, the following call works and paints
    #[kani::proof]
    #[kani::unwind(6)]
    //@STUBS std now widthascii noterm nomulti rlctl noweight fsrecord dttcontract
    fn c18_bar_set_tab_width_fail0() {
        one_op(2, 0);
    }

    // @harness id=C18 tier=quick timeout=1800 mem=12 checks=rust
    // @bounds BarState println whose draw number 0 fails with an I/O error; pos/len over u64; then a healthy forced draw: no panic, position / length / finished / message exactly as without the failure, the following call works and paints
    #[kani::proof]
    #[kani::unwind(6)]
    //@STUBS std now widthascii noterm nomulti rlctl noweight fsrecord dttcontract
    fn c18_bar_println_fail0() {
        one_op(3, 0);
    }

    // @harness id=C18 tier=deep timeout=3000 mem=28 checks=rust
    // @bounds BarState suspend whose draw number 0 fails with an I/O error; pos/len over u64; then a healthy forced draw: no panic, position / length / finished / message exactly as without the failure, the following call works and paints
    #[kani::proof]
    #[kani::unwind(6)]
    //@STUBS std now widthascii noterm nomulti rlctl noweight fsrecord dttcontract
    fn c18_bar_suspend_fail0() {
        one_op(4, 0);
    }

    // @harness id=C18 tier=deep timeout=3000 mem=28 checks=rust
    // @bounds BarState suspend whose draw number 1 fails with an I/O error; pos/len over u64; then a healthy forced draw: no panic, position / length / finished / message exactly as without the failure, the following call works and paints
    #[kani::proof]
    #[kani::unwind(6)]
    //@STUBS std now widthascii noterm nomulti rlctl noweight fsrecord dttcontract
    fn c18_bar_suspend_fail1() {
        one_op(4, 1);
    }

    // @harness id=C18 tier=quick timeout=1800 mem=12 checks=rust
    // @bounds BarState finish whose draw number 0 fails with an I/O error; pos/len over u64; then a healthy forced draw: no panic, position / length / finished / message exactly as without the failure, the following call works and paints
    #[kani::proof]
    #[kani::unwind(6)]
    //@STUBS std now widthascii noterm nomulti rlctl noweight fsrecord dttcontract
    fn c18_bar_finish_fail0() {
        one_op(5, 0);
    }

    // @harness id=C18 tier=quick timeout=1800 mem=12 checks=rust
    // @bounds BarState finish_and_clear whose draw number 0 fails with an I/O error; pos/len over u64; then a healthy forced draw: no panic, position / length / finished / message exactly as without the failure, the following call works and paints
    #[kani::proof]
    #[kani::unwind(6)]
    //@STUBS std now widthascii noterm nomulti rlctl noweight fsrecord dttcontract
    fn c18_bar_finish_and_clear_fail0() {
        one_op(6, 0);
    }

    // @harness id=C18 tier=quick timeout=1800 mem=12 checks=rust
    // @bounds BarState reset whose draw number 0 fails with an I/O error; pos/len over u64; then a healthy forced draw: no panic, position / length / finished / message exactly as without the failure, the following call works and paints
    #[kani::proof]
    #[kani::unwind(6)]
    //@STUBS std now widthascii noterm nomulti rlctl noweight fsrecord dttcontract
    fn c18_bar_reset_fail0() {
        one_op(7, 0);
    }

    // @harness id=C18 tier=quick timeout=1800 mem=12 checks=rust
    // @bounds BarState forced_draw whose draw number 0 fails with an I/O error; pos/len over u64; then a healthy forced draw: no panic, position / length / finished / message exactly as without the failure, the following call works and paints
    #[kani::proof]
    #[kani::unwind(6)]
    //@STUBS std now widthascii noterm nomulti rlctl noweight fsrecord dttcontract
    fn c18_bar_forced_draw_fail0() {
        one_op(8, 0);
    }

}
