// C04 — finishing or dropping a bar always paints its final state.
// @file-encodes state::BarState::finish_using_style, state::BarState::draw, state::BarState::drop (Drop), draw_target::ProgressDrawTarget::drawable (force bypasses the limiter), draw_target::Drawable::state, draw_target::Drawable::draw, draw_target::ProgressDrawTarget::mark_zombie
// @file-assumes BarState built directly (rig) over a TermLike target with a rate limiter that REFUSES every ordinary draw (RateLimiter::allow = false: the exhausted limiter of the property; its law is C05's subject); ProgressStyle::format_state replaced by a recorder of the state it is handed (what it renders from that state: C10-C13), DrawState::draw_to_term replaced by its contract on a row stack (C01/C19); Instant::now frozen
#[cfg(kani)]
mod verif_c04 {
    use super::verif_rig_state::*;
    use super::*;
    use crate::draw_target::verif_rig_dt::*;
    use crate::style::verif_rig_style::*;
    use crate::verif_common::*;

    fn finish_variant(v: u8) -> ProgressFinish {
        match v {
            0 => ProgressFinish::AndLeave,
            1 => ProgressFinish::WithMessage("fm".into()),
            2 => ProgressFinish::AndClear,
            3 => ProgressFinish::Abandon,
            _ => ProgressFinish::AbandonWithMessage("fm".into()),
        }
    }

    fn setup(pos: u64, len: Option<u64>, b: usize, on_finish: ProgressFinish) -> BarState {
        unsafe {
            SLEN = 0;
            DRAWS = 0;
            LOG_FLOOR = 2;
            FS_CALLS = 0;
        }
        stack_push(b'L');
        stack_push(b'L');
        let mut i = 0;
        while i < 2 {
            if i < b {
                stack_push(b'O');
            }
            i += 1;
        }
        let mut ps = rig_pstate(pos, len, 0, 0);
        ps.message = TabExpandedString::NoTabs("m0".into());
        rig_bar(ps, rig_style_empty(), null_target(16, 8, b), on_finish)
    }

    /// the final frame: exactly one draw; rendered from pos = len for the finish variants / unchanged pos for the abandon
    /// variants, with the supplied message; no bar line at all for the clearing variant; the old frame is gone
    fn check_final_frame(v: u8, pos: u64, len: Option<u64>, b: usize) {
        unsafe {
            assert!(DRAWS == 1);
            if v == 2 {
                assert!(FS_CALLS == 0 && LAST_BARS == 0 && SLEN == 2);
            } else {
                assert!(FS_CALLS == 1 && LAST_BARS == 1 && LAST_TEXT == 0 && SLEN == 3);
                assert!(FS_FINISHED);
                assert!(FS_LEN == len);
                assert!(FS_POS == if v <= 1 { len.unwrap_or(pos) } else { pos });
                assert!(FS_MSG_LEN == 2 && FS_MSG0 == if v == 1 || v == 4 { b'f' } else { b'm' });
            }
        }
        let _ = b;
    }

    /// concrete finish variant per harness (a symbolic enum of Cow strings makes every string operation on the message a
    /// symbolic-pointer operation); position, length and the previous frame are symbolic
    fn finish_case(v: u8) {
        let pos: u64 = kani::any();
        let len: Option<u64> = kani::any();
        let b: usize = kani::any();
        kani::assume(b <= 2);
        let mut bs = setup(pos, len, b, ProgressFinish::AndClear);
        let now = mk_instant(1_000_000, 0);
        // the limiter really refuses: an ordinary draw paints nothing
        assert!(bs.draw(false, now).is_ok());
        assert!(unsafe { DRAWS } == 0 && unsafe { FS_CALLS } == 0);
        bs.finish_using_style(now, finish_variant(v));
        assert!(bs.state.is_finished());
        check_final_frame(v, pos, len, b);
        kani::cover!(b == 2 && len.is_none());
        kani::cover!(b == 0 && len.is_some());
        std::mem::forget(bs);
    }

    fn drop_case(v: u8, finished_before: bool) {
        let pos: u64 = kani::any();
        let len: Option<u64> = kani::any();
        let b: usize = kani::any();
        kani::assume(b <= 2);
        let mut bs = setup(pos, len, b, finish_variant(v));
        let now = mk_instant(1_000_000, 0);
        if finished_before {
            // finished explicitly (visibly for v even, cleared for v odd) -- the configured on_finish must not run again
            bs.finish_using_style(now, if v % 2 == 0 { ProgressFinish::Abandon } else { ProgressFinish::AndClear });
            let draws = unsafe { DRAWS };
            drop(bs);
            assert!(unsafe { DRAWS } == draws); // nothing on screen changes
        } else {
            drop(bs);
            check_final_frame(v, pos, len, b);
        }
        kani::cover!(b == 2);
    }

    // @harness id=C04 tier=quick timeout=1500 mem=6 checks=rust
    // @bounds finish (finish_using_style), pos/len over u64 (len known or unknown), previous frame of 0..=2 rows, limiter refusing every ordinary draw: the ordinary draw reaches nothing, the finishing draw paints exactly one frame rendered from the final state
    #[kani::proof]
    #[kani::unwind(6)]
    //@STUBS std now widthascii noterm nomulti rlrefuse noweight fsrecord dttcontract
    fn c04_finish_forces_final_frame() {
        finish_case(0);
    }

    // @harness id=C04 tier=quick timeout=1500 mem=6 checks=rust
    // @bounds finish_with_message (finish_using_style), pos/len over u64 (len known or unknown), previous frame of 0..=2 rows, limiter refusing every ordinary draw: the ordinary draw reaches nothing, the finishing draw paints exactly one frame rendered from the final state
    #[kani::proof]
    #[kani::unwind(6)]
    //@STUBS std now widthascii noterm nomulti rlrefuse noweight fsrecord dttcontract
    fn c04_finish_with_message_forces_final_frame() {
        finish_case(1);
    }

    // @harness id=C04 tier=quick timeout=1500 mem=6 checks=rust
    // @bounds finish_and_clear (finish_using_style), pos/len over u64 (len known or unknown), previous frame of 0..=2 rows, limiter refusing every ordinary draw: the ordinary draw reaches nothing, the finishing draw paints exactly one frame rendered from the final state
    #[kani::proof]
    #[kani::unwind(6)]
    //@STUBS std now widthascii noterm nomulti rlrefuse noweight fsrecord dttcontract
    fn c04_finish_and_clear_forces_final_frame() {
        finish_case(2);
    }

    // @harness id=C04 tier=quick timeout=1500 mem=6 checks=rust
    // @bounds abandon (finish_using_style), pos/len over u64 (len known or unknown), previous frame of 0..=2 rows, limiter refusing every ordinary draw: the ordinary draw reaches nothing, the finishing draw paints exactly one frame rendered from the final state
    #[kani::proof]
    #[kani::unwind(6)]
    //@STUBS std now widthascii noterm nomulti rlrefuse noweight fsrecord dttcontract
    fn c04_abandon_forces_final_frame() {
        finish_case(3);
    }

    // @harness id=C04 tier=quick timeout=1500 mem=6 checks=rust
    // @bounds abandon_with_message (finish_using_style), pos/len over u64 (len known or unknown), previous frame of 0..=2 rows, limiter refusing every ordinary draw: the ordinary draw reaches nothing, the finishing draw paints exactly one frame rendered from the final state
    #[kani::proof]
    #[kani::unwind(6)]
    //@STUBS std now widthascii noterm nomulti rlrefuse noweight fsrecord dttcontract
    fn c04_abandon_with_message_forces_final_frame() {
        finish_case(4);
    }

    // @harness id=C04 tier=deep timeout=3400 mem=28 checks=rust
    // @bounds dropping an UNFINISHED bar state whose on_finish behaviour is finish = that finish exactly once (limiter refusing); pos/len over u64
    #[kani::proof]
    #[kani::unwind(6)]
    //@STUBS std now widthascii noterm nomulti rlrefuse noweight fsrecord dttcontract finishclone
    fn c04_drop_unfinished_finish() {
        drop_case(0, false);
    }

    // @harness id=C04 tier=deep timeout=3400 mem=28 checks=rust
    // @bounds dropping an UNFINISHED bar state whose on_finish behaviour is finish_with_message = that finish exactly once (limiter refusing); pos/len over u64
    #[kani::proof]
    #[kani::unwind(6)]
    //@STUBS std now widthascii noterm nomulti rlrefuse noweight fsrecord dttcontract finishclone
    fn c04_drop_unfinished_finish_with_message() {
        drop_case(1, false);
    }

    // @harness id=C04 tier=deep timeout=3400 mem=28 checks=rust
    // @bounds dropping an UNFINISHED bar state whose on_finish behaviour is finish_and_clear = that finish exactly once (limiter refusing); pos/len over u64
    #[kani::proof]
    #[kani::unwind(6)]
    //@STUBS std now widthascii noterm nomulti rlrefuse noweight fsrecord dttcontract finishclone
    fn c04_drop_unfinished_finish_and_clear() {
        drop_case(2, false);
    }

    // @harness id=C04 tier=deep timeout=3400 mem=28 checks=rust
    // @bounds dropping an UNFINISHED bar state whose on_finish behaviour is abandon = that finish exactly once (limiter refusing); pos/len over u64
    #[kani::proof]
    #[kani::unwind(6)]
    //@STUBS std now widthascii noterm nomulti rlrefuse noweight fsrecord dttcontract finishclone
    fn c04_drop_unfinished_abandon() {
        drop_case(3, false);
    }

    // @harness id=C04 tier=deep timeout=3400 mem=28 checks=rust
    // @bounds dropping an UNFINISHED bar state whose on_finish behaviour is abandon_with_message = that finish exactly once (limiter refusing); pos/len over u64
    #[kani::proof]
    #[kani::unwind(6)]
    //@STUBS std now widthascii noterm nomulti rlrefuse noweight fsrecord dttcontract finishclone
    fn c04_drop_unfinished_abandon_with_message() {
        drop_case(4, false);
    }

    // @harness id=C04 tier=deep timeout=3400 mem=28 checks=rust
    // @bounds dropping an already FINISHED bar state (on_finish = finish): nothing is drawn
    #[kani::proof]
    #[kani::unwind(6)]
    //@STUBS std now widthascii noterm nomulti rlrefuse noweight fsrecord dttcontract finishclone
    fn c04_drop_finished_is_silent() {
        drop_case(0, true);
    }

    // @harness id=C04 tier=deep timeout=3400 mem=28 checks=rust
    // @bounds dropping a bar that was finished-and-cleared explicitly although its on_finish behaviour is finish_with_message: nothing is drawn (the cleared bar does not come back)
    #[kani::proof]
    #[kani::unwind(6)]
    //@STUBS std now widthascii noterm nomulti rlrefuse noweight fsrecord dttcontract finishclone
    fn c04_drop_cleared_is_silent() {
        drop_case(1, true);
    }
}
