// C04 — finishing or dropping a bar always paints its final state.
// @file-encodes state::BarState::finish_using_style, state::BarState::draw, state::BarState::drop, draw_target::ProgressDrawTarget::drawable, draw_target::RateLimiter::allow, draw_target::Drawable::state, draw_target::Drawable::draw, draw_target::DrawState::draw_to_term, style::ProgressStyle::format_state
// @file-assumes BarState built directly (rig) over the abstract screen with a TermLike target whose rate limiter is EXHAUSTED (capacity 0, prev = now, or prev later than now); template "{pos}/{len} {msg}"; Instant::now frozen; str::repeat = fixed-capacity filler; positions/lengths < 100
#[cfg(kani)]
mod verif_c04 {
    use super::verif_rig_state::*;
    use super::*;
    use crate::draw_target::verif_scr::*;
    use crate::style::verif_rig_style::*;
    use crate::verif_common::*;

    struct Exp {
        b: [u8; 16],
        n: usize,
    }

    fn put_num(e: &mut Exp, v: u64) {
        if v >= 10 {
            e.b[e.n] = b'0' + (v / 10) as u8;
            e.n += 1;
        }
        e.b[e.n] = b'0' + (v % 10) as u8;
        e.n += 1;
    }

    fn finish_variant(v: u8) -> ProgressFinish {
        match v {
            0 => ProgressFinish::AndLeave,
            1 => ProgressFinish::WithMessage("fm".into()),
            2 => ProgressFinish::AndClear,
            3 => ProgressFinish::Abandon,
            _ => ProgressFinish::AbandonWithMessage("fm".into()),
        }
    }

    /// b: rows of the frame painted before; future: the limiter's `prev` lies after `now`
    fn setup(pos: u64, len: Option<u64>, b: usize, future: bool, on_finish: ProgressFinish) -> (&'static Scr, BarState, Instant) {
        let scr = leak_scr(16, 4);
        scr_with_frame(scr, 2, b);
        let now = mk_instant(1_000_000, 0);
        let prev = if future { mk_instant(1_000_001, 0) } else { now };
        let spec = [RigPart::Key("pos"), RigPart::Lit("/"), RigPart::Key("len"), RigPart::Lit(" "), RigPart::Key("msg")];
        let mut ps = rig_pstate(pos, len, 0, 0);
        ps.message = TabExpandedString::NoTabs("m0".into());
        let bs = rig_bar(ps, rig_style_spec(&spec), scr_target_limited(scr, 20, 0, prev, b), on_finish);
        (scr, bs, now)
    }

    fn check_final_frame(scr: &Scr, v: u8, pos: u64, len: Option<u64>, b: usize) {
        // expected text of the last frame
        let mut e = Exp { b: [0; 16], n: 0 };
        if v != 2 {
            let fpos = if v <= 1 { len.unwrap_or(pos) } else { pos };
            put_num(&mut e, fpos);
            e.b[e.n] = b'/';
            e.n += 1;
            put_num(&mut e, len.unwrap_or(fpos));
            e.b[e.n] = b' ';
            e.n += 1;
            let m: &[u8] = if v == 1 || v == 4 { b"fm" } else { b"m0" };
            e.b[e.n] = m[0];
            e.b[e.n + 1] = m[1];
            e.n += 2;
        }
        assert!(scr.flushes.get() == 1); // exactly one frame reached the terminal
        assert!(scr.cap_is(&e.b, e.n));
        // no remnant of the previous frame; for the clearing variant nothing at all is left
        let mut i = 0;
        while i < NROWS {
            assert!(scr.tag(i) != T_OLD);
            if v == 2 && i >= 3 - b {
                assert!(scr.is_blank(i));
            }
            i += 1;
        }
    }

    // @harness id=C04 tier=quick timeout=3000 mem=14
    // @bounds every ProgressFinish variant via finish_using_style, pos/len < 100 (len known or unknown), previous frame of 0..=2 rows, limiter exhausted (prev = now or in the future): an ordinary draw is skipped, the finishing draw is not
    #[kani::proof]
    #[kani::unwind(13)]
    //@STUBS std now widthascii repeat noterm nomulti rlrefuse noweight
    fn c04_finish_forces_final_frame() {
        let pos: u64 = kani::any();
        let len: Option<u64> = kani::any();
        kani::assume(pos < 100 && len.unwrap_or(0) < 100);
        let b: usize = kani::any();
        kani::assume(b <= 2);
        let future: bool = kani::any();
        let v: u8 = kani::any();
        kani::assume(v < 5);
        let (scr, mut bs, now) = setup(pos, len, b, future, ProgressFinish::AndClear);
        // the limiter really is exhausted: an ordinary draw paints nothing
        let _ = bs.draw(false, now);
        assert!(scr.calls.get() == 0);
        scr.capture.set(true);
        bs.finish_using_style(now, finish_variant(v));
        assert!(bs.state.is_finished());
        check_final_frame(scr, v, pos, len, b);
        kani::cover!(v == 2 && b == 2);
        kani::cover!(v == 1 && len.is_none());
        kani::cover!(v == 4 && future);
        std::mem::forget(bs);
    }

    // @harness id=C04 tier=thorough timeout=3400 mem=28
    // @bounds dropping the last owner of an UNFINISHED bar state with every on_finish behaviour = that finish once (same final frame, limiter exhausted); dropping a FINISHED one performs no terminal call
    #[kani::proof]
    #[kani::unwind(13)]
    //@STUBS std now widthascii repeat noterm nomulti rlrefuse noweight
    fn c04_drop_paints_final_frame() {
        let pos: u64 = kani::any();
        let len: Option<u64> = kani::any();
        kani::assume(pos < 100 && len.unwrap_or(0) < 100);
        let b: usize = kani::any();
        kani::assume(b <= 2);
        let v: u8 = kani::any();
        kani::assume(v < 5);
        let finished_before: bool = kani::any();
        let (scr, mut bs, now) = setup(pos, len, b, false, finish_variant(v));
        if finished_before {
            bs.finish_using_style(now, ProgressFinish::Abandon);
            let calls = scr.calls.get();
            drop(bs);
            assert!(scr.calls.get() == calls); // nothing on screen changes
        } else {
            scr.capture.set(true);
            drop(bs);
            check_final_frame(scr, v, pos, len, b);
        }
        kani::cover!(finished_before);
        kani::cover!(!finished_before && v == 2);
        kani::cover!(!finished_before && v == 0 && len.is_some());
    }
}
