// C16 — tabs are always expanded before reaching the terminal. Decided in three layers (the whole pipeline through the real
// format_state is a thorough-tier harness, see harness/progress_bar/c16.rs and c16_pipeline below):
//   (1) TabExpandedString: expanded() = text with every TAB replaced by the CURRENT tab width, also after set_tab_width
//   (2) propagation: after any order of set_tab_width / set_style / set_message / set_prefix / finish_with_message every
//       tab-carrying string of the bar (message, prefix, template literals) and the style itself carry the current width
//   (3) TabRewriter (custom keys) replaces tabs with the width it is given
// format_state renders message / prefix / literals through expanded() and custom keys through TabRewriter(self.tab_width).
// @file-encodes state::TabExpandedString::new, state::TabExpandedString::expanded, state::TabExpandedString::set_tab_width, state::BarState::set_tab_width, state::BarState::set_style, state::BarState::finish_using_style (message path), style::ProgressStyle::set_tab_width, style::Template::set_tab_width, style::TabRewriter::write_str
// @file-assumes in layer (1) str::replace / str::repeat are replaced by byte-wise models for the TAB pattern (validated natively against std by engine/validate_stubs.py; std's CharSearcher/memchr makes CBMC unwind thousands of iterations); texts and tab widths are concrete per harness instance in layers (1) and (3) (string replacement on symbolic content allocates strings of symbolic size); in layer (2) the operation order and the tab widths are symbolic, the texts come from a table; set_message / set_prefix are performed as ProgressBar does (TabExpandedString::new(text, state.tab_width))
#[cfg(kani)]
mod verif_c16_state {
    use super::verif_rig_state::*;
    use super::*;
    use crate::style::verif_rig_style::*;
    use crate::verif_common::*;

    fn str_is(a: &str, want: &[u8]) -> bool {
        let b = a.as_bytes();
        if b.len() != want.len() {
            return false;
        }
        let mut ok = true;
        let mut i = 0;
        while i < 8 {
            if i < want.len() {
                ok &= b[i] == want[i];
            }
            i += 1;
        }
        ok
    }

    // expanded() = text with every tab replaced by the CURRENT width, split into three facts (a harness that creates, re-widths and
    // expands one string twice does not finish: > 15 min):
    //   (i)  with an empty cache expanded() computes the expansion from the current tab_width   (c16_expanded_uses_current_width)
    //   (ii) set_tab_width empties the cache exactly when the width changes                         (c16_set_tab_width_drops_cache)
    //   (iii) a filled cache is returned as is: std's OnceLock::get_or_init
    fn expanded_at(w: usize) {
        // the width is concrete per harness: a string whose LENGTH is symbolic makes every later string operation explode
        let t = TabExpandedString::WithTabs { original: "a\tb".into(), tab_width: w, expanded: std::sync::OnceLock::new() };
        let e = t.expanded();
        assert!(e.len() == 2 + w);
        std::mem::forget(t);
    }

    // @harness id=C16 tier=quick timeout=1500 mem=20 checks=rust
    // @bounds TabExpandedString::WithTabs("a\tb", width 2, empty cache): expanded() == "a  b"
    #[kani::proof]
    #[kani::unwind(12)]
    //@STUBS repeat replacetab
    fn c16_expanded_uses_current_width() {
        expanded_at(2);
    }

    // @harness id=C16 tier=quick timeout=1500 mem=14 checks=rust
    // @bounds TabExpandedString::WithTabs("a\tb", width 0, empty cache): expanded() == "ab"
    #[kani::proof]
    #[kani::unwind(12)]
    //@STUBS repeat replacetab
    fn c16_expanded_width_zero() {
        expanded_at(0);
    }

    // @harness id=C16 tier=quick timeout=1500 mem=14 checks=rust
    // @bounds TabExpandedString::WithTabs with a FILLED cache and any widths old, new in 0..=9: set_tab_width(new) stores new and empties the cache iff new != old; a NoTabs string is untouched; new("xy") is NoTabs and new("a\tb") is WithTabs with the given width
    #[kani::proof]
    #[kani::unwind(12)]
    fn c16_set_tab_width_drops_cache() {
        let old: usize = kani::any();
        let new: usize = kani::any();
        kani::assume(old <= 9 && new <= 9);
        let cache = std::sync::OnceLock::new();
        let _ = cache.set(String::from("stale"));
        let mut t = TabExpandedString::WithTabs { original: "a\tb".into(), tab_width: old, expanded: cache };
        t.set_tab_width(new);
        match &t {
            TabExpandedString::WithTabs { tab_width, expanded, .. } => {
                assert!(*tab_width == new);
                assert!(expanded.get().is_none() == (new != old));
            }
            _ => assert!(false),
        }
        let mut n = TabExpandedString::new("xy".into(), 3);
        n.set_tab_width(new);
        assert!(matches!(&n, TabExpandedString::NoTabs(s) if s.len() == 2));
        let c = TabExpandedString::new("a\tb".into(), 5);
        assert!(matches!(&c, TabExpandedString::WithTabs { tab_width: 5, .. }));
        kani::cover!(new == old);
        kani::cover!(new != old);
        std::mem::forget(t);
        std::mem::forget(n);
        std::mem::forget(c);
    }

    // @harness id=C16 tier=quick timeout=1500 mem=14 checks=rust
    // @bounds TabRewriter(width 3 / width 0) on "p\tq": "p   q" / "pq" (custom-key output)
    #[kani::proof]
    #[kani::unwind(12)]
    fn c16_tab_rewriter() {
        use std::fmt::Write;
        let mut out: Buf<16> = Buf::new();
        crate::style::verif_rig_style::tab_rewrite(&mut out, 3, "p\tq").unwrap();
        assert!(str_is(out.as_str(), b"p   q"));
        let mut out0: Buf<16> = Buf::new();
        crate::style::verif_rig_style::tab_rewrite(&mut out0, 0, "p\tq").unwrap();
        assert!(str_is(out0.as_str(), b"pq"));
    }

    fn widths_ok(bs: &BarState) -> bool {
        let tw = bs.tab_width;
        let mut ok = style_tab_width_is(&bs.style, tw);
        if let TabExpandedString::WithTabs { tab_width, .. } = &bs.state.message {
            ok &= *tab_width == tw;
        }
        if let TabExpandedString::WithTabs { tab_width, .. } = &bs.state.prefix {
            ok &= *tab_width == tw;
        }
        ok
    }

    /// A bar in an ARBITRARY consistent state: current tab width w0 in 0..=9, message / prefix / template literals holding tabs and
    /// carrying w0 (built directly, not through the functions under test).
    fn pre_state(w0: usize) -> BarState {
        // one tab-carrying literal: dropping the replaced style (set_style) is what CBMC pays for
        let spec = [RigPart::Lit("x\t")];
        let mut st = rig_style_spec(&spec);
        style_force_tab_width(&mut st, w0);
        let mut bs = rig_bar(rig_pstate(1, Some(2), 0, 0), st, ProgressDrawTarget::hidden(), ProgressFinish::AndLeave);
        bs.tab_width = w0;
        bs.state.message = TabExpandedString::WithTabs { original: "m\tn".into(), tab_width: w0, expanded: std::sync::OnceLock::new() };
        bs.state.prefix = TabExpandedString::WithTabs { original: "\tp".into(), tab_width: w0, expanded: std::sync::OnceLock::new() };
        bs
    }

    macro_rules! c16_step {
        ($name:ident, $bs:ident, $now:ident, $w0:ident, $op:block) => {
            #[kani::proof]
            #[kani::unwind(6)]
            //@STUBS std now noterm nomulti norender rlany noweight
            fn $name() {
                let $now = mk_instant(1_000_000, 0);
                let $w0: usize = kani::any();
                kani::assume($w0 <= 9);
                let mut $bs = pre_state($w0);
                assert!(widths_ok(&$bs));
                $op;
                assert!(widths_ok(&$bs));
                kani::cover!($w0 == 0);
                kani::cover!($w0 == 9);
                std::mem::forget($bs);
            }
        };
    }

    // One operation from an ARBITRARY consistent state (inductive step: histories of any length are covered).
    // @harness id=C16 tier=quick timeout=1800 mem=12 checks=rust
    // @bounds inductive step, set_tab_width(w in 0..=9) from any consistent state with width w0 in 0..=9: afterwards message, prefix, every template literal and the style carry the new width
    c16_step!(c16_step_set_tab_width, bs, now, w0, {
        let w: usize = kani::any();
        kani::assume(w <= 9);
        bs.set_tab_width(w);
        assert!(bs.tab_width == w);
        kani::cover!(w != w0);
    });

    // @harness id=C16 tier=quick timeout=1800 mem=12 checks=rust
    // @bounds inductive step, set_style(style whose field carries ANY width ws and whose TAB literals carry ANY width wl in 0..=9, e.g. a clone taken from another bar or a style re-templated with template()) from any consistent state: the installed style and its literals carry the bar's width
    c16_step!(c16_step_set_style, bs, now, w0, {
        let spec2 = [RigPart::Lit("\ty")];
        let mut st2 = rig_style_spec(&spec2);
        let ws: usize = kani::any();
        kani::assume(ws <= 9);
        style_force_tab_width(&mut st2, ws);
        // ... and its literals any other one (ProgressStyle::template() re-parses literals at the default width and leaves the field alone)
        let wl: usize = kani::any();
        kani::assume(wl <= 9);
        style_force_literal_width(&mut st2, wl);
        kani::cover!(ws == w0 && wl != w0);
        bs.set_style(st2);
    });

    // @harness id=C16 tier=quick timeout=1800 mem=12 checks=rust
    // @bounds inductive step, set_message / set_prefix (as ProgressBar performs them: TabExpandedString::new(text, state.tab_width) + update_estimate_and_draw) from any consistent state
    c16_step!(c16_step_set_message_prefix, bs, now, w0, {
        if kani::any() {
            bs.state.message = TabExpandedString::new("a\tb".into(), bs.tab_width);
        } else {
            bs.state.prefix = TabExpandedString::new("\t".into(), bs.tab_width);
        }
        bs.update_estimate_and_draw(now);
    });

    // @harness id=C16 tier=quick timeout=1800 mem=12 checks=rust
    // @bounds inductive step, finish_with_message("\tz") (finish_using_style with ProgressFinish::WithMessage) from any consistent state: the final message carries the bar's width
    c16_step!(c16_step_finish_with_message, bs, now, w0, {
        bs.finish_using_style(now, ProgressFinish::WithMessage("\tz".into()));
        assert!(matches!(&bs.state.message, TabExpandedString::WithTabs { .. }));
    });
}
