// experiments (id=ZZ is not a property; never part of a registered check)
#[cfg(kani)]
mod verif_zz_exp {
    use super::*;

    // @harness id=ZZ tier=quick timeout=900 mem=12 checks=rust
    #[kani::proof]
    #[kani::unwind(12)]
    fn zz_new_only() {
        let t = TabExpandedString::new("a\tb".into(), 8);
        assert!(matches!(t, TabExpandedString::WithTabs { .. }));
        std::mem::forget(t);
    }

    // @harness id=ZZ tier=quick timeout=900 mem=12 checks=rust
    #[kani::proof]
    #[kani::unwind(12)]
    fn zz_expanded_only() {
        let t = TabExpandedString::WithTabs { original: "a\tb".into(), tab_width: 2, expanded: std::sync::OnceLock::new() };
        assert!(t.expanded().len() == 4);
        std::mem::forget(t);
    }

    // @harness id=ZZ tier=quick timeout=900 mem=12 checks=rust
    #[kani::proof]
    #[kani::unwind(12)]
    fn zz_oncelock_only() {
        let c: std::sync::OnceLock<u32> = std::sync::OnceLock::new();
        let v = c.get_or_init(|| 7);
        assert!(*v == 7);
    }

    // @harness id=ZZ tier=quick timeout=900 mem=12 checks=rust
    #[kani::proof]
    #[kani::unwind(12)]
    //@STUBS repeat
    fn zz_expanded_repeatstub() {
        let t = TabExpandedString::WithTabs { original: "a\tb".into(), tab_width: 2, expanded: std::sync::OnceLock::new() };
        assert!(t.expanded().len() == 4);
        std::mem::forget(t);
    }

    // @harness id=ZZ tier=quick timeout=900 mem=12 checks=rust
    #[kani::proof]
    #[kani::unwind(12)]
    //@STUBS repeat replacetab
    fn zz_expanded_replacestub() {
        let t = TabExpandedString::WithTabs { original: "a\tb".into(), tab_width: 2, expanded: std::sync::OnceLock::new() };
        assert!(t.expanded().len() == 4);
        std::mem::forget(t);
    }
}
