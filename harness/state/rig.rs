// Shared rig: direct construction of small ProgressState / BarState values (skips Instant::now, Template parsing
// and the default style, which cost CBMC minutes and are not the subject of the harnesses that use the rig).
#[cfg(kani)]
pub(crate) mod verif_rig_state {
    use super::*;
    use crate::verif_common::*;

    pub(crate) fn rig_pos(pos: u64, t0: Instant) -> Arc<AtomicPosition> {
        Arc::new(AtomicPosition {
            pos: AtomicU64::new(pos),
            capacity: AtomicU8::new(MAX_BURST),
            prev: AtomicU64::new(0),
            start: t0,
        })
    }

    /// status: 0 = InProgress, 1 = DoneVisible, 2 = DoneHidden
    pub(crate) fn rig_status(s: u8) -> Status {
        match s {
            0 => Status::InProgress,
            1 => Status::DoneVisible,
            _ => Status::DoneHidden,
        }
    }

    pub(crate) fn rig_pstate(pos: u64, len: Option<u64>, tick: u64, status: u8) -> ProgressState {
        let t0 = mk_instant(1_000_000, 0);
        ProgressState {
            pos: rig_pos(pos, t0),
            len,
            tick,
            started: t0,
            status: rig_status(status),
            est: Estimator::new(t0),
            message: TabExpandedString::NoTabs("".into()),
            prefix: TabExpandedString::NoTabs("".into()),
        }
    }

    pub(crate) fn rig_bar(state: ProgressState, style: ProgressStyle, target: ProgressDrawTarget, on_finish: ProgressFinish) -> BarState {
        BarState { draw_target: target, on_finish, style, state, tab_width: DEFAULT_TAB_WIDTH }
    }

    pub(crate) fn status_code(s: &ProgressState) -> u8 {
        match s.status {
            Status::InProgress => 0,
            Status::DoneVisible => 1,
            Status::DoneHidden => 2,
        }
    }

    impl ProgressState {
        pub(crate) fn set_status_done(&mut self) {
            self.status = Status::DoneVisible;
        }
    }

    impl BarState {
        pub(crate) fn state_pos_arc(&self) -> Arc<AtomicPosition> {
            self.state.pos.clone()
        }
    }

    /// Contract stand-in for `estimator_weight` (0.1^(age/15)): w(0) = 1, otherwise an arbitrary value in [0, 1 - 1e-10].
    /// Used by every harness that is not about the estimator itself, to keep CBMC away from powf.
    pub(crate) fn weight_any(age: f64) -> f64 {
        if age == 0.0 {
            return 1.0;
        }
        let w: f64 = kani::any();
        kani::assume(w >= 0.0 && w <= 1.0 - 1e-10);
        w
    }

    /// `<ProgressFinish as Clone>::clone` for harnesses whose finish messages are the borrowed literal "fm": rebuilds the
    /// value without going through Cow::Owned / String::clone (an allocation of symbolic size for CBMC).
    pub(crate) fn clone_finish_fm(f: &ProgressFinish) -> ProgressFinish {
        match f {
            ProgressFinish::AndLeave => ProgressFinish::AndLeave,
            ProgressFinish::WithMessage(_) => ProgressFinish::WithMessage("fm".into()),
            ProgressFinish::AndClear => ProgressFinish::AndClear,
            ProgressFinish::Abandon => ProgressFinish::Abandon,
            ProgressFinish::AbandonWithMessage(_) => ProgressFinish::AbandonWithMessage("fm".into()),
        }
    }
}
