#!/usr/bin/env python3
"""Translation validation of the two environment models used by the Kani harnesses, run natively against the real code:

 1. verif_common::stub_width  ==  console::measure_text_width   on every string of <= 5 characters over the harness
    alphabet {ASCII, 2-byte/1-column, 3-byte/2-column}
 2. verif_scr::Scr (abstract terminal)  ~  InMemoryTerm (vt100 emulator)  on seed-derived random TermLike call sequences
    and on the call sequences produced by the real DrawState::draw_to_term: same blank / non-blank rows (first glyph),
    same cursor row, same cursor column (a parked cursor = last column with pending wrap).

The model sources are taken verbatim from /verif/harness (only `#[cfg(kani)]` is rewritten to `#[cfg(test)]`).
Exit 0 = both models agree with the real implementations on everything tried; exit 1 = disagreement (printed)."""
import os
import re
import shutil
import subprocess
import sys

sys.path.insert(0, os.path.dirname(os.path.abspath(__file__)))
import common  # noqa: E402
from common import HARNESS_DIR, REPO, say  # noqa: E402

TEST = r'''
#[cfg(test)]
mod verif_validate {
    use super::*;
    use crate::draw_target::verif_scr::*;
    use crate::TermLike;

    struct Rng(u64);
    impl Rng {
        fn next(&mut self) -> u64 {
            self.0 ^= self.0 << 13;
            self.0 ^= self.0 >> 7;
            self.0 ^= self.0 << 17;
            self.0
        }
        fn below(&mut self, n: u64) -> u64 {
            self.next() % n
        }
    }

    fn compare(scr: &Scr, mem: &InMemoryTerm, w: usize, h: usize, what: &str) -> Result<(), String> {
        let st = mem.state.lock().unwrap();
        let screen = st.parser.screen();
        let (crow, ccol) = screen.cursor_position();
        let top = scr.top();
        // cursor
        let srow = scr.row.get() - top;
        if srow != crow as usize {
            return Err(format!("{what}: cursor row model {} vs vt100 {}", srow, crow));
        }
        let scol = scr.col.get();
        let vcol = ccol as usize;
        if !(scol == vcol || (scol == w && vcol + 1 == w) || (scol == w && vcol == w)) {
            return Err(format!("{what}: cursor col model {} vs vt100 {}", scol, vcol));
        }
        for r in 0..h {
            let abs = top + r;
            let line: String = screen.rows(0, w as u16).nth(r).unwrap_or_default();
            let first = line.trim().bytes().next();
            let model_blank = abs >= NROWS || scr.is_blank(abs);
            match first {
                None => {
                    if !model_blank {
                        return Err(format!("{what}: row {r} blank in vt100, model tag {}", scr.tag(abs)));
                    }
                }
                Some(c) => {
                    // the model keeps one tag per row: the glyph of the LAST write that touched the row
                    if model_blank || !line.bytes().any(|b| b == scr.tag(abs)) {
                        return Err(format!("{what}: row {r} is {:?} (starts with {:?}) in vt100, model tag {}", line, c as char, if abs < NROWS { scr.tag(abs) } else { 0 }));
                    }
                }
            }
        }
        Ok(())
    }

    #[test]
    fn scr_model_vs_vt100_random_ops() {
        let seed: u64 = std::env::var("VERIF_SEED").ok().and_then(|s| s.parse().ok()).unwrap_or(0);
        let mut rng = Rng(0x9E3779B97F4A7C15 ^ (seed.wrapping_mul(0x2545F4914F6CDD1D) | 1));
        let mut traces = 0;
        for case in 0..400 {
            // w = 1 makes the vt100 crate itself panic (grid.rs: subtract with overflow), so the emulator cannot referee it
            let w = 2 + rng.below(3) as usize;
            // (h = 1 as well: grid.rs `prev_pos.row -= scrolled` underflows when a wrap scrolls a one-row screen)
            let h = 2 + rng.below(3) as usize;
            let scr = Scr::new(w, h);
            let mem = InMemoryTerm::new(h as u16, w as u16);
            let mut desc = format!("case {case} w={w} h={h}:");
            let mut letter = b'a';
            for _ in 0..(3 + rng.below(8)) {
                if scr.maxrow.get() + 4 >= NROWS {
                    break;
                }
                match rng.below(6) {
                    0 => {
                        let n = rng.below(3) as usize;
                        desc += &format!(" up({n})");
                        scr.move_cursor_up(n).unwrap();
                        mem.move_cursor_up(n).unwrap();
                        // the harness code under test always follows a cursor move by clear_line or "\r"
                        desc += " cr";
                        scr.write_str("\r").unwrap();
                        mem.write_str("\r").unwrap();
                    }
                    1 => {
                        let n = rng.below(3) as usize;
                        desc += &format!(" down({n})");
                        scr.move_cursor_down(n).unwrap();
                        mem.move_cursor_down(n).unwrap();
                        desc += " cr";
                        scr.write_str("\r").unwrap();
                        mem.write_str("\r").unwrap();
                    }
                    2 => {
                        desc += " clear";
                        scr.clear_line().unwrap();
                        mem.clear_line().unwrap();
                    }
                    3 | 4 => {
                        let n = rng.below(2 * w as u64 + 1) as usize;
                        let s: String = std::iter::repeat(letter as char).take(n).collect();
                        letter = if letter == b'y' { b'a' } else { letter + 1 };
                        desc += &format!(" str({s:?})");
                        scr.write_str(&s).unwrap();
                        mem.write_str(&s).unwrap();
                    }
                    _ => {
                        let n = rng.below(w as u64 + 2) as usize;
                        let s: String = std::iter::repeat(letter as char).take(n).collect();
                        letter = if letter == b'y' { b'a' } else { letter + 1 };
                        desc += &format!(" line({s:?})");
                        scr.write_line(&s).unwrap();
                        mem.write_line(&s).unwrap();
                    }
                }
                if scr.ovf.get() {
                    break;
                }
                if let Err(e) = compare(&scr, &mem, w, h, &desc) {
                    panic!("MODEL DISAGREES: {e}");
                }
            }
            traces += 1;
        }
        println!("VALIDATED scr_random_traces={traces}");
    }

    #[test]
    fn scr_model_vs_vt100_draw_to_term() {
        use crate::draw_target::{DrawState, LineType, VisualLines};
        let seed: u64 = std::env::var("VERIF_SEED").ok().and_then(|s| s.parse().ok()).unwrap_or(0);
        let mut rng = Rng(0xD1B54A32D192ED03 ^ (seed.wrapping_mul(0x9E3779B97F4A7C15) | 1));
        let mut traces = 0;
        for case in 0..300 {
            let w = 2 + rng.below(3) as usize;
            let h = 2 + rng.below(3) as usize;
            let scr = Scr::new(w, h);
            let mem = InMemoryTerm::new(h as u16, w as u16);
            let mut last_s = VisualLines::default();
            let mut last_m = VisualLines::default();
            let mut desc = format!("draw case {case} w={w} h={h}:");
            for round in 0..(1 + rng.below(4)) {
                if scr.maxrow.get() + 2 * 3 + 2 >= NROWS {
                    break;
                }
                let n = rng.below(3) as usize;
                let nt = if n == 0 { 0 } else { rng.below(n as u64 + 1) as usize };
                let mut ds = DrawState::default();
                if rng.below(2) == 0 {
                    ds.alignment = crate::MultiProgressAlignment::Bottom;
                }
                for k in 0..n {
                    let l = rng.below(2 * w as u64 + 1) as usize;
                    let letter = if k < nt { b'a' + k as u8 } else { b'A' + k as u8 };
                    let s: String = std::iter::repeat(letter as char).take(l).collect();
                    ds.lines.push(if k < nt { LineType::Text(s) } else { LineType::Bar(s) });
                }
                desc += &format!(" round{round}{:?}", ds.lines);
                let mut ds2 = ds.clone();
                ds.draw_to_term_for_validation(&scr, &mut last_s).unwrap();
                ds2.draw_to_term_for_validation(&mem, &mut last_m).unwrap();
                assert_eq!(last_s, last_m);
                if scr.ovf.get() {
                    break;
                }
                if let Err(e) = compare(&scr, &mem, w, h, &desc) {
                    panic!("MODEL DISAGREES: {e}");
                }
            }
            traces += 1;
        }
        println!("VALIDATED scr_draw_traces={traces}");
    }
}
'''

WIDTH_TEST = r'''
#[cfg(test)]
mod verif_validate_width {
    use crate::verif_common::stub_width;
    #[test]
    fn width_model_vs_console() {
        let alpha = ["a", "Z", " ", "~", "\u{e9}", "\u{e0}", "\u{4e16}", "\u{4e00}"];
        let mut n = 0u64;
        let mut stack: Vec<String> = vec![String::new()];
        while let Some(s) = stack.pop() {
            assert_eq!(stub_width(&s), console::measure_text_width(&s), "width model disagrees on {:?}", s);
            n += 1;
            if s.chars().count() < 5 {
                for a in alpha.iter() {
                    let mut t = s.clone();
                    t.push_str(a);
                    stack.push(t);
                }
            }
        }
        println!("VALIDATED width_strings={n}");
    }

    #[test]
    fn replace_model_vs_std() {
        use crate::verif_common::{stub_repeat, stub_replace_tab};
        let alpha = ["a", "\t", "\u{e9}", " "];
        let mut n = 0u64;
        let mut stack: Vec<String> = vec![String::new()];
        while let Some(s) = stack.pop() {
            for w in 0..=9usize {
                let to = " ".repeat(w);
                assert_eq!(stub_repeat(" ", w), to);
                assert_eq!(stub_replace_tab(&s, '\t', &to), s.replace('\t', &to), "replace model disagrees on {:?} width {}", s, w);
                n += 1;
            }
            if s.chars().count() < 5 {
                for a in alpha.iter() {
                    let mut t = s.clone();
                    t.push_str(a);
                    stack.push(t);
                }
            }
        }
        println!("VALIDATED replace_cases={n}");
    }
}
'''


def main():
    root = common.scratch_root()
    d = os.path.join(root, "validate")
    os.makedirs(d)
    for f in ("Cargo.toml", "Cargo.lock"):
        shutil.copy2(os.path.join(REPO, f), os.path.join(d, f))
    shutil.copytree(os.path.join(REPO, "src"), os.path.join(d, "src"))

    def native(text):
        return text.replace("#[cfg(kani)]", "#[cfg(test)]")

    scr = native(open(os.path.join(HARNESS_DIR, "draw_target", "scr.rs")).read())
    # the step helpers use kani only in mk_line's caller; Scr itself is kani-free. draw_to_term is private: expose it for the test
    with open(os.path.join(d, "src", "draw_target.rs"), "a") as f:
        f.write("\n" + scr + "\n#[cfg(test)]\nimpl DrawState {\n    pub(crate) fn draw_to_term_for_validation(&mut self, term: &(impl TermLike + ?Sized), bar_count: &mut VisualLines) -> io::Result<()> {\n        self.draw_to_term(term, bar_count)\n    }\n}\n")
    common_rs = native(open(os.path.join(HARNESS_DIR, "lib", "common.rs")).read())
    # formatting_options is nightly-only: drop the render helper natively
    common_rs = re.sub(r"    /// Render a Display value.*?\n    }\n", "", common_rs, flags=re.S)
    # core::str::pattern::Pattern is nightly-only: natively the model takes the char pattern the code under test uses
    common_rs = common_rs.replace("stub_replace_tab<P: core::str::pattern::Pattern>(s: &str, _from: P,", "stub_replace_tab(s: &str, _from: char,")
    with open(os.path.join(d, "src", "lib.rs"), "a") as f:
        f.write("\n" + common_rs + "\n" + WIDTH_TEST)
    with open(os.path.join(d, "src", "in_memory.rs"), "a") as f:
        f.write("\n" + TEST)
    env = dict(os.environ, CARGO_NET_OFFLINE="true", CARGO_TARGET_DIR=os.path.join(root, "target_validate"))
    p = subprocess.run(["cargo", "test", "--offline", "--lib", "--features", "in_memory", "verif_validate", "--", "--nocapture", "--test-threads=1"],
                       cwd=d, capture_output=True, text=True, env=env)
    out = p.stdout + p.stderr
    vals = re.findall(r"VALIDATED (\w+)=(\d+)", out)
    for k, v in vals:
        say("validate_stubs: %s = %s" % (k, v))
    ok = p.returncode == 0 and len(vals) == 4
    if not ok:
        say(out[-3000:])
        say("validate_stubs: FAILED")
    common.cleanup()
    return 0 if ok else 1


if __name__ == "__main__":
    sys.exit(main())
