"""Path-wise symbolic execution of MIR functions up to chosen call sites (engine M, used by C04 / C06).

Every ACYCLIC control-flow path from the entry to a statement of interest is executed with the locals as SMT terms (Int;
bools are 0/1): constants, copies, discriminant reads, field reads (one canonical symbol per place text), BitOr/BitAnd/Not,
comparisons (uninterpreted), calls (one uninterpreted symbol per call site). Branch conditions are collected as SMT
assertions. Loops are cut at the first repeated block: the functions analysed assign the values of interest outside loops
(checked by the caller through `assigned_in_cycle`).
"""
import re

import mirsmt as M
from props.C08 import CALL_RE


class Path:
    def __init__(self, conds, env, events, stmt, bb, args):
        self.conds, self.env, self.events, self.stmt, self.bb, self.args = conds, env, events, stmt, bb, args


class Exec:
    def __init__(self, fn, max_paths=20000):
        self.fn = fn
        self.decls = set()
        self.cnt = 0
        self.max_paths = max_paths

    def fresh(self, base):
        self.cnt += 1
        n = re.sub(r"\W", "_", base)[:60] + "_%d" % self.cnt
        self.decls.add(n)
        return n

    def sym(self, name):
        n = re.sub(r"\W", "_", name)[:80]
        self.decls.add(n)
        return n

    def operand(self, env, op):
        op = op.strip()
        m = re.match(r"^(?:copy|move) (_\d+)$", op)
        if m:
            if m.group(1) not in env:
                env[m.group(1)] = self.sym("init" + m.group(1))
            return env[m.group(1)]
        if op == "const true":
            return "1"
        if op == "const false":
            return "0"
        m = re.match(r"^const (\d+)_\w+$", op)
        if m:
            return m.group(1)
        m = re.match(r"^(?:copy|move) (\(.*\))$", op)
        if m:
            return self.sym("place_" + m.group(1))
        return self.fresh("x")

    def rvalue(self, env, rhs):
        m = re.match(r"^(BitOr|BitAnd)\((.*)\)$", rhs)
        if m:
            a, b = [self.operand(env, x) for x in M.split_top(m.group(2))]
            if m.group(1) == "BitOr":
                return "(ite (or (not (= %s 0)) (not (= %s 0))) 1 0)" % (a, b)
            return "(ite (and (not (= %s 0)) (not (= %s 0))) 1 0)" % (a, b)
        m = re.match(r"^Not\((.*)\)$", rhs)
        if m:
            return "(ite (= %s 0) 1 0)" % self.operand(env, m.group(1))
        m = re.match(r"^(Eq|Ne)\((.*)\)$", rhs)
        if m:
            a, b = [self.operand(env, x) for x in M.split_top(m.group(2))]
            return "(ite (%s (= %s %s)) 1 0)" % ("" if m.group(1) == "Eq" else "not", a, b) if m.group(1) == "Ne" else "(ite (= %s %s) 1 0)" % (a, b)
        m = re.match(r"^discriminant\((.*)\)$", rhs)
        if m:
            return self.sym("disc_" + m.group(1))
        if re.match(r"^(const \S+|(?:copy|move) (_\d+|\(.*\)))$", rhs):
            return self.operand(env, rhs)
        return self.fresh("v")

    def run(self, want_call=None, want_stmt=None, want_return=False):
        """yield Path objects at every statement whose callee matches want_call (regex on the callee with generics removed),
        every statement matching want_stmt (regex), and/or every return"""
        fn = self.fn
        out = []
        work = [("bb0", {}, [], [], ())]
        params = [p for p, _ in fn.params]
        while work:
            bb, env, conds, events, visited = work.pop()
            if bb in visited:
                continue  # loop cut
            if len(out) > self.max_paths:
                raise M.Unsupported("too many paths in %s" % fn.name)
            visited = visited + (bb,)
            env = dict(env)
            for p in params:
                env.setdefault(p, self.sym("arg" + p))
            conds = list(conds)
            events = list(events)
            nxt = []
            for s in fn.blocks.get(bb, []):
                if want_stmt and re.search(want_stmt, s):
                    out.append(Path(list(conds), dict(env), list(events), s, bb, None))
                c = CALL_RE.match(s)
                if c:
                    dst, callee, argstr, tgt = c.group(1).strip(), c.group(2).strip(), c.group(3), c.group(4)
                    short = re.sub(r"::<.*?>", "", callee)
                    args = [self.operand(env, a) for a in (M.split_top(argstr) if argstr.strip() else [])]
                    if want_call and re.search(want_call, short):
                        out.append(Path(list(conds), dict(env), list(events), s, bb, args))
                    v = self.sym("ret_%s_%s" % (short, bb))
                    events.append(("call", short, args, v))
                    if re.match(r"^_\d+$", dst):
                        env[dst] = v
                    nxt = [(tgt, None)]
                    break
                m = re.match(r"^(_\d+) = (.*);$", s)
                if m:
                    env[m.group(1)] = self.rvalue(env, m.group(2))
                    continue
                sw = re.match(r"^switchInt\((.*?)\) -> \[(.*)\];$", s)
                if sw:
                    t = self.operand(env, sw.group(1))
                    arms = [[x.strip() for x in a.split(":")] for a in sw.group(2).split(",")]
                    explicit = [k for k, _ in arms if k != "otherwise"]
                    for k, tgt in arms:
                        if k == "otherwise":
                            cond = "(and %s)" % " ".join("(not (= %s %s))" % (t, e) for e in explicit) if explicit else "true"
                        else:
                            cond = "(= %s %s)" % (t, k)
                        nxt.append((tgt, cond))
                    break
                g = re.match(r"^goto -> (bb\d+);$", s)
                if g:
                    nxt = [(g.group(1), None)]
                    break
                d = re.match(r"^drop\(.*\) -> \[return: (bb\d+)", s)
                if d:
                    nxt = [(d.group(1), None)]
                    break
                a = re.match(r"^assert\(.*\) -> \[success: (bb\d+)", s)
                if a:
                    nxt = [(a.group(1), None)]
                    break
                f = re.match(r"^false(?:Edge|Unwind) -> \[real: (bb\d+)", s)
                if f:
                    nxt = [(f.group(1), None)]
                    break
                if s == "return;":
                    if want_return:
                        out.append(Path(list(conds), dict(env), list(events), s, bb, None))
                    break
                if s.startswith("unreachable"):
                    break
            for tgt, cond in nxt:
                work.append((tgt, env, conds + ([cond] if cond else []), events, visited))
        return out

    def declarations(self):
        return ["(declare-const %s Int)" % d for d in sorted(self.decls)]


def in_cycle_blocks(fn):
    """blocks that lie on a CFG cycle (normal edges)"""
    succ = {}
    for bb, stmts in fn.blocks.items():
        t = []
        for s in stmts:
            c = CALL_RE.match(s)
            if c:
                t = [c.group(4)]
                break
            m = re.match(r"^switchInt\(.*?\) -> \[(.*)\];$", s)
            if m:
                t = [x.split(":")[1].strip() for x in m.group(1).split(",")]
                break
            m = re.search(r"(?:goto -> |return: |success: |real: )(bb\d+)", s)
            if m and not s.startswith("_"):
                t = [m.group(1)]
                break
        succ[bb] = t
    cyc = set()
    for start in succ:
        seen, st = set(), list(succ[start])
        while st:
            b = st.pop()
            if b == start:
                cyc.add(start)
                break
            if b in seen:
                continue
            seen.add(b)
            st.extend(succ.get(b, []))
    return cyc


def assigned_in_cycle(fn, local):
    cyc = in_cycle_blocks(fn)
    for bb in cyc:
        for s in fn.blocks.get(bb, []):
            if re.match(r"^%s = " % re.escape(local), s):
                return True
    return False


def valid(ex, conds, claim, timeout=20):
    """claim must hold on the path: (conds and not claim) unsat. -> (True/False/None, result)"""
    r = M.solve(ex.declarations(), ["(assert %s)" % c for c in conds] + ["(assert (not %s))" % claim], timeout=timeout)
    if r["verdict"] == "unsat":
        return True, r
    if r["verdict"] == "sat":
        return False, r
    return None, r


def feasible(ex, conds, timeout=20):
    r = M.solve(ex.declarations(), ["(assert %s)" % c for c in conds], timeout=timeout)
    return r["verdict"] == "sat"
