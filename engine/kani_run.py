"""Engine K: attach the harness modules in /verif/harness to a scratch copy of /repo's current
working tree, run `cargo kani` per harness (parallel, each under a memory cap and a timeout),
classify the solver's verdicts, and confirm counter-examples by native concrete playback."""
import glob
import os
import re
import resource
import shutil
import signal
import subprocess
import threading
import time

from common import HARNESS_DIR, OUT_DIR, REPO, register_child, say, scratch_root, unregister_child

ENV = dict(os.environ, CARGO_NET_OFFLINE="true", CARGO_TERM_COLOR="never")
TOTAL_MEM_GB = int(os.environ.get("VERIF_MEM_GB", "52"))
MAX_WORKERS = int(os.environ.get("VERIF_JOBS", "16"))


class Harness:
    def __init__(self, name, src, hfile, meta, bounds, encodes, assumes):
        self.name = name          # fn name (unique in the crate)
        self.src = src            # e.g. "style" -> appended to src/style.rs
        self.hfile = hfile        # path of the harness file defining it
        self.id = meta["id"]
        self.tier = meta.get("tier", "quick")
        self.timeout = int(meta.get("timeout", "600"))
        self.mem = int(meta.get("mem", "6"))
        self.expect = meta.get("expect", "pass")      # pass | known:<finding id>
        self.features = meta.get("features", "")
        self.replay = meta.get("replay", "playback")  # playback | trace
        self.kind = meta.get("kind", "proof")         # proof | should_panic
        self.group = meta.get("group", "")
        # checks=rust: only the panics/assertions of the Rust semantics (explicit MIR asserts, kani::assert, unwinding
        # assertions); CBMC's own pointer-validity instrumentation is switched off (the code under test is safe Rust)
        self.checks = meta.get("checks", "all")
        self.cbmc = meta.get("cbmc", "")  # extra CBMC flags, comma separated (e.g. cbmc=--arrays-uf-always)
        self.bounds = bounds
        self.encodes = encodes
        self.assumes = assumes
        self.result = None


def discover():
    """Parse `// @harness k=v ...` annotations in /verif/harness/<src>/*.rs."""
    out = []
    for path in sorted(glob.glob(os.path.join(HARNESS_DIR, "*", "*.rs"))):
        src = os.path.basename(os.path.dirname(path))
        if src.startswith("_"):
            continue
        lines = open(path).read().split("\n")
        file_encodes, file_assumes = [], []
        cur_mod = None
        i = 0
        while i < len(lines):
            ln = lines[i].strip()
            mm = re.match(r"^(pub(\(crate\))?\s+)?mod\s+(\w+)\s*\{", lines[i])
            if mm:
                cur_mod = mm.group(3)
            if ln.startswith("// @file-encodes"):
                file_encodes += [x.strip() for x in ln[len("// @file-encodes"):].split(",") if x.strip()]
            elif ln.startswith("// @file-assumes"):
                file_assumes.append(ln[len("// @file-assumes"):].strip())
            elif ln.startswith("// @harness"):
                meta = dict(kv.split("=", 1) for kv in ln[len("// @harness"):].split())
                bounds, encodes, assumes = [], list(file_encodes), list(file_assumes)
                j = i + 1
                name = None
                while j < len(lines):
                    l2 = lines[j].strip()
                    if l2.startswith("// @bounds"):
                        bounds.append(l2[len("// @bounds"):].strip())
                    elif l2.startswith("// @encodes"):
                        encodes += [x.strip() for x in l2[len("// @encodes"):].split(",") if x.strip()]
                    elif l2.startswith("// @assumes"):
                        assumes.append(l2[len("// @assumes"):].strip())
                    m = re.match(r"(pub(\(crate\))?\s+)?fn\s+(\w+)\s*\(", l2)
                    if m:
                        name = m.group(3)
                        break
                    m = re.match(r"^\w+!\((\w+),", l2)  # harness defined through a macro: name is the first argument
                    if m:
                        name = m.group(1)
                        break
                    j += 1
                if name is None:
                    raise SystemExit("harness annotation without fn in %s:%d" % (path, i + 1))
                hh = Harness(name, src, path, meta, bounds, encodes, assumes)
                hh.qual = "%s::%s::%s" % (src, cur_mod, name)
                out.append(hh)
                i = j
            i += 1
    names = [h.name for h in out]
    dup = set(n for n in names if names.count(n) > 1)
    if dup:
        raise SystemExit("duplicate harness names: %s" % sorted(dup))
    return out


STUB_SETS = {
    "std": ["std::hash::RandomState::new, crate::style::verif_rig_style::stub_rs",
            "console::colors_enabled, crate::verif_common::stub_false",
            "console::colors_enabled_stderr, crate::verif_common::stub_false",
            "<console::Style as std::clone::Clone>::clone, crate::verif_common::plain_style_clone"],
    "width": ["console::measure_text_width, crate::verif_common::stub_width"],
    "widthascii": ["console::measure_text_width, crate::verif_common::stub_width_ascii"],
    "repeat": ["str::repeat, crate::verif_common::stub_repeat"],
    "replacetab": ["str::replace, crate::verif_common::stub_replace_tab"],
    "now": ["std::time::Instant::now, crate::verif_common::stub_now"],
    "noterm": ["console::Term::is_term, crate::draw_target::verif_rig_dt::no_term_is_term",
               "console::Term::size, crate::draw_target::verif_rig_dt::no_term_size"],
    "nomulti": ["crate::multi::MultiState::draw, crate::draw_target::verif_rig_dt::no_multi_draw",
                "crate::multi::MultiState::draw_state, crate::draw_target::verif_rig_dt::no_multi_draw_state",
                "crate::multi::MultiState::width, crate::draw_target::verif_rig_dt::no_multi_width",
                "crate::multi::MultiState::is_hidden, crate::draw_target::verif_rig_dt::no_multi_is_hidden",
                "crate::multi::MultiState::mark_zombie, crate::draw_target::verif_rig_dt::no_multi_mark_zombie"],
    "nontty": ["console::Term::is_term, crate::draw_target::verif_rig_dt::nontty_is_term",
               "console::Term::size, crate::draw_target::verif_rig_dt::nontty_size",
               "console::TermFeatures::is_attended, crate::draw_target::verif_rig_dt::nontty_attended",
               "console::Term::write_line, crate::draw_target::verif_rig_dt::term_out_str",
               "console::Term::write_str, crate::draw_target::verif_rig_dt::term_out_str",
               "console::Term::clear_line, crate::draw_target::verif_rig_dt::term_out0",
               "console::Term::flush, crate::draw_target::verif_rig_dt::term_out0",
               "console::Term::move_cursor_up, crate::draw_target::verif_rig_dt::term_out_n",
               "console::Term::move_cursor_down, crate::draw_target::verif_rig_dt::term_out_n",
               "console::Term::move_cursor_left, crate::draw_target::verif_rig_dt::term_out_n",
               "console::Term::move_cursor_right, crate::draw_target::verif_rig_dt::term_out_n"],
    "rlany": ["crate::draw_target::RateLimiter::allow, crate::draw_target::verif_rig_dt::rl_any"],
    "rlrefuse": ["crate::draw_target::RateLimiter::allow, crate::draw_target::verif_rig_dt::rl_refuse"],
    "rlctl": ["crate::draw_target::RateLimiter::allow, crate::draw_target::verif_rig_dt::rl_controlled"],
    "posany": ["crate::state::AtomicPosition::allow, crate::draw_target::verif_rig_dt::pos_any"],
    "noweight": ["crate::state::estimator_weight, crate::state::verif_rig_state::weight_any"],
    "dttcontract": ["crate::draw_target::DrawState::draw_to_term, crate::draw_target::verif_rig_dt::contract_draw_to_term"],
    "rows1": ["crate::draw_target::visual_line_count, crate::draw_target::verif_rig_dt::rows_are_lines",
              "crate::draw_target::DrawState::visual_line_count, crate::draw_target::verif_rig_dt::ds_rows_are_lines"],
    "multidrawrec": ["crate::multi::MultiState::draw, crate::multi::verif_rig_multi::record_multi_draw"],
    "pbfinishrec": ["crate::progress_bar::ProgressBar::is_finished, crate::progress_bar::verif_rig_pb::rec_is_finished",
                    "crate::progress_bar::ProgressBar::finish_using_style, crate::progress_bar::verif_rig_pb::rec_finish_using_style"],
    "noremove": ["crate::multi::MultiState::remove_idx, crate::multi::verif_rig_multi::record_remove_idx"],
    "lineclone": ["<crate::draw_target::LineType as std::clone::Clone>::clone, crate::draw_target::verif_rig_dt::clone_one_letter_line"],
    "nofloat": ["<f32 as std::fmt::Display>::fmt, crate::verif_common::fmt_f32_marker",
                "<f64 as std::fmt::Display>::fmt, crate::verif_common::fmt_f64_marker"],
    "fsrecord": ["crate::style::ProgressStyle::format_state, crate::style::verif_rig_style::recording_format_state"],
    "finishclone": ["<crate::state::ProgressFinish as std::clone::Clone>::clone, crate::state::verif_rig_state::clone_finish_fm"],
    "norwlock": ["std::sync::RwLock::write, crate::draw_target::verif_rig_dt::no_rwlock_write",
                 "std::sync::RwLock::read, crate::draw_target::verif_rig_dt::no_rwlock_read"],
    "norender": ["crate::style::ProgressStyle::format_state, crate::style::verif_rig_style::no_format_state"],
}


def expand_stubs(text):
    """`//@STUBS a b c` lines in harness files expand to the #[kani::stub(..)] attributes of the named sets."""
    out = []
    for ln in text.split("\n"):
        m = re.match(r"^(\s*)//@STUBS (.*)$", ln)
        if m:
            for name in m.group(2).split():
                for st in STUB_SETS[name]:
                    out.append("%s#[kani::stub(%s)]" % (m.group(1), st))
        else:
            out.append(ln)
    return "\n".join(out)


def _wanted(path, prop, only_file=None):
    """Shared files (no @harness annotation) are always included; harness files only for their property, so a
    harness that stops compiling after a source change cannot break the checks of other properties. With only_file, just
    that one harness file (plus the shared files): the fallback when one harness file of a property stops compiling."""
    if prop is None:
        return True
    ids = re.findall(r"^\s*// @harness .*?\bid=(\w+)", open(path).read(), re.M)
    if only_file is not None and ids:
        return os.path.abspath(path) == os.path.abspath(only_file)
    return (not ids) or (prop in ids)


def make_overlay(dst, extra_tests=None, prop=None, only_file=None, strip_covers=False):
    """Copy /repo's *current working tree* sources and append the harness modules.
    extra_tests: {harness_file_path: rust code inserted before that module's closing brace}."""
    os.makedirs(dst, exist_ok=True)
    for f in ("Cargo.toml", "Cargo.lock"):
        shutil.copy2(os.path.join(REPO, f), os.path.join(dst, f))
    if os.path.isdir(os.path.join(dst, "src")):
        shutil.rmtree(os.path.join(dst, "src"))
    shutil.copytree(os.path.join(REPO, "src"), os.path.join(dst, "src"))
    for path in sorted(glob.glob(os.path.join(HARNESS_DIR, "_pre", "*.rs"))):
        target = os.path.join(dst, "src", os.path.basename(path))
        body = open(target).read()
        with open(target, "w") as f:
            f.write(open(path).read() + body)
    appended = {}
    for path in sorted(glob.glob(os.path.join(HARNESS_DIR, "*", "*.rs"))):
        src = os.path.basename(os.path.dirname(path))
        if src.startswith("_") or not _wanted(path, prop, only_file):
            continue
        target = os.path.join(dst, "src", src + ".rs")
        if not os.path.exists(target):
            raise SystemExit("harness dir %s has no matching src/%s.rs in the repository" % (src, src))
        text = expand_stubs(open(path).read())
        if strip_covers:
            # counter-example extraction solves once per failed check AND once per cover: the covers are not needed for a replay
            text = re.sub(r"^[ \t]*kani::cover!\([^\n]*\);[ \t]*$", "", text, flags=re.M)
        if extra_tests and path in extra_tests:
            k = text.rstrip().rfind("}")
            text = text[:k] + "\n" + extra_tests[path] + "\n}\n"
        appended.setdefault(target, []).append("\n// ---- appended by /verif/engine/kani_run.py from %s ----\n%s" % (path, text))
    for target, chunks in appended.items():
        with open(target, "a") as f:
            f.write("\n" + "\n".join(chunks))
    return dst


# (check names may contain spaces, e.g. `std::vec::Vec::<T, A>::insert_mut::assert_failed.assertion.1`)
CHECK_RE = re.compile(r"^Check (\d+): ([^\n]+)\n\t - Status: (\w+)\n\t - Description: \"(.*)\"\n(?:\t - Location: (.*)\n)?", re.M)


def parse_log(text, h):
    r = {"harness": h.name}
    checks = CHECK_RE.findall(text)
    status_count = {}
    failed = []
    covers_total = covers_sat = 0
    unsat_covers = []
    for (_n, cname, status, desc, loc) in checks:
        if ".cover." in cname or desc.startswith("cover condition") :
            covers_total += 1
            if status == "SATISFIED":
                covers_sat += 1
            else:
                unsat_covers.append("%s [%s] %s" % (desc, status, loc))
            continue
        status_count[status] = status_count.get(status, 0) + 1
        if status == "FAILURE":
            if desc.startswith("NaN on "):
                # CBMC's --nan-check flags the *production* of a NaN by a float operation. That is not a panic or UB
                # in Rust; harnesses assert on NaN explicitly where the property cares (C09, C13).
                status_count["NAN_INFO"] = status_count.get("NAN_INFO", 0) + 1
                continue
            failed.append({"desc": desc, "loc": loc, "check": cname})
    r["checks"] = sum(status_count.values())
    r["checks_by_status"] = status_count
    r["failed"] = failed
    r["covers"] = [covers_sat, covers_total]
    r["unsat_covers"] = unsat_covers
    m = re.findall(r"Verification Time: ([0-9.]+)s", text)
    r["verification_time_s"] = float(m[-1]) if m else None
    m = re.findall(r"^(\d+) variables, (\d+) clauses", text, re.M)
    r["sat_vars_clauses"] = [int(m[-1][0]), int(m[-1][1])] if m else None
    m = re.findall(r"Runtime decision procedure: ([0-9.e+-]+)s", text)
    r["solver_time_s"] = round(sum(float(x) for x in m), 3) if m else None
    stubs = re.findall(r"^\s*- Stub: (.*)$", text, re.M)
    r["stubs_applied"] = sorted(set(stubs))
    ok = "VERIFICATION:- SUCCESSFUL" in text
    bad = "VERIFICATION:- FAILED" in text
    unwind_fail = [f for f in failed if "unwinding assertion" in f["desc"]]
    real_fail = [f for f in failed if "unwinding assertion" not in f["desc"]]
    compile_err = re.search(r"^error(\[E\d+\])?:", text, re.M) and not (ok or bad)
    if compile_err:
        r["verdict"] = "BROKEN"
        r["why"] = "compile error: " + "; ".join(re.findall(r"^error.*$", text, re.M)[:4])
    elif "Status: ERROR" in text or re.search(r"CBMC failed|out of memory|std::bad_alloc|Killed", text):
        r["verdict"] = "INCONCLUSIVE"
        r["why"] = "CBMC error / out of memory"
    elif ok:
        if covers_sat != covers_total:
            r["verdict"] = "VACUOUS"
            r["why"] = "cover not satisfied: " + "; ".join(unsat_covers[:3])
        else:
            r["verdict"] = "PASS"
    elif bad:
        if h.kind == "should_panic" and not failed:
            r["verdict"] = "FAIL"
            r["why"] = "no panic raised although one is required (should_panic harness)"
        elif any("not currently supported by Kani" in f["desc"] for f in real_fail):
            # the harness reached a construct Kani cannot model (FFI, inline asm): nothing is known, and it is never a violation
            r["verdict"] = "INCONCLUSIVE"
            r["why"] = "reached a construct Kani does not support: " + [f["desc"] for f in real_fail if "not currently supported" in f["desc"]][0][:160]
        elif real_fail:
            r["verdict"] = "FAIL"
            r["why"] = "; ".join("%s @ %s" % (f["desc"], f["loc"]) for f in real_fail[:3])
        elif unwind_fail:
            r["verdict"] = "BOUND"
            r["why"] = "unwinding assertion failed (bound too small): " + unwind_fail[0]["loc"]
        elif status_count.get("NAN_INFO") and "Status: ERROR" not in text:
            # only NaN-production notes "failed": every property check and every Rust panic check passed
            if covers_sat != covers_total:
                r["verdict"] = "VACUOUS"
                r["why"] = "cover not satisfied: " + "; ".join(unsat_covers[:3])
            else:
                r["verdict"] = "PASS"
        else:
            r["verdict"] = "INCONCLUSIVE"
            r["why"] = "VERIFICATION FAILED with 0 failed checks (CBMC resource failure)"
    else:
        r["verdict"] = "INCONCLUSIVE"
        r["why"] = "no verdict line in Kani output"
    return r


def _limits(mem_gb):
    def f():
        os.setsid()
        b = mem_gb * 1024 ** 3
        resource.setrlimit(resource.RLIMIT_AS, (b, b))
    return f


def run_cmd(cmd, cwd, log, timeout, mem_gb, env=None):
    with open(log, "w") as lf:
        p = subprocess.Popen(cmd, cwd=cwd, stdout=lf, stderr=subprocess.STDOUT, env=env or ENV,
                             preexec_fn=_limits(mem_gb))
        register_child(p)
        try:
            rc = p.wait(timeout=timeout)
            to = False
        except subprocess.TimeoutExpired:
            to = True
            try:
                os.killpg(p.pid, signal.SIGKILL)
            except Exception:
                pass
            p.wait()
            rc = -9
        finally:
            unregister_child(p)
            try:
                os.killpg(p.pid, signal.SIGKILL)  # stray cbmc children
            except Exception:
                pass
    return rc, to


def feature_args(h):
    return ["--features", h.features] if h.features else []


def run_harness(h, overlay, tdir, logdir, extra=None, tag="", cap_gb=None, timeout=None):
    log = os.path.join(logdir, h.name + tag + ".log")
    cmd = ["cargo", "kani", "--harness", h.qual, "--exact", "-Z", "stubbing", "--target-dir", tdir] + feature_args(h) + (extra or [])
    if h.checks == "rust":
        cmd += ["-Z", "unstable-options", "--no-memory-safety-checks"]
    if h.cbmc:
        if "unstable-options" not in cmd:
            cmd += ["-Z", "unstable-options"]
        cmd += ["--cbmc-args"] + h.cbmc.split(",")
    t0 = time.time()
    # the rlimit applies to cargo/kani-compiler/cbmc alike; rustc needs address space too
    rc, to = run_cmd(cmd, overlay, log, timeout or h.timeout, cap_gb or int(os.environ.get("VERIF_CAP_GB", "0")) or max(h.mem, 12))  # address-space cap (virtual); the scheduler budgets h.mem
    wall = time.time() - t0
    text = open(log, errors="replace").read()
    if to:
        r = {"harness": h.name, "verdict": "INCONCLUSIVE", "why": "timeout after %ds" % h.timeout,
             "checks": 0, "covers": [0, 0], "failed": [], "stubs_applied": [], "solver_time_s": None,
             "sat_vars_clauses": None, "verification_time_s": None, "unsat_covers": [], "checks_by_status": {}}
    else:
        r = parse_log(text, h)
    r["wall_s"] = round(wall, 1)
    r["log"] = log
    r["rc"] = rc
    return r


def run_all(hs, logdir):
    """Run harnesses in parallel under a memory budget. Returns overlay path."""
    root = scratch_root()
    overlay = make_overlay(os.path.join(root, "ind"), prop=hs[0].id)
    os.makedirs(logdir, exist_ok=True)
    pending = sorted(hs, key=lambda h: -h.timeout)  # longest first
    lock = threading.Lock()
    cond = threading.Condition(lock)
    state = {"mem": 0, "running": 0}
    free_slots = list(range(MAX_WORKERS))

    def worker(h, slot):
        tdir = os.path.join(root, "target%d%s" % (slot, ("_" + re.sub(r"\W", "_", h.features)) if h.features else ""))
        try:
            h.result = run_harness(h, overlay, tdir, logdir)
        except Exception as e:  # noqa
            h.result = {"harness": h.name, "verdict": "BROKEN", "why": "runner exception: %r" % e, "checks": 0,
                        "covers": [0, 0], "failed": [], "stubs_applied": [], "wall_s": 0, "log": "", "solver_time_s": None,
                        "sat_vars_clauses": None, "verification_time_s": None, "unsat_covers": [], "checks_by_status": {}}
        say("  [%s] %-34s %-12s %6.1fs  checks=%s covers=%s %s" % (
            h.id, h.name, h.result["verdict"], h.result["wall_s"], h.result.get("checks"),
            "/".join(map(str, h.result.get("covers", [0, 0]))), (h.result.get("why") or "")[:140]))
        with cond:
            state["mem"] -= h.mem
            state["running"] -= 1
            free_slots.append(slot)
            cond.notify_all()

    threads = []
    with cond:
        while pending:
            started = False
            for h in list(pending):
                if free_slots and (state["mem"] + h.mem <= TOTAL_MEM_GB or state["running"] == 0):
                    pending.remove(h)
                    slot = free_slots.pop(0)
                    state["mem"] += h.mem
                    state["running"] += 1
                    t = threading.Thread(target=worker, args=(h, slot))
                    t.start()
                    threads.append(t)
                    started = True
                    break
            if not started:
                cond.wait()
    for t in threads:
        t.join()
    # Fallback: one harness file that no longer compiles (e.g. it reads a private field that a refactor renamed) must not take the
    # other harness files of the property down with it: rebuild with one overlay per harness file and re-run what was broken.
    broken = [h for h in hs if h.result and h.result.get("verdict") == "BROKEN" and "compile error" in (h.result.get("why") or "")]
    files = sorted(set(h.hfile for h in hs))
    if broken and len(files) > 1:
        say("  compile error in the combined overlay: retrying with one overlay per harness file (%d files)" % len(files))
        for k, hf in enumerate(files):
            ov = make_overlay(os.path.join(root, "ind_f%d" % k), prop=hs[0].id, only_file=hf)
            for h in [x for x in broken if x.hfile == hf]:
                tdir = os.path.join(root, "target_f%d%s" % (k, ("_" + re.sub(r"\W", "_", h.features)) if h.features else ""))
                h.only_file = hf
                h.perfile_overlay = ov
                try:
                    h.result = run_harness(h, ov, tdir, logdir, tag=".perfile")
                except Exception as e:  # noqa
                    pass
                say("  [%s] %-34s %-12s %6.1fs  (per-file overlay) %s" % (h.id, h.name, h.result["verdict"], h.result["wall_s"], (h.result.get("why") or "")[:120]))
    return overlay


PB_RE = re.compile(r"```\n(.*?)```", re.S)


def playback(h, logdir, cap_s=None):
    """Confirm a counter-example natively: ask Kani for concrete values, add the generated unit test to the
    harness module in a fresh overlay, run it with `cargo kani playback` (no stubs, real code)."""
    root = scratch_root()
    overlay = make_overlay(os.path.join(root, "ind_cex"), prop=h.id, only_file=getattr(h, "only_file", None), strip_covers=True)
    tdir = os.path.join(root, "target_pb")
    # (extracting the trace makes the Kani driver itself allocate a lot: a generous address-space cap for this one run)
    r = run_harness(h, overlay, tdir, logdir, extra=["-Z", "concrete-playback", "--concrete-playback=print"], tag=".cex", cap_gb=max(40, h.mem),
                    timeout=min(cap_s, max(3600, 3 * h.timeout)) if cap_s else max(3600, 3 * h.timeout))  # one solver call per failed check and per cover: several times the plain run
    text = open(r["log"], errors="replace").read()
    tests = PB_RE.findall(text)
    if not tests and h.kind == "should_panic":
        # no symbolic input: the native replay runs the harness body and requires the panic
        tests = ["/// Replay of should_panic harness `%s`: the call must panic natively.\n#[test]\n"
                 "fn kani_concrete_playback_%s_sp() {\n"
                 "    let r = std::panic::catch_unwind(|| { kani::concrete_playback_run(vec![], %s); });\n"
                 "    assert!(r.is_err(), \"expected an explicit panic, none was raised\");\n}\n" % (h.name, h.name, h.name)]
    if not tests:
        return {"status": "no-cex", "detail": "Kani produced no concrete playback test (%s)" % r.get("verdict")}
    # Kani prints one test per failed check AND one per satisfied cover: the tests generated for covers pass natively by
    # construction, so the ones for failed checks are tried first (up to three), and the first that reproduces is kept
    non_cover = [t for t in tests if not re.search(r"/// Check for `cover`", t)]
    candidates = (non_cover or tests)[:3]
    last = None
    for code in candidates:
        last = _play_one(h, root, logdir, code)
        if last["status"] == "reproduced":
            return last
    return last


def _play_one(h, root, logdir, code):
    m = re.search(r"fn (kani_concrete_playback_\w+)\(", code)
    tname = m.group(1)
    pdir = os.path.join(root, "play_" + h.name)
    shutil.rmtree(pdir, ignore_errors=True)
    make_overlay(pdir, extra_tests={h.hfile: code}, prop=h.id, only_file=getattr(h, "only_file", None))
    log = os.path.join(logdir, h.name + ".playback.log")
    env = dict(ENV, CARGO_TARGET_DIR=os.path.join(root, "target_play"), RUST_BACKTRACE="0")
    cmd = ["cargo", "kani", "playback", "-Z", "concrete-playback"] + feature_args(h) + ["--", tname]
    rc, to = run_cmd(cmd, pdir, log, 900, 16, env=env)
    out = open(log, errors="replace").read()
    shutil.rmtree(pdir, ignore_errors=True)
    art_dir = os.path.join(OUT_DIR, "replays", h.id)
    os.makedirs(art_dir, exist_ok=True)
    art = os.path.join(art_dir, h.name + ".rs")
    panic_lines = re.findall(r"^.*panicked at.*$|^assertion.*$|^Failed Checks.*$", out, re.M)[:6]
    with open(art, "w") as f:
        f.write("// Counter-example for harness `%s` (property %s), found by Kani/CBMC on the current /repo tree.\n" % (h.name, h.id))
        f.write("// Replay: /verif/bin/check %s --replay %s\n" % (h.id, art))
        f.write("// (inserts this test into the harness module of a scratch copy of /repo and runs `cargo kani playback`).\n")
        f.write("// harness-file: %s\n// failed checks: %s\n" % (h.hfile, (h.result or {}).get("why", "")))
        f.write(code)
    if to:
        return {"status": "playback-timeout", "artefact": art}
    ran = re.search(r"test result: (\w+)\. (\d+) passed; (\d+) failed", out)
    if ran and ran.group(1) == "FAILED" and int(ran.group(3)) >= 1:
        return {"status": "reproduced", "artefact": art, "native": panic_lines}
    if ran and ran.group(1) == "ok" and int(ran.group(2)) >= 1:
        return {"status": "not-reproduced", "artefact": art}
    return {"status": "playback-error", "artefact": art, "detail": out[-1500:]}


def replay_artefact(path, logdir):
    """`check <id> --replay <path>`: re-run a saved playback test against the current tree."""
    text = open(path).read()
    m = re.search(r"^// harness-file: (.*)$", text, re.M)
    hfile = m.group(1).strip()
    code = text[text.index("///"):] if "///" in text else text
    tname = re.search(r"fn (kani_concrete_playback_\w+)\(", code).group(1)
    root = scratch_root()
    pdir = os.path.join(root, "replay")
    pm = re.search(r"\(property (C\d\d)\)", text)
    # only the harness file of the counter-example (plus the shared rigs) is appended: other harness files of the property may
    # not compile against the tree under replay
    make_overlay(pdir, extra_tests={hfile: code}, prop=pm.group(1) if pm else None, only_file=hfile if pm else None)
    os.makedirs(logdir, exist_ok=True)
    log = os.path.join(logdir, "replay.log")
    feats = []
    for h in discover():
        if h.hfile == hfile and h.features:
            feats = ["--features", h.features]
    env = dict(ENV, CARGO_TARGET_DIR=os.path.join(root, "target_play"), RUST_BACKTRACE="0")
    rc, to = run_cmd(["cargo", "kani", "playback", "-Z", "concrete-playback"] + feats + ["--", tname], pdir, log, 900, 16, env=env)
    out = open(log, errors="replace").read()
    say(out[-3000:])
    ran = re.search(r"test result: (\w+)\. (\d+) passed; (\d+) failed", out)
    if ran and ran.group(1) == "FAILED":
        return 1
    if ran and ran.group(1) == "ok":
        return 0
    return 2
