#!/bin/bash
# usage: seedtest.sh <seed-tag e.g. C05_a> [property id to check, default = prefix of the tag] [tier]
# Runs the registered check against a scratch COPY of /repo with the seeded patch applied (never touches /repo),
# with evidence/out redirected so the committed evidence is not overwritten. Prints the verdict line.
tag=$1; id=${2:-${tag%%_*}}; tier=${3:-quick}; extra=${4:-}
d=/var/tmp/seedrun_${tag}_$id
rm -rf $d; mkdir -p $d/repo
cp /repo/Cargo.toml /repo/Cargo.lock $d/repo/; cp -r /repo/src $d/repo/src
( cd $d/repo && patch -s -p1 < /verif/seeded/$tag/patch.diff ) || { echo "SEED $tag: patch failed"; exit 9; }
VERIF_REPO=$d/repo VERIF_EVIDENCE_DIR=$d/ev VERIF_OUT_DIR=$d/out /verif/bin/check $id --tier $tier $extra > $d/check.log 2>&1
rc=$?
echo "SEED $tag on $id ($tier): exit=$rc $(grep -c '^VIOLATION' $d/check.log) violation line(s); $(grep -E '^== .* tier=' $d/check.log | tail -1)"
grep -E "^VIOLATION|^  detail|^BROKEN" $d/check.log | head -6
rm -rf $d/repo
exit $rc
