#!/usr/bin/env python3
"""Regenerates /verif/MANIFEST.json from the table below (kept in one place so it stays valid)."""
import json
import os

VERIF = os.path.dirname(os.path.dirname(os.path.abspath(__file__)))

K = "bounded model checking of the compiled crate with Kani 0.68 / CBMC 6.11 (CaDiCaL): #[kani::proof] harnesses over kani::any() inputs, unwinding assertions on, kani::cover! vacuity witnesses, counter-examples confirmed by native concrete playback"
M = "MIR -> SMT-LIB2 translation (own translator over the nightly MIR dump of the current tree) decided by z3 and cvc5 in linear integer arithmetic with division lemmas; counter-examples replayed through the real functions in a generated cargo test"

# id -> (claimed?, technique, level text, level_note, design_ref) ; unclaimed -> reason
CLAIMS = {
    "C12": dict(
        technique=K,
        text="For every content string of <= 4 characters over {ASCII, 2-byte/1-column, 3-byte/2-column}, every width 0..=6, every alignment and "
             "truncate flag, the solver shows that the real PaddedStringDisplay::fmt emits exactly the documented padding / unshortened / "
             "truncated text (byte-exact against a reference built in the harness). Bounded: longer strings and widths are outside the claim.",
        note="console::measure_text_width is replaced by a byte-class width model (validated natively); no ANSI escapes in content; "
             "truncation of multi-byte content is a recorded known finding (witness harnesses must keep failing in that region only).",
        ref="4/C12"),
    "C14": dict(
        technique=K,
        text="Builder side: for the concrete rejected configurations (0/1 tick strings, 0/1 tick chars, 0/1 progress chars, mixed-width "
             "progress chars) the solver shows the builder call itself ends in a panic (should_panic harnesses that call only the builder). "
             "Render side: for every accepted tick-string count 2..=6 and every u64 tick, every progress-char count 2..=10, every f32 fraction "
             "in [0,1] and every width <= 65535 the indexing in get_tick_str/get_final_tick_str/format_bar/BarDisplay cannot panic.",
        note="Styles are built on a directly constructed ProgressStyle (rig) instead of ProgressStyle::default_bar(); RandomState::new and "
             "console::colors_enabled* are stubbed; rendering loop bounded to width <= 6 (index arithmetic checked up to 65535).",
        ref="4/C14"),
}

NOT_YET = "check not built yet in this session (work in progress; see DESIGN.md section 7 for the order of work)"


def main():
    props = [json.loads(l)["id"] for l in open(os.path.join(VERIF, "properties.jsonl"))]
    checks = []
    na = []
    for pid in props:
        c = CLAIMS.get(pid)
        if c is None or c.get("na"):
            na.append({"property_id": pid, "reason": (c or {}).get("na", NOT_YET)})
            continue
        checks.append({
            "property_id": pid,
            "quick_cmd": "bin/check %s --tier quick" % pid,
            "thorough_cmd": "bin/check %s --tier thorough" % pid,
            "evidence_file": "/verif/evidence/%s.json" % pid,
            "replay_cmd_template": "bin/check %s --replay {path}" % pid,
            "engine": c.get("engine", "kani-overlay"),
            "level_claimed": {"category": "model_checking", "text": c["text"], "design_ref": "DESIGN.md section " + c["ref"]},
            "level_note": c["note"],
            "technique": c["technique"],
        })
    m = {
        "version": 1,
        "setup_cmd": "bin/setup",
        "hooks": {
            "guard": "kani (cfg set by cargo-kani itself; harness modules live in /verif/harness and are appended to a scratch copy of /repo's working tree, so /repo carries no hook code)",
            "enable": "engine/kani_run.py copies /repo/{Cargo.toml,Cargo.lock,src} to /var/tmp/indicatif-verif.<pid>/ind, appends /verif/harness/<file>/*.rs to src/<file>.rs and runs `cargo kani -Z stubbing --harness <h>`",
            "baseline_off_cmd": "cd /repo && cargo test --workspace --no-fail-fast --offline",
            "source_commits": [],
            "add_only": True,
        },
        "engines": [
            {"name": "kani-overlay", "path": "engine/kani_run.py", "serves_properties": [c["property_id"] for c in checks if c["engine"] == "kani-overlay"],
             "kind_free_text": "Kani/CBMC bounded model checking of the real crate; harnesses appended to a scratch copy of the current working tree"},
            {"name": "mirsmt", "path": "engine/mirsmt", "serves_properties": [c["property_id"] for c in checks if c["engine"] != "kani-overlay"],
             "kind_free_text": "MIR -> SMT-LIB2 translator + z3/cvc5 for the integer kernels CBMC cannot finish (64/128-bit div/rem)"},
        ],
        "checks": checks,
        "not_applicable": na,
        "notes": "Solver-based checking only. exit 0 = holds within the stated bounds; exit 1 + VIOLATION = replayed counter-example; exit 2 = inconclusive/broken (never reported as success). known_findings.json lists recorded defects and fixes.",
    }
    with open(os.path.join(VERIF, "MANIFEST.json"), "w") as f:
        json.dump(m, f, indent=1)
        f.write("\n")


if __name__ == "__main__":
    main()
