#!/usr/bin/env python3
"""Regenerates /verif/MANIFEST.json from the table below (kept in one place so it stays valid)."""
import json
import os

VERIF = os.path.dirname(os.path.dirname(os.path.abspath(__file__)))

K = "bounded model checking of the compiled crate with Kani 0.68 / CBMC 6.11 (CaDiCaL): #[kani::proof] harnesses over kani::any() inputs, unwinding assertions on, kani::cover! vacuity witnesses, counter-examples confirmed by native concrete playback"
M = "MIR -> SMT-LIB2 translation (own translator over the nightly MIR dump of the current tree) decided by z3 and cvc5 in linear integer arithmetic with division lemmas; counter-examples replayed through the real functions in a generated cargo test"

# id -> (claimed?, technique, level text, level_note, design_ref) ; unclaimed -> reason
CLAIMS = {
    "C01": dict(
        technique=K,
        text="Inductive step: from ANY pre-state of the screen invariant (previous frame of b <= H rows, any cursor column, parked or unparked start) one real "
             "DrawState::draw_to_term call with symbolic line lengths and a symbolic split into text and bar lines leaves the log rows untouched, no remnant "
             "of the old frame, every painted line on its wrapped rows in order, last_line_count = painted bar rows, the cursor parked for a fresh line, and "
             "the invariant again (so histories of any length are covered); plus the composition of frames by BarState::draw/println (text lines first, one "
             "Bar line per message row, nothing when finished-and-cleared). Bounded to W <= 4, H <= 4, <= 3 lines of <= 2W columns.",
        note="Abstract screen model (deferred wrap, visible window, clamped cursor moves) instead of a real terminal, validated against InMemoryTerm; "
             "measure_text_width = byte length on ASCII tag lines; str::repeat stubbed by a fixed-capacity filler; move_cursor=false; two recorded known "
             "findings are carved out by region and kept under watch by witness harnesses.",
        ref="4/C01"),
    "C05": dict(
        technique=M + "; wiring (forced draws bypass the limiter, skipped draws lose nothing) by " + K,
        engine="mirsmt",
        text="Engine M executes the MIR of RateLimiter::{new,allow} and AtomicPosition::{new,allow,reset} symbolically. For every refresh rate of the tier, an "
             "inductive credit lemma (one call from an arbitrary invariant state: admitted <=> credit >= I, capacity' <= B-1, credit decreases by I, remainder "
             "in [0,I), refusal keeps the state, reset adds no credit, I >= 1/R) gives the window law for windows of ANY length; a direct B+2..B+4-call unrolling "
             "re-checks it representation-independently; staleness (a request >= 1/R after a painted frame is painted, first request after new() is painted) and "
             "absence of overflow/division/unwrap panics are separate queries. z3 and cvc5 must agree.",
        note="Time model: integer ns, instants < 2^62; std Instant/Duration/atomic functions are modelled (listed in evidence); sequential callers only; the "
             "telescoping step from the lemmas to the window law is a pen-and-paper argument in DESIGN.md; translator self-validated on every run against the "
             "native functions (incl. the repo's own test vectors).",
        ref="4/C05"),
    "C07": dict(
        technique=K,
        text="For histories of 4 symbolic operations with arguments over the whole u64 range the solver shows position = wrapping reference and length = "
             "saturating reference (AtomicPosition / ProgressState / hidden BarState), every ProgressFinish variant sets or keeps the position as documented, "
             "and fraction() is in [0,1], 1 for zero length, 0 for unknown length, never NaN, bit-precisely for every (pos, Option<len>) in u64 x u64.",
        note="Concurrent inc/dec are NOT explored (Kani has no thread model): the claim is sequential; the mechanism (one fetch_add/fetch_sub on one atomic) is "
             "only noted. ProgressBar-level wrappers are covered by one thorough-tier harness (very expensive under CBMC).",
        ref="4/C07"),
    "C08": dict(
        technique="MIR path analysis with SMT feasibility queries (z3 + cvc5) over the nightly MIR dump of the current tree: lock-order discipline and ticker-loop structure",
        engine="mirsmt",
        text="For every control-flow path of every function in progress_bar.rs, multi.rs, state.rs, draw_target.rs and iter.rs the analysis tracks which lock "
             "guards are held (from the MIR types and drop terminators) and shows: locks are only taken in the order ticker-slot < bar-state < multi-state, the "
             "ticker thread is never joined while the bar state or the multi state is held, and the stop flag is a leaf; candidate violations are checked for path "
             "feasibility by the solver. The ticker loop's every way back to its head passes upgrade()==Some, !is_finished, wait_timeout_while and timed_out; the "
             "interval is used only as the wait timeout; tick_inner ticks only when the slot is empty; stop sets the flag under its mutex before notifying.",
        note="Interleavings are NOT enumerated: this is the sufficient lock-discipline condition for deadlock freedom, assuming user callbacks do not re-enter and std's "
             "Mutex/Condvar semantics; calls through closures/trait objects are treated as not taking library locks.",
        ref="4/C08"),
    "C12": dict(
        technique=K,
        text="For every content string of <= 4 characters over {ASCII, 2-byte/1-column, 3-byte/2-column}, every width 0..=6, every alignment and "
             "truncate flag, the solver shows that the real PaddedStringDisplay::fmt emits exactly the documented padding / unshortened / "
             "truncated text (byte-exact against a reference built in the harness). Bounded: longer strings and widths are outside the claim.",
        note="console::measure_text_width is replaced by a byte-class width model (validated natively); no ANSI escapes in content; "
             "truncation of multi-byte content is a recorded known finding (witness harnesses must keep failing in that region only).",
        ref="4/C12"),
    "C13": dict(
        technique=K,
        text="Bit-precise f32: for every fraction in [0,1], N <= 65535, c in {1,2}, 2..=10 progress glyphs the real format_bar yields floor(N/c) cells, "
             "floor(fraction*cells) filled (one-ulp rounding at exact integers tolerated and covered), at most one partial cell exactly when neither empty nor "
             "full, partial index within the configured set (plus a small instance, N <= 16, whose counter-examples always extract and replay); filled == cells <=> pos >= len for len <= 2^24; monotone in the position; the rendered text is "
             "filled glyphs, partial glyph, background glyphs (N <= 8).",
        note="wide_bar end-to-end (format_state + format! + str::replace) exceeds CBMC's memory; it is claimed only through its two ingredients (cell count "
             "of format_bar for the remaining columns; see DESIGN 4/C13). Monotonicity over the full u64 range is thorough-tier (stage-wise).",
        ref="4/C13"),
    "C14": dict(
        technique=K,
        text="Builder side: for the concrete rejected configurations (0/1 tick strings, 0/1 tick chars incl. one multi-byte char, 0/1 progress chars, mixed-width "
             "progress chars) the solver shows the builder call itself ends in a panic (should_panic harnesses that call only the builder). "
             "Render side: for every accepted tick-string count 2..=6 and every u64 tick, every progress-char count 2..=10, every f32 fraction "
             "in [0,1] and every width <= 65535 the indexing in get_tick_str/get_final_tick_str/format_bar/BarDisplay cannot panic.",
        note="Styles are built on a directly constructed ProgressStyle (rig) instead of ProgressStyle::default_bar(); RandomState::new and "
             "console::colors_enabled* are stubbed; rendering loop bounded to width <= 6 (index arithmetic checked up to 65535).",
        ref="4/C14"),
    "C19": dict(
        technique=K + "; unit discipline of the row accounting outside draw_to_term by MIR def-chain analysis with native confirmation",
        text="Same inductive draw_to_term step as C01, for frames whose bar lines do NOT all fit into the terminal height and for lines of 0..=2W columns "
             "(exact multiples of W included): painting stops at the first bar that does not fit, last_line_count <= H, the accounted rows end at the cursor "
             "and lie inside the visible window, no row of the old frame survives, and the post-state satisfies the invariant again (so the next draw erases "
             "the region completely and omitted bars are painted as soon as they fit, the painted prefix being a function of the current lines only). "
             "MultiState::mark_zombie counts the rows a reaped head bar keeps on screen in WRAPPED rows (real visual_line_count, line of 1..=9 columns on a "
             "terminal of width 4); engine M: no VisualLines value anywhere in the library is built from a line count.",
        note="Abstract screen model; W <= 4, H <= 3, <= 3 lines; measure_text_width = byte length; terminals larger than the bound are outside the claim; the "
             "zombie rows counted inside MultiState::draw are covered for one member only (C02).",
        ref="4/C19"),
    "C02": dict(
        technique=K + "; row hand-over after reaping inside MultiState::draw by MIR def-chain analysis with SMT path feasibility (z3 + cvc5) and native scenario replay",
        text="Logical order: from ANY state of the slot invariant of a MultiState with 2 slots (symbolic permutation of the slots, every split into live and "
             "free) one real MultiState::insert at End / Index(p) / IndexFromBack(p) / After(anchor) / Before(anchor) (p in 0..=3, every live anchor) puts the "
             "new bar at the documented position counted among the LIVE bars, keeps the relative order of the others, recycles the most recently freed slot "
             "or allocates a fresh one, and preserves the invariant; remove_idx of any slot takes a live slot out of the order and resets it, removing a free "
             "slot changes nothing; mark_zombie from any state of 3 members reaps exactly the head bar (its wrapped rows move from last_line_count to "
             "zombie_lines_count) and only flags any other. Being inductive steps, index reuse after removals is covered for histories of any length within the bound. "
             "Engine M (R1): every LineAdjust::Keep(x) of MultiState::draw takes x from a row accumulator local to that draw (never a MultiState field).",
        note="Partial: the CONTENT of the painted frame (every member once, in order, below the log; zombie reaping; alignment) needs MultiState::draw end to end: "
             "CBMC finishes it only for ONE member (quick: a head zombie is painted a last time, reaped, its row kept with Keep(1); thorough: a live member), two "
             "members run out of 28 GB (tier `deep`); live-bar count and position argument are concrete per harness instance (Vec::insert at a symbolic index "
             "exhausts memory); thread interleavings are not explored (Kani has no thread model): that every frame shows a state each bar really had rests on "
             "the single RwLock write guard, whose discipline is C08's subject.",
        ref="4/C02, 8.4"),
    "C03": dict(
        technique="MIR path analysis with SMT feasibility queries (z3 + cvc5): frame condition of skipped draws; painting draws by " + K,
        engine="mirsmt",
        text="Engine M shows on the MIR of the current tree that every control-flow path of MultiState::draw and BarState::draw that returns without reaching "
             "Drawable::draw / draw_to_term (rate-limited or hidden draw) writes no field of self and hands no mutable borrow of a field to any callee other than "
             "the limiter query, so skipped draws cannot move zombie_lines_count / last_line_count / orphan lines (all histories, all limiter verdicts). The exact "
             "erase range of a painting draw and the rule that text lines are never counted are the C01/C19 inductive step. Kani step harnesses on the "
             "draw_to_term contract: MultiState::clear wipes the live frame AND the kept rows of finished bars and no log row from any accounting state; "
             "MultiState::suspend runs the user's closure on a screen showing only the log and then requests exactly one forced redraw from zeroed counters; "
             "DrawStateWrapper::drop moves every printed line (Text and Empty) of a member to the orphan lines, in order, and keeps the bar lines.",
        note="MultiState::draw end to end fits into CBMC only for one member and a refused draw (quick: a refused ordinary draw changes nothing, semantically); a "
             "println draw with one member and everything with two members run out of 28 GB (21 + 1 harnesses in the unregistered tier `deep`). What a painting "
             "multi draw does to the screen is therefore NOT decided for this property beyond the pieces listed and the draw_to_term step of C01/C19.",
        ref="4/C03, 8.2"),
    "C04": dict(
        technique=K,
        text="For each of the five finish behaviours, position/length over u64, a previous frame of 0..=2 rows and a limiter that refuses every ordinary draw, "
             "one real BarState::finish_using_style paints exactly one frame rendered from the final state (position = length for finish*, unchanged for "
             "abandon*, message replaced for *_with_message, nothing but the erase for finish_and_clear); dropping an unfinished BarState performs its on_finish "
             "behaviour exactly once; dropping a finished (or explicitly cleared) one draws nothing.",
        note="ProgressStyle::format_state and DrawState::draw_to_term are replaced by their contracts (recorder / row-stack stubs; the contracts are the "
             "subject of C10-C13 and C01/C19); BarState level, not through the Arc<Mutex> handle; finishing inside a MultiProgress is not decided (tier `deep`, does not finish).",
        ref="4/C04, 8.2"),
    "C06": dict(
        technique="MIR call-site analysis + path-wise symbolic execution of ProgressDrawTarget::drawable with SMT queries (z3 + cvc5); state equivalence by " + K,
        engine="mirsmt",
        text="Engine M shows for the whole library that terminal output methods are called only from functions that are behind the gate in the call graph (Drawable methods and what only they call), Drawable "
             "values are built only by ProgressDrawTarget::drawable, and that no path of drawable() offers a drawable for a Hidden target or offers Drawable::Term "
             "unless Term::is_term() returned true (whatever force_draw and the limiter say), and no function branches on is_hidden(): hidden / non-tty targets "
             "never reach a terminal write and hidden-ness acts only through that gate, for every call history. Kani shows for hidden and non-tty bars that two symbolic numeric operations (u64 arguments), message/prefix, finish, abandon, println "
             "and suspend leave position / length / finished / message / prefix exactly as the reference model of the visible bar (C07) and reach neither a "
             "terminal method nor format_state (panicking stubs).",
        note="Members of a hidden MultiProgress are covered by the gate analysis only; their Kani harnesses (real MultiState::draw) do not finish (tier `deep`). "
             "Of the ProgressBar-level wrappers only set_tab_width is executed (one harness through the real Arc<Mutex<BarState>>).",
        ref="4/C06, 8.2"),
    "C09": dict(
        technique=K,
        text="Bit-precise f64: after Estimator::new and one record (position over u64, time step < 2^32 s) the rate is finite, not NaN and >= 0 at any later "
             "query; reset(now) from ARBITRARY field values (any bit pattern) equals new(now) and a query 1 ns later returns exactly 0; a backwards position resets, "
             "equal position or non-advancing time changes nothing; secs_to_duration never panics for any f64 bit pattern; eta() is zero when finished / length "
             "unknown / rate zero and never panics (pos/len over u64, averages <= 1e30); per_sec() is finite and >= 0; BarState::reset forgets the estimator in "
             "all three modes.",
        note="estimator_weight (powf) is replaced by an arbitrary but functional weight in [0,1] (CBMC does not finish powf): the exponential-average LAW "
             "(15 s decay) is therefore NOT decided, only sign/finiteness/reset/totality; two-record histories are thorough-tier; duration = elapsed + eta did not finish (tier `deep`).",
        ref="4/C09"),
    "C10": dict(
        technique="MIR panic-site scan with SMT path feasibility (z3 + cvc5) and native corpus replay for totality; fidelity by " + K,
        engine="mirsmt",
        text="Engine M shows on the MIR of the current tree that with_template / template / Template::from_str / from_str_with_tab_width / TabExpandedString::new "
             "contain no reachable diverging operation (panic call, unwrap/expect, overflow or bounds assert, indexing/slicing) -- for templates of ANY length and "
             "content. Kani decides the literal-state transitions (one symbolic ASCII character in the Literal and DoubleClose states) and executes templates of "
             "concrete shape through the real parser: '{' + space / tab / CR standing for itself with the text before it kept before it, and '{{' '}}' escapes.",
        note="Totality rests on the listed std callees being total (String/Vec/char/parse; allocation failure outside the claim). Fidelity is bounded to short "
             "templates of concrete shape (a symbolic character pushed into a String gives it a symbolic length and CBMC does not finish); the per-state transition harnesses, symbolic widths and the rendering order through format_state are kept in tier `deep` (they do not finish within an hour).",
        ref="4/C10, 8.2"),
    "C11": dict(
        technique="MIR data-flow extraction of every key arm of format_state, value equivalence by SMT (z3 + cvc5, QF_UFLIRA) with native replay; tick string and trackers by " + K,
        engine="mirsmt",
        text="For each of the 28 documented keys engine M locates the arm of format_state, resolves the value that reaches the formatter back to the getters "
             "of ProgressState and shows by SMT that it equals the documented value for EVERY (position, Option<length>) in u64 x Option<u64> (total keys: length "
             "if known else position) and that the wrapper is the documented public formatter; percent precisions are read from the promoted constants. Kani "
             "shows current_tick_str = tick % (n-1) / final string when finished (any u64 tick, 2..=6 strings) and that custom trackers are ticked exactly once "
             "with the post-update state on tick / set_length / inc_length / dec_length / unset_length / set_message / set_prefix and reset by reset().",
        note="Getters and formatters are uninterpreted in the equivalence (decided by C07, C09, C13, C15, C16); the rendered TEXT of a key end to end needs "
             "format_state under CBMC, which does not finish (> 15 min per call): those harnesses are kept in tier `deep`.",
        ref="4/C11, 8.2"),
    "C15": dict(
        technique=K,
        text="HumanDuration: for every Duration (u64 seconds x nanos) no panic, the unit rule (largest unit with at least 1.5 of it, else seconds) and "
             "monotonicity of the chosen unit; FormattedDuration: HH:MM:SS / Dd HH:MM:SS digits for every Duration incl. Duration::MAX; HumanCount: digit groups "
             "of every u64 (stage-wise), HumanFloatCount: sign, grouping and rounding for NaN, +-inf and for values of 1..=7 integer digits at precisions 0..=3 "
             "(one harness per digit-count / sign / precision class).",
        note="Float rendering goes through std's float formatter, replaced by a marker stub where only the integer grouping is judged; HumanBytes / DecimalBytes "
             "/ BinaryBytes delegate to the unit-prefix crate and are checked for the unit boundary arithmetic only in the thorough tier.",
        ref="4/C15"),
    "C16": dict(
        technique=K + "; totality of the tab-width arithmetic in the expansion functions by MIR overflow-check queries (z3 + cvc5) with native replay",
        text="Inductive step from an ARBITRARY consistent bar state (current tab width w0 in 0..=9; message, prefix and template literals holding tabs and "
             "carrying w0): after set_tab_width(w), set_style(style carrying ANY width of its own), set_message / set_prefix, finish_with_message every "
             "tab-carrying string of the bar and the style carry the bar's current width (histories of any length follow). TabExpandedString::expanded() "
             "replaces every tab by the current width, also after set_tab_width (cache invalidated); TabRewriter (custom keys) replaces tabs by the width given. "
             "Engine M: no overflow-checked operation over a tab-width input in expanded / set_tab_width / TabRewriter::write_str can overflow for widths 0..=64.",
        note="Texts are concrete per harness (string replacement on symbolic content allocates strings of symbolic size); that format_state renders message / "
             "prefix / literals through expanded() and custom keys through TabRewriter(self.tab_width) is shown by the C11 key-dispatch analysis and by reading.",
        ref="4/C16"),
    "C17": dict(
        technique=K,
        text="Against mock sources/sinks returning ANY Ok(n <= asked), any error, Pending: Iterator/DoubleEnded/ExactSize next/next_back/len pass through "
             "and advance the position by one per item, nth counts every item the inner iterator hands out, exhaustion finishes the bar exactly once; futures "
             "Stream::poll_next likewise; Read (read, read_vectored, read_to_string, read_exact), BufRead (fill_buf never counts, consume counts "
             "exactly), Write (write, write_vectored, flush), Seek (all modes; position := new offset) and the tokio AsyncRead (with a pre-filled ReadBuf), "
             "AsyncWrite, AsyncBufRead, AsyncSeek adaptors return exactly the inner result and move the position by exactly the transferred amount (wrapping u64).",
        note="3-4 calls per history, buffers <= 8 bytes; AtomicPosition::allow replaced by 'refuse' (no redraw); in the exhaustion / nth / Stream harnesses "
             "ProgressBar::is_finished and finish_using_style are recorder stubs (what finishing does to the bar is C04/C07's subject; through the real "
             "Arc<Mutex<BarState>> these harnesses do not finish within an hour: tier `deep`); rayon adaptors are outside the claim (worker threads: not modelled by Kani).",
        ref="4/C17"),
    "C18": dict(
        technique="MIR panic-site scan with SMT path feasibility (z3 + cvc5) for the unwrap sites, MIR reachability rule for early error returns after membership changes of a MultiState (native failing-terminal scenarios as replay); fault injection by " + K,
        engine="mirsmt",
        text="Engine M shows for EVERY function of the library that no Result<(), io::Error> (the type of every draw / clear / terminal operation) is consumed "
             "by unwrap / expect or by a match whose Err arm panics, on any feasible path: a failing terminal cannot panic under the bar mutex or the MultiProgress "
             "lock (no poisoning), and (E1) that no &mut MultiState method can return an I/O error early after it has changed members / ordering / free_set. Kani injects a failure into terminal call k in 0..=15 (once or sticky) of one real draw_to_term (Err returned iff reached, "
             "last_line_count untouched, no panic) and into the first draw of tick / set_length / set_tab_width / println / finish / "
             "finish_and_clear / reset / forced draw on a BarState with pos/len over u64: no panic, logical state as without the failure, the next call paints; and "
             "after a failed draw (last_line_count lagging behind the members' frames, any value) reaping a finished head bar does not panic (saturating row arithmetic).",
        note="Fault index concrete per harness and the limiter admits the failing draw (dropping an io::Error of symbolic existence explodes under CBMC); "
             "MultiState-level and suspend fault harnesses do not finish (tier `deep`); other ways to turn an error into a panic than unwrap/expect/match-arm "
             "(e.g. storing it) are outside the scan.",
        ref="4/C18, 8.2"),
}

NOT_YET = "no sound quick check could be built within reach of the solver-based tools in this sandbox; see DESIGN.md section 8.2"


def main():
    props = [json.loads(l)["id"] for l in open(os.path.join(VERIF, "properties.jsonl"))]
    checks = []
    na = []
    for pid in props:
        c = CLAIMS.get(pid)
        if c is None or c.get("na"):
            na.append({"property_id": pid, "reason": (c or {}).get("na", NOT_YET)})
            continue
        checks.append({
            "property_id": pid,
            "quick_cmd": "bin/check %s --tier quick" % pid,
            "thorough_cmd": "bin/check %s --tier thorough" % pid,
            "evidence_file": "/verif/evidence/%s.json" % pid,
            "replay_cmd_template": "bin/check %s --replay {path}" % pid,
            "engine": c.get("engine", "kani-overlay"),
            "level_claimed": {"category": "model_checking", "text": c["text"], "design_ref": "DESIGN.md section " + c["ref"]},
            "level_note": c["note"],
            "technique": c["technique"],
        })
    m = {
        "version": 1,
        "setup_cmd": "bin/setup",
        "hooks": {
            "guard": "kani (cfg set by cargo-kani itself; harness modules live in /verif/harness and are appended to a scratch copy of /repo's working tree, so /repo carries no hook code)",
            "enable": "engine/kani_run.py copies /repo/{Cargo.toml,Cargo.lock,src} to /var/tmp/indicatif-verif.<pid>/ind, appends /verif/harness/<file>/*.rs to src/<file>.rs and runs `cargo kani -Z stubbing --harness <h>`",
            "baseline_off_cmd": "cd /repo && cargo test --workspace --no-fail-fast --offline",
            "source_commits": [],
            "add_only": True,
        },
        "engines": [
            {"name": "kani-overlay", "path": "engine/kani_run.py", "serves_properties": [c["property_id"] for c in checks if c["engine"] == "kani-overlay"],
             "kind_free_text": "Kani/CBMC bounded model checking of the real crate; harnesses appended to a scratch copy of the current working tree"},
            {"name": "mirsmt", "path": "engine/mirsmt", "serves_properties": [c["property_id"] for c in checks if c["engine"] != "kani-overlay"],
             "kind_free_text": "MIR -> SMT-LIB2 translator + z3/cvc5 for the integer kernels CBMC cannot finish (64/128-bit div/rem)"},
        ],
        "checks": checks,
        "not_applicable": na,
        "notes": "Solver-based checking only. Harness tiers: quick < thorough < deep; `deep` harnesses are kept for reference (CBMC did not finish them within an hour) and are run by neither registered command. exit 0 = holds within the stated bounds; exit 1 + VIOLATION = replayed counter-example; exit 2 = inconclusive/broken (never reported as success). known_findings.json lists recorded defects and fixes.",
    }
    with open(os.path.join(VERIF, "MANIFEST.json"), "w") as f:
        json.dump(m, f, indent=1)
        f.write("\n")


if __name__ == "__main__":
    main()
