#!/usr/bin/env python3
"""Regenerates /verif/MANIFEST.json from the table below (kept in one place so it stays valid)."""
import json
import os

VERIF = os.path.dirname(os.path.dirname(os.path.abspath(__file__)))

K = "bounded model checking of the compiled crate with Kani 0.68 / CBMC 6.11 (CaDiCaL): #[kani::proof] harnesses over kani::any() inputs, unwinding assertions on, kani::cover! vacuity witnesses, counter-examples confirmed by native concrete playback"
M = "MIR -> SMT-LIB2 translation (own translator over the nightly MIR dump of the current tree) decided by z3 and cvc5 in linear integer arithmetic with division lemmas; counter-examples replayed through the real functions in a generated cargo test"

# id -> (claimed?, technique, level text, level_note, design_ref) ; unclaimed -> reason
CLAIMS = {
    "C01": dict(
        technique=K,
        text="Inductive step: from ANY pre-state of the screen invariant (previous frame of b <= H rows, any cursor column, parked or unparked start) one real "
             "DrawState::draw_to_term call with symbolic line lengths and a symbolic split into text and bar lines leaves the log rows untouched, no remnant "
             "of the old frame, every painted line on its wrapped rows in order, last_line_count = painted bar rows, the cursor parked for a fresh line, and "
             "the invariant again (so histories of any length are covered); plus the composition of frames by BarState::draw/println (text lines first, one "
             "Bar line per message row, nothing when finished-and-cleared). Bounded to W <= 4, H <= 4, <= 3 lines of <= 2W columns.",
        note="Abstract screen model (deferred wrap, visible window, clamped cursor moves) instead of a real terminal, validated against InMemoryTerm; "
             "measure_text_width = byte length on ASCII tag lines; str::repeat stubbed by a fixed-capacity filler; move_cursor=false; two recorded known "
             "findings are carved out by region and kept under watch by witness harnesses.",
        ref="4/C01"),
    "C05": dict(
        technique=M + "; wiring (forced draws bypass the limiter, skipped draws lose nothing) by " + K,
        engine="mirsmt",
        text="Engine M executes the MIR of RateLimiter::{new,allow} and AtomicPosition::{new,allow,reset} symbolically. For every refresh rate of the tier, an "
             "inductive credit lemma (one call from an arbitrary invariant state: admitted <=> credit >= I, capacity' <= B-1, credit decreases by I, remainder "
             "in [0,I), refusal keeps the state, reset adds no credit, I >= 1/R) gives the window law for windows of ANY length; a direct B+2..B+4-call unrolling "
             "re-checks it representation-independently; staleness (a request >= 1/R after a painted frame is painted, first request after new() is painted) and "
             "absence of overflow/division/unwrap panics are separate queries. z3 and cvc5 must agree.",
        note="Time model: integer ns, instants < 2^62; std Instant/Duration/atomic functions are modelled (listed in evidence); sequential callers only; the "
             "telescoping step from the lemmas to the window law is a pen-and-paper argument in DESIGN.md; translator self-validated on every run against the "
             "native functions (incl. the repo's own test vectors).",
        ref="4/C05"),
    "C07": dict(
        technique=K,
        text="For histories of 4 symbolic operations with arguments over the whole u64 range the solver shows position = wrapping reference and length = "
             "saturating reference (AtomicPosition / ProgressState / hidden BarState), every ProgressFinish variant sets or keeps the position as documented, "
             "and fraction() is in [0,1], 1 for zero length, 0 for unknown length, never NaN, bit-precisely for every (pos, Option<len>) in u64 x u64.",
        note="Concurrent inc/dec are NOT explored (Kani has no thread model): the claim is sequential; the mechanism (one fetch_add/fetch_sub on one atomic) is "
             "only noted. ProgressBar-level wrappers are covered by one thorough-tier harness (very expensive under CBMC).",
        ref="4/C07"),
    "C08": dict(
        technique="MIR path analysis with SMT feasibility queries (z3 + cvc5) over the nightly MIR dump of the current tree: lock-order discipline and ticker-loop structure",
        engine="mirsmt",
        text="For every control-flow path of every function in progress_bar.rs, multi.rs, state.rs, draw_target.rs and iter.rs the analysis tracks which lock "
             "guards are held (from the MIR types and drop terminators) and shows: locks are only taken in the order ticker-slot < bar-state < multi-state, the "
             "ticker thread is never joined while the bar state or the multi state is held, and the stop flag is a leaf; candidate violations are checked for path "
             "feasibility by the solver. The ticker loop's every way back to its head passes upgrade()==Some, !is_finished, wait_timeout_while and timed_out; the "
             "interval is used only as the wait timeout; tick_inner ticks only when the slot is empty; stop sets the flag under its mutex before notifying.",
        note="Interleavings are NOT enumerated: this is the sufficient lock-discipline condition for deadlock freedom, assuming user callbacks do not re-enter and std's "
             "Mutex/Condvar semantics; calls through closures/trait objects are treated as not taking library locks.",
        ref="4/C08"),
    "C12": dict(
        technique=K,
        text="For every content string of <= 4 characters over {ASCII, 2-byte/1-column, 3-byte/2-column}, every width 0..=6, every alignment and "
             "truncate flag, the solver shows that the real PaddedStringDisplay::fmt emits exactly the documented padding / unshortened / "
             "truncated text (byte-exact against a reference built in the harness). Bounded: longer strings and widths are outside the claim.",
        note="console::measure_text_width is replaced by a byte-class width model (validated natively); no ANSI escapes in content; "
             "truncation of multi-byte content is a recorded known finding (witness harnesses must keep failing in that region only).",
        ref="4/C12"),
    "C13": dict(
        technique=K,
        text="Bit-precise f32: for every fraction in [0,1], N <= 65535, c in {1,2}, 2..=10 progress glyphs the real format_bar yields floor(N/c) cells, "
             "floor(fraction*cells) filled (one-ulp rounding at exact integers tolerated and covered), at most one partial cell exactly when neither empty nor "
             "full, partial index within the configured set; filled == cells <=> pos >= len for len <= 2^24; monotone in the position; the rendered text is "
             "filled glyphs, partial glyph, background glyphs (N <= 8).",
        note="wide_bar end-to-end (format_state + format! + str::replace) exceeds CBMC's memory; it is claimed only through its two ingredients (cell count "
             "of format_bar for the remaining columns; see DESIGN 4/C13). Monotonicity over the full u64 range is thorough-tier (stage-wise).",
        ref="4/C13"),
    "C14": dict(
        technique=K,
        text="Builder side: for the concrete rejected configurations (0/1 tick strings, 0/1 tick chars incl. one multi-byte char, 0/1 progress chars, mixed-width "
             "progress chars) the solver shows the builder call itself ends in a panic (should_panic harnesses that call only the builder). "
             "Render side: for every accepted tick-string count 2..=6 and every u64 tick, every progress-char count 2..=10, every f32 fraction "
             "in [0,1] and every width <= 65535 the indexing in get_tick_str/get_final_tick_str/format_bar/BarDisplay cannot panic.",
        note="Styles are built on a directly constructed ProgressStyle (rig) instead of ProgressStyle::default_bar(); RandomState::new and "
             "console::colors_enabled* are stubbed; rendering loop bounded to width <= 6 (index arithmetic checked up to 65535).",
        ref="4/C14"),
    "C19": dict(
        technique=K,
        text="Same inductive draw_to_term step as C01, for frames whose bar lines do NOT all fit into the terminal height and for lines of 0..=2W columns "
             "(exact multiples of W included): painting stops at the first bar that does not fit, last_line_count <= H, the accounted rows end at the cursor "
             "and lie inside the visible window, no row of the old frame survives, and the post-state satisfies the invariant again (so the next draw erases "
             "the region completely and omitted bars are painted as soon as they fit, the painted prefix being a function of the current lines only).",
        note="Abstract screen model; W <= 4, H <= 3, <= 3 lines; measure_text_width = byte length; terminals larger than the bound are outside the claim.",
        ref="4/C19"),
}

NOT_YET = "check not built yet in this session (work in progress; see DESIGN.md section 7 for the order of work)"


def main():
    props = [json.loads(l)["id"] for l in open(os.path.join(VERIF, "properties.jsonl"))]
    checks = []
    na = []
    for pid in props:
        c = CLAIMS.get(pid)
        if c is None or c.get("na"):
            na.append({"property_id": pid, "reason": (c or {}).get("na", NOT_YET)})
            continue
        checks.append({
            "property_id": pid,
            "quick_cmd": "bin/check %s --tier quick" % pid,
            "thorough_cmd": "bin/check %s --tier thorough" % pid,
            "evidence_file": "/verif/evidence/%s.json" % pid,
            "replay_cmd_template": "bin/check %s --replay {path}" % pid,
            "engine": c.get("engine", "kani-overlay"),
            "level_claimed": {"category": "model_checking", "text": c["text"], "design_ref": "DESIGN.md section " + c["ref"]},
            "level_note": c["note"],
            "technique": c["technique"],
        })
    m = {
        "version": 1,
        "setup_cmd": "bin/setup",
        "hooks": {
            "guard": "kani (cfg set by cargo-kani itself; harness modules live in /verif/harness and are appended to a scratch copy of /repo's working tree, so /repo carries no hook code)",
            "enable": "engine/kani_run.py copies /repo/{Cargo.toml,Cargo.lock,src} to /var/tmp/indicatif-verif.<pid>/ind, appends /verif/harness/<file>/*.rs to src/<file>.rs and runs `cargo kani -Z stubbing --harness <h>`",
            "baseline_off_cmd": "cd /repo && cargo test --workspace --no-fail-fast --offline",
            "source_commits": [],
            "add_only": True,
        },
        "engines": [
            {"name": "kani-overlay", "path": "engine/kani_run.py", "serves_properties": [c["property_id"] for c in checks if c["engine"] == "kani-overlay"],
             "kind_free_text": "Kani/CBMC bounded model checking of the real crate; harnesses appended to a scratch copy of the current working tree"},
            {"name": "mirsmt", "path": "engine/mirsmt", "serves_properties": [c["property_id"] for c in checks if c["engine"] != "kani-overlay"],
             "kind_free_text": "MIR -> SMT-LIB2 translator + z3/cvc5 for the integer kernels CBMC cannot finish (64/128-bit div/rem)"},
        ],
        "checks": checks,
        "not_applicable": na,
        "notes": "Solver-based checking only. exit 0 = holds within the stated bounds; exit 1 + VIOLATION = replayed counter-example; exit 2 = inconclusive/broken (never reported as success). known_findings.json lists recorded defects and fixes.",
    }
    with open(os.path.join(VERIF, "MANIFEST.json"), "w") as f:
        json.dump(m, f, indent=1)
        f.write("\n")


if __name__ == "__main__":
    main()
