#!/usr/bin/env python3
"""check <ID> [--tier quick|thorough] [--replay PATH] [--only SUBSTR]

exit 0  every query/harness of the tier came back "holds within the bound" (KNOWN-FINDING lines allowed)
exit 1  VIOLATION property=<id> replay=<path>   (solver counter-example, confirmed by native replay unless the
        harness is marked replay=trace, and not listed as an open known finding)
exit 2  broken / inconclusive (compile error, unwinding assertion, vacuous cover, timeout, OOM, solver error,
        counter-example that does not reproduce natively)
"""
import argparse
import importlib
import os
import shutil
import sys
import time

sys.path.insert(0, os.path.dirname(os.path.abspath(__file__)))
import common  # noqa: E402
import kani_run  # noqa: E402
from common import OUT_DIR, open_findings, say, write_evidence  # noqa: E402

MAX_PLAYBACKS = 3


def main():
    ap = argparse.ArgumentParser()
    ap.add_argument("id")
    ap.add_argument("--tier", default=os.environ.get("VERIF_TIER", "quick"), choices=["quick", "thorough", "deep"])
    ap.add_argument("--replay")
    ap.add_argument("--only", default=None)
    ap.add_argument("--list", action="store_true")
    ap.add_argument("--no-kani", action="store_true", help="development aid: run only the engine M part")
    a = ap.parse_args()
    prop = a.id
    logdir = os.path.join(OUT_DIR, "logs", prop)
    if a.replay:
        logdir = logdir + ".replay%d" % os.getpid()
        shutil.rmtree(logdir, ignore_errors=True)
        if a.replay.endswith(".rs"):
            rc = kani_run.replay_artefact(a.replay, logdir)
        else:
            mod = importlib.import_module("props." + prop)
            rc = mod.replay(a.replay)
        common.cleanup()
        sys.exit(rc)

    t0 = time.time()
    # tiers: quick < thorough < deep. `deep` harnesses are kept for reference and development only: CBMC did not finish them
    # within an hour in this sandbox, so neither registered command runs them (bin/check <ID> --tier deep does).
    rank = {"quick": 0, "thorough": 1, "deep": 2}
    hs = [h for h in kani_run.discover() if h.id == prop and rank.get(h.tier, 2) <= rank[a.tier]]
    if a.only:
        hs = [h for h in hs if any(x and x in h.name for x in a.only.split(','))]
    if a.no_kani:
        hs = []
    if a.list:
        for h in hs:
            print(h.name, h.tier, h.timeout, h.mem, h.expect)
        return
    if a.only or a.no_kani:
        logdir = logdir + ".dev%d" % os.getpid()  # development runs never disturb a full run of the same property
    shutil.rmtree(logdir, ignore_errors=True)
    os.makedirs(logdir, exist_ok=True)
    known = open_findings(prop)

    violations = []     # (what, artefact)
    broken = []         # strings
    known_hit = {}      # finding id -> detail
    samples = []
    assumptions = set()
    encodes = set()
    bounds = []
    n_pass = n_nontrivial = 0
    total_checks = 0
    solver_s = 0.0
    queries = 0

    # ---- optional engine M part (MIR -> SMT) ----
    plug = None
    if os.path.exists(os.path.join(os.path.dirname(os.path.abspath(__file__)), "props", prop + ".py")):
        plug = importlib.import_module("props." + prop)
    if plug is not None and not a.only:
        say("== %s: engine M (MIR -> SMT-LIB, z3/cvc5) tier=%s" % (prop, a.tier))
        pr = plug.run("thorough" if a.tier == "deep" else a.tier, logdir)
        for q in pr["queries"]:
            queries += 1
            samples.append({k: q[k] for k in q if k in ("name", "verdict", "bounds", "solver", "wall_s", "why", "model")})
            if q["verdict"] == "PASS":
                n_pass += 1
                n_nontrivial += 1
            elif q["verdict"] == "FAIL":
                fid = q.get("known")
                if fid and fid in known:
                    known_hit.setdefault(fid, q.get("why", ""))
                elif q.get("replayed"):
                    violations.append((q["name"] + ": " + q.get("why", ""), q["replay_path"]))
                else:
                    broken.append("%s: counter-example did not reproduce natively (%s)" % (q["name"], q.get("why", "")))
            else:
                broken.append("%s: %s %s" % (q["name"], q["verdict"], q.get("why", "")))
            solver_s += q.get("wall_s", 0) or 0
        assumptions.update(pr.get("assumptions", []))
        encodes.update(pr.get("encodes", []))
        bounds += pr.get("bounds", [])

    # ---- engine K ----
    if hs:
        say("== %s: engine K (Kani %d harnesses) tier=%s" % (prop, len(hs), a.tier))
        kani_run.run_all(hs, logdir)
        playbacks = 0
        # cheapest harnesses first: their counter-examples extract and replay fastest; once one violation is confirmed natively,
        # further extractions are capped at 10 minutes (the verdict of the check no longer depends on them)
        for h in sorted(hs, key=lambda x: x.result.get("wall_s") or 0):
            r = h.result
            queries += 1
            total_checks += r.get("checks", 0)
            solver_s += r.get("solver_time_s") or 0
            encodes.update(h.encodes)
            assumptions.update(h.assumes)
            for s in r.get("stubs_applied", []):
                assumptions.add("kani stub applied: " + s)
            bounds += ["%s: %s" % (h.name, b) for b in h.bounds]
            samples.append({"harness": h.name, "verdict": r["verdict"], "cbmc_checks": r.get("checks"),
                            "covers_satisfied": r.get("covers"), "sat_vars_clauses": r.get("sat_vars_clauses"),
                            "wall_s": r.get("wall_s"), "bounds": h.bounds, "expect": h.expect,
                            "why": r.get("why")})
            v = r["verdict"]
            fid = h.expect[len("known:"):] if h.expect.startswith("known:") else None
            if v == "PASS":
                n_pass += 1
                if r.get("checks", 0) > 0:
                    n_nontrivial += 1
                if fid and fid in known:
                    say("  note: witness %s of known finding %s now passes (finding no longer reproduces)" % (h.name, fid))
            elif v == "FAIL":
                if fid and fid in known:
                    known_hit.setdefault(fid, r.get("why", ""))
                    continue
                if h.replay == "trace":
                    art = os.path.join(OUT_DIR, "replays", prop, h.name + ".trace.log")
                    os.makedirs(os.path.dirname(art), exist_ok=True)
                    shutil.copy(r["log"], art)
                    violations.append(("%s: %s" % (h.name, r.get("why")), art))
                    continue
                if playbacks >= MAX_PLAYBACKS:
                    art = os.path.join(OUT_DIR, "replays", prop, h.name + ".trace.log")
                    os.makedirs(os.path.dirname(art), exist_ok=True)
                    shutil.copy(r["log"], art)
                    violations.append(("%s: %s (solver verdict; playback budget used by earlier counter-examples)" % (h.name, r.get("why")), art))
                    continue
                playbacks += 1
                say("  replaying counter-example of %s natively ..." % h.name)
                pb = kani_run.playback(h, logdir, cap_s=600 if violations else None)
                samples[-1]["playback"] = pb.get("status")
                if pb["status"] == "reproduced":
                    violations.append(("%s: %s" % (h.name, r.get("why")), pb["artefact"]))
                elif pb["status"] == "not-reproduced":
                    broken.append("%s: counter-example does not reproduce natively (encoding/stub mismatch): %s" % (h.name, r.get("why")))
                else:
                    broken.append("%s: playback failed (%s) for: %s" % (h.name, pb["status"], r.get("why")))
            else:
                broken.append("%s: %s %s (log %s)" % (h.name, v, r.get("why", ""), r.get("log")))

    if not hs and plug is None:
        say("no check registered for %s" % prop)
        sys.exit(2)

    wall = time.time() - t0
    for fid, why in known_hit.items():
        say("KNOWN-FINDING: property=%s %s -- %s" % (prop, fid, known[fid]["what"]))
    for what, art in violations:
        say("VIOLATION property=%s replay=%s" % (prop, art))
        say("  detail: " + what)
    for b in broken:
        say("BROKEN: " + b)

    coverage = {
        "evaluations": queries,
        "distinct_nontrivial": n_nontrivial,
        "rule": "one evaluation = one solver query (a Kani proof harness over symbolic inputs, or one SMT query of engine M); "
                "non-trivial = verdict PASS with >=1 CBMC property check discharged and every kani::cover! witness SATISFIED "
                "(or, for engine M, unsat after the reachability/sanity query of the same encoding came back sat)",
        "samples": samples,
        "functions_encoded": sorted(encodes),
        "bounds": bounds,
        "queries_discharged": n_pass,
        "cbmc_property_checks": total_checks,
        "solver_time_s": round(solver_s, 2),
        "known_findings_hit": sorted(known_hit),
        "explanation": "Bounded symbolic execution of the real code of /repo's current working tree; verdicts hold for every "
                       "value of the symbolic inputs inside the listed bounds and say nothing outside them.",
        "exhaustive": False,
    }
    if not (a.only or a.no_kani):  # partial development runs never overwrite the evidence of a full run
        if coverage.get("distinct_nontrivial", 0) >= 2 and coverage.get("evaluations", 0) >= 1:
            write_evidence(prop, a.tier, "model_checking", coverage, sorted(assumptions), wall, len(violations))
        else:
            # a run with fewer than two conclusive queries covered nothing worth recording: leave no (stale) evidence behind
            try:
                os.remove(os.path.join(common.EVIDENCE_DIR, prop + ".json"))
            except OSError:
                pass
            say("   (no evidence written: fewer than two conclusive queries)")
    say("== %s tier=%s: %d queries, %d hold, %d violations, %d broken, %d known findings, %.0fs" % (
        prop, a.tier, queries, n_pass, len(violations), len(broken), len(known_hit), wall))
    common.cleanup()
    if violations:
        sys.exit(1)
    if broken:
        sys.exit(2)
    sys.exit(0)


if __name__ == "__main__":
    main()
