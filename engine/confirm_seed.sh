#!/bin/bash
# usage: confirm_seed.sh <ID_x> : confirms /tmp/seed_<ID_x>.{diff,_demo.rs} in a scratch worktree of /repo:
#   baseline tests pass with the patch, demo fails with the patch, demo passes without. Writes /verif/seeded/<ID_x>/.
set -u
tag=$1
id=${tag%%_*}
wt=/tmp/confirm_$tag
log=/var/tmp/confirm_$tag.log
exec > $log 2>&1
rm -rf $wt; git -C /repo worktree prune; git -C /repo worktree add -q --detach $wt HEAD || exit 9
cd $wt
export CARGO_NET_OFFLINE=true CARGO_TARGET_DIR=/var/tmp/confirm_target_$tag
demo=/tmp/seed_${tag}_demo.rs
first=$(head -1 $demo)
feat=""; if grep -q "in_memory\|InMemoryTerm" $demo; then feat="--features in_memory"; fi
fl=$(head -3 $demo | grep -o "features: *[a-z_,]*" | head -1 | sed 's/features: *//')
if [ -n "$fl" ]; then feat="--features $fl"; fi
install_demo() {
  if echo "$first" | grep -q "append-to:"; then
    f=$(echo "$first" | sed 's/.*append-to: *//' | awk '{print $1}')
    tail -n +2 $demo >> $f; DEMO_CMD="cargo test --offline --lib seed_demo $feat"
  else
    cp $demo tests/seed_demo.rs; DEMO_CMD="cargo test --offline $feat --test seed_demo"
  fi
}
git apply /tmp/seed_$tag.diff || { echo "RESULT $tag patch-does-not-apply"; exit 1; }
cargo test --offline --workspace --no-fail-fast > base.log 2>&1; b1=$?
cargo test --offline --features in_memory --test render > render.log 2>&1; b2=$?
install_demo
$DEMO_CMD > demo_with.log 2>&1; d1=$?
git checkout -q -- . ; rm -f tests/seed_demo.rs
install_demo
$DEMO_CMD > demo_without.log 2>&1; d2=$?
git checkout -q -- . ; rm -f tests/seed_demo.rs
echo "RESULT $tag baseline_with_patch=$b1 render_with_patch=$b2 demo_with_patch=$d1 demo_without_patch=$d2 cmd=[$DEMO_CMD]"
if [ $b1 -eq 0 ] && [ $b2 -eq 0 ] && [ $d1 -ne 0 ] && [ $d2 -eq 0 ]; then
  mkdir -p /verif/seeded/$tag
  cp /tmp/seed_$tag.diff /verif/seeded/$tag/patch.diff
  cp $demo /verif/seeded/$tag/demo.rs
  echo "CONFIRMED $tag"
fi
cd /; git -C /repo worktree remove --force $wt; rm -rf /var/tmp/confirm_target_$tag
