"""Shared plumbing: paths, scratch handling, known findings, evidence writer, verdict protocol."""
import atexit
import json
import os
import shutil
import signal
import sys
import time

VERIF = os.path.dirname(os.path.dirname(os.path.abspath(__file__)))
REPO = os.environ.get("VERIF_REPO", "/repo")
HARNESS_DIR = os.path.join(VERIF, "harness")
EVIDENCE_DIR = os.environ.get("VERIF_EVIDENCE_DIR", os.path.join(VERIF, "evidence"))
OUT_DIR = os.environ.get("VERIF_OUT_DIR", os.path.join(VERIF, "out"))  # replay artefacts + logs of the last run (git-ignored)
KNOWN_FINDINGS = os.path.join(VERIF, "known_findings.json")

_scratch = None


def scratch_root():
    """Scratch directory outside /repo, /verif and /tmp; removed when the check exits."""
    global _scratch
    if _scratch is None:
        base = os.environ.get("VERIF_SCRATCH", "/var/tmp")
        _scratch = os.path.join(base, "indicatif-verif.%d" % os.getpid())
        shutil.rmtree(_scratch, ignore_errors=True)
        os.makedirs(_scratch)
        atexit.register(cleanup)
        for sig in (signal.SIGTERM, signal.SIGINT, signal.SIGHUP):
            signal.signal(sig, _on_signal)
    return _scratch


_children = set()


def register_child(p):
    _children.add(p)


def unregister_child(p):
    _children.discard(p)


def _on_signal(signum, frame):
    for p in list(_children):
        try:
            os.killpg(p.pid, signal.SIGKILL)
        except Exception:
            pass
    cleanup()
    os._exit(2)


def cleanup():
    global _scratch
    if _scratch and os.environ.get("VERIF_KEEP_SCRATCH") != "1":
        shutil.rmtree(_scratch, ignore_errors=True)


def load_known_findings():
    try:
        with open(KNOWN_FINDINGS) as f:
            d = json.load(f)
    except FileNotFoundError:
        d = {"findings": [], "fixed": []}
    return d


def open_findings(prop):
    """Finding id -> record, for findings of `prop` that are recorded and NOT fixed."""
    d = load_known_findings()
    return {f["id"]: f for f in d.get("findings", []) if f.get("property") == prop and f.get("status", "open") == "open"}


def seed():
    try:
        return int(os.environ.get("VERIF_SEED", "0"))
    except ValueError:
        return 0


def write_evidence(prop, tier, level, coverage, assumptions, wall_s, violations):
    os.makedirs(EVIDENCE_DIR, exist_ok=True)
    ev = {
        "property_id": prop,
        "tier": tier,
        "seed": seed(),
        "level": level,
        "coverage": coverage,
        "assumptions": assumptions,
        "wall_s": round(wall_s, 2),
        "violations": violations,
    }
    path = os.path.join(EVIDENCE_DIR, prop + ".json")
    tmp = path + ".tmp"
    with open(tmp, "w") as f:
        json.dump(ev, f, indent=1, sort_keys=False)
        f.write("\n")
    os.replace(tmp, path)
    return path


def say(*a):
    print(*a, flush=True)


def now():
    return time.time()
