"""Shared by the engine M parts of C10 / C14 / C18: enumerate, on the MIR of the current tree, every operation of a function
that can diverge (panic / abort), with a feasible control-flow path from the entry (constant discriminants along the path,
satisfiability decided by z3 and cvc5).

Classes of diverging operations recognised
  panic     call of core::panicking::* / std::rt::begin_panic / unwrap_failed / expect_failed          (always a panic)
  unwrap    Option::unwrap|expect, Result::unwrap|expect|unwrap_err|expect_err                        (panics on the other variant)
  assert    MIR `assert(..)` terminators: arithmetic overflow, division by zero, array index out of bounds
  index     Index::index / IndexMut::index_mut on str / slice / Vec / String, split_at, copy_from_slice, char::from_digit..., RangeTo slicing
Everything else called from the function is either a crate function (followed when listed in `follow`) or a std function that
is treated as total; the callee names are reported so that the assumption is visible in the evidence.
"""
import re

import mirsmt as M
from props.C08 import CALL_RE, DROP_RE

PANIC_FN = re.compile(r"core::panicking::|std::rt::begin_panic|rt::panic_fmt|panic_display|unwrap_failed|expect_failed|panic_cold|slice_index_fail|slice_start_index_len_fail|slice_end_index_len_fail|str::slice_error_fail")
UNWRAP_FN = re.compile(r"(Option::<.*>|Result::<.*>)::(unwrap|expect|unwrap_err|expect_err)$")
INDEX_FN = re.compile(r"as (?:std::ops::|core::ops::)?Index(?:Mut)?<.*>>::index(?:_mut)?$|as Index(?:Mut)?<.*>>::index(?:_mut)?$|::split_at(?:_mut)?$|::copy_from_slice$|::swap_remove$|Vec::<.*>::(remove|insert|drain.*|split_off|swap)$|String::(remove|insert|insert_str|drain.*|split_off|truncate|replace_range)$|VecDeque::<.*>::(swap)$|::from_utf8_unchecked$|Duration::(from_secs_f64|from_secs_f32|mul_f64|mul_f32|div_f64|div_f32)$|<Duration as (Add|Sub|Mul|Div).*>::|<Instant as (Add|Sub).*>::|::step_by|::chunks(_exact)?(_mut)?$|::windows$|::repeat$")


def successors(stmts):
    for s in stmts:
        c = CALL_RE.match(s)
        if c:
            return [(c.group(4), None)]
        d = DROP_RE.match(s)
        if d:
            return [(d.group(2), None)]
        g = re.match(r"^goto -> (bb\d+);$", s)
        if g:
            return [(g.group(1), None)]
        a = re.match(r"^assert\(.*\) -> \[success: (bb\d+)", s)
        if a:
            return [(a.group(1), None)]
        sw = re.match(r"^switchInt\((?:copy|move) (.*?)\) -> \[(.*)\];$", s)
        if sw:
            out = []
            for arm in sw.group(2).split(","):
                k, t = [x.strip() for x in arm.split(":")]
                out.append((t, (sw.group(1), k)))
            return out
        m = re.search(r"-> \[return: (bb\d+)", s)
        if m:
            return [(m.group(1), None)]
        f = re.match(r"^falseEdge -> \[real: (bb\d+)", s)
        if f:
            return [(f.group(1), None)]
        f = re.match(r"^falseUnwind -> \[real: (bb\d+)", s)
        if f:
            return [(f.group(1), None)]
    return []


def path_to(fn, target_bb, limit=400):
    """a control-flow path bb0 -> target with consistent constant discriminants: (path, known) or None"""
    work = [("bb0", (), ())]
    seen = set()
    while work:
        bb, known, path = work.pop()
        if (bb, known) in seen or len(path) > limit:
            continue
        seen.add((bb, known))
        k = dict(known)
        for s in fn.blocks.get(bb, []):
            m = re.match(r"^(_\d+) = const (true|false|\d+_\w+);$", s)
            if m:
                v = m.group(2)
                k[m.group(1)] = 1 if v == "true" else 0 if v == "false" else int(v.split("_")[0])
            else:
                m2 = re.match(r"^(_\d+) = ", s)
                if m2:
                    k.pop(m2.group(1), None)
        if bb == target_bb:
            return list(path) + [bb], k
        for t, lab in successors(fn.blocks.get(bb, [])):
            if lab and lab[0] in k:
                v = k[lab[0]]
                if lab[1] != "otherwise" and int(lab[1]) != v:
                    continue
                if lab[1] == "otherwise":
                    term = [x for x in fn.blocks[bb] if x.startswith("switchInt")][0]
                    explicit = [int(a.split(":")[0]) for a in re.search(r"\[(.*)\]", term).group(1).split(",") if not a.strip().startswith("otherwise")]
                    if v in explicit:
                        continue
            work.append((t, tuple(sorted(k.items())), path + (bb,)))
    return None


def sites(fn):
    """-> (list of (bb, stmt, cls, what), list of other callee names)"""
    out = []
    others = []
    for bb, stmts in fn.blocks.items():
        for s in stmts:
            a = re.match(r'^assert\((.*?), "(.*?)"', s)
            if a:
                out.append((bb, s, "assert", a.group(2)[:60]))
                continue
            c = CALL_RE.match(s)
            callee = None
            if c:
                callee = c.group(2).strip()
            else:
                m = re.match(r"^(?:.*? = )?(.*?)\((.*)\) -> (?:\[return|unwind)", s)  # diverging calls have no return edge
                if m and not s.startswith(("drop(", "assert(", "switchInt(", "goto", "falseEdge", "falseUnwind")):
                    callee = m.group(1).strip()
            if callee is None:
                continue
            if PANIC_FN.search(callee):
                out.append((bb, s, "panic", callee))
            elif UNWRAP_FN.search(callee):
                out.append((bb, s, "unwrap", callee))
            elif INDEX_FN.search(callee):
                out.append((bb, s, "index", callee))
            else:
                others.append(callee)
    return out, others


def feasible_sites(fn, solve_stats=None):
    """sites of fn that have a feasible path from the entry"""
    import time
    res = []
    found, others = sites(fn)
    for bb, stmt, cls, what in found:
        p = path_to(fn, bb)
        if p is None:
            continue
        path, known = p
        decls = ["(declare-const flag_%s Int)" % re.sub(r"\W", "", k) for k in known]
        asserts = ["(assert (= flag_%s %d))" % (re.sub(r"\W", "", k), v) for k, v in known.items()]
        t0 = time.time()
        r = M.solve(decls, asserts, timeout=20)
        if solve_stats is not None:
            solve_stats["n"] = solve_stats.get("n", 0) + 1
            solve_stats["s"] = solve_stats.get("s", 0.0) + time.time() - t0
        if r["verdict"] == "sat":
            res.append({"bb": bb, "stmt": stmt, "cls": cls, "what": what, "path": path})
    return res, others


def short(name):
    return re.sub(r"<impl at [^>]*>", "", name).replace("::::", "::")
