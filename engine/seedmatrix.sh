#!/bin/bash
# usage: seedmatrix.sh <tag>... : runs engine/seedtest.sh for each tag (quick tier of the seed's own property), two at a time,
# each with half of the memory budget; appends one line per seed to /verif/seeded/RESULTS.txt
cd /verif
run_one() {
  t=$1
  out=$(VERIF_MEM_GB=${VERIF_MEM_GB:-24} VERIF_JOBS=${VERIF_JOBS:-8} engine/seedtest.sh $t 2>&1)
  line=$(echo "$out" | head -1)
  det=$(echo "$out" | grep -E "^  detail|^BROKEN" | head -1 | cut -c1-220)
  echo "$(date +%H:%M) $line | $det" >> /verif/seeded/RESULTS.txt
}
export -f run_one
printf "%s\n" "$@" | xargs -P ${SEED_PAR:-2} -I{} bash -c 'run_one {}'
