#!/usr/bin/env python3-vt
import json, glob, jsonschema
m=json.load(open('/verif/MANIFEST.json')); s=json.load(open('/root/.vp/MANIFEST.schema.json'))
jsonschema.validate(m,s); print("manifest ok: %d checks, %d not_applicable" % (len(m['checks']), len(m['not_applicable'])))
s=json.load(open('/root/.vp/EVIDENCE.schema.json'))
for p in sorted(glob.glob('/verif/evidence/*.json')):
    jsonschema.validate(json.load(open(p)),s); print("evidence ok", p)
