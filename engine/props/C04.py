"""C04 (engine M part) — forced draws pass every gate: "also when the draw target is rate limited".

Finishing, abandoning and dropping a bar paint its final state through a FORCED draw. The Kani harnesses of C04 decide what
one BarState::finish_using_style / drop paints; they run with a limiter that refuses every ordinary draw. What they do not
reach is the chain a forced draw travels through when the bar belongs to a MultiProgress (MultiState::draw under CBMC does
not finish). The chain is decided here, link by link, by path-wise symbolic execution of the MIR of the current tree (every
acyclic path to the call site, branch conditions and values as SMT terms, z3 and cvc5 must agree):

  F1  BarState::finish_using_style, BarState::println, BarState::suspend, MultiState::println, MultiState::suspend call
      draw / drawable with force = true;  MultiState::clear asks drawable(force = true)
  F2  BarState::draw passes to drawable a force flag that is true whenever its own force_draw parameter is true or the bar
      is finished;  MultiState::draw passes one that is true whenever its parameter is true
  F3  ProgressDrawTarget::drawable: with force_draw = true no path returns None for a TermLike target or for a Term target
      whose is_term() is true -- whatever the rate limiter answers; for a Multi target the force flag stored in
      Drawable::Multi IS the parameter
  F4  Drawable::draw hands that stored flag to MultiState::draw unchanged

F1-F4 compose to: a draw requested with force = true reaches DrawState::draw_to_term of the underlying terminal unless the
target is hidden / not a tty (C06), for any nesting bar -> MultiProgress -> terminal and any limiter state.
"""
import json
import os
import re
import sys
import time

sys.path.insert(0, os.path.dirname(os.path.dirname(os.path.abspath(__file__))))
import common  # noqa: E402
import mirsmt as M  # noqa: E402
import sympath as S  # noqa: E402
from common import OUT_DIR, say  # noqa: E402
from props.C05 import dump_mir  # noqa: E402


def variant_fields(src, enum, variant):
    m = re.search(r"enum %s(?:<[^>]*>)?\s*\{(.*?)\n\}" % enum, src, re.S)
    if not m:
        raise M.Unsupported("enum %s not found" % enum)
    v = re.search(r"\b%s\s*\{(.*?)\}" % variant, m.group(1), re.S)
    if not v:
        raise M.Unsupported("variant %s::%s not found" % (enum, variant))
    return re.findall(r"(\w+)\s*:", v.group(1))


def variant_index(src, enum, variant):
    m = re.search(r"enum %s(?:<[^>]*>)?\s*\{(.*?)\n\}" % enum, src, re.S)
    names = re.findall(r"^\s{4}(\w+)\s*(?:\{|,|\()", m.group(1), re.M)
    return names.index(variant)


def run(tier, logdir):
    root = common.scratch_root()
    queries = []
    enc = []
    assumptions = [
        "engine M part: callee results (is_finished, is_term, RateLimiter::allow, visual_line_count comparisons) are uninterpreted symbols; loops are cut at the first repeated block after checking that the force flag is not assigned inside a cycle; unwind edges ignored",
        "F1-F4 are about the force flag only; WHAT a forced draw paints is the subject of the Kani harnesses (BarState level) and of C01/C19 (draw_to_term)",
    ]
    t_all = time.time()
    nq = [0]

    def art(tag, d):
        art_dir = os.path.join(OUT_DIR, "replays", "C04")
        os.makedirs(art_dir, exist_ok=True)
        p = os.path.join(art_dir, re.sub(r"\W+", "_", tag)[:90] + ".json")
        d["how"] = "bin/check C04 --replay <this file>: re-runs the force-flag analysis on the current tree"
        d["property"] = "C04"
        with open(p, "w") as fh:
            json.dump(d, fh, indent=1)
        return p

    def check_sites(label, fn, want_call, arg_index, claim_of, must_exist=True):
        """claim_of(ex, path) -> SMT bool over the path's env that must be valid at every matching call site"""
        ex = S.Exec(fn)
        paths = ex.run(want_call=want_call)
        if not paths:
            if must_exist:
                queries.append({"name": label, "verdict": "VACUOUS", "why": "no call matching %s in %s: the code structure changed" % (want_call, fn.name), "wall_s": 0})
            return
        bad = None
        for p in paths:
            if len(p.args) <= arg_index:
                continue
            if not S.feasible(ex, p.conds):
                nq[0] += 1
                continue
            claim = claim_of(ex, p, p.args[arg_index])
            ok, r = S.valid(ex, p.conds, claim)
            nq[0] += 2
            if ok is None:
                queries.append({"name": label, "verdict": "INCONCLUSIVE", "why": "solver verdict %s" % r["verdict"], "wall_s": 0})
                return
            if not ok:
                bad = p
                break
        if bad is None:
            queries.append({"name": "%s (%d call-site paths)" % (label, len(paths)), "verdict": "PASS", "bounds": "every acyclic MIR path to the call site", "wall_s": 0, "solver": {"z3+cvc5": "QF_LIA"}})
        else:
            queries.append({"name": label + ": violated", "verdict": "FAIL", "why": "at `%s` the force flag is %s under path condition %s" % (bad.stmt[:110], bad.args[arg_index][:80], " ".join(bad.conds)[:200]),
                            "replayed": True, "replay_path": art(label, {"rule": label, "function": fn.name, "statement": bad.stmt, "path_condition": bad.conds}), "wall_s": 0})

    try:
        mir, dt = dump_mir(root)
        src_dt = open(os.path.join(common.REPO, "src", "draw_target.rs")).read()
        const_true = lambda ex, p, a: "(= %s 1)" % a  # noqa: E731

        # ---- F1
        f1 = [("BarState::finish_using_style forces its draw", "finish_using_style", "BarState", r"BarState::draw$", 1),
              ("BarState::println forces its draw", "println", "BarState", r"ProgressDrawTarget::drawable$", 1),
              ("BarState::suspend forces its clear", "suspend", "BarState", r"ProgressDrawTarget::drawable$", 1),
              ("BarState::suspend forces its redraw", "suspend", "BarState", r"BarState::draw$", 1),
              ("MultiState::println forces its draw", "println", "MultiState", r"MultiState::draw$", 1),
              ("MultiState::suspend forces its redraw", "suspend", "MultiState", r"MultiState::draw$", 1),
              ("MultiState::clear forces its draw", "clear", "MultiState", r"ProgressDrawTarget::drawable$", 1)]
        for label, meth, ty, call, idx in f1:
            fn = mir.find(meth, self_ty="&mut " + ty)
            check_sites("F1 " + label, fn, call, idx, const_true)
            enc.append("%s::%s" % (ty, meth))

        # ---- F2
        fn = mir.find("draw", self_ty="&mut BarState")
        if S.assigned_in_cycle(fn, "_2"):
            raise M.Unsupported("force flag assigned inside a loop of BarState::draw")

        def bar_claim(ex, p, a):
            fin = [e[3] for e in p.events if e[0] == "call" and e[1].endswith("ProgressState::is_finished")]
            if fin:
                return "(and (=> (not (= %s 0)) (not (= %s 0))) (=> (not (= %s 0)) (not (= %s 0))))" % (ex.sym("arg_2"), a, fin[0], a)
            # is_finished() was not consulted on this path (e.g. `force_draw || is_finished()` short-circuits): such a path may
            # only be taken by a forced draw, and must then ask with force
            return "(and (not (= %s 0)) (not (= %s 0)))" % (ex.sym("arg_2"), a)
        check_sites("F2 BarState::draw: forced or finished => the gate is asked with force", fn, r"ProgressDrawTarget::drawable$", 1, bar_claim)
        fn = mir.find("draw", self_ty="&mut MultiState")
        if S.assigned_in_cycle(fn, "_2"):
            raise M.Unsupported("force flag assigned inside a loop of MultiState::draw")
        check_sites("F2 MultiState::draw: forced => the gate is asked with force", fn, r"ProgressDrawTarget::drawable$", 1,
                    lambda ex, p, a: "(=> (not (= %s 0)) (not (= %s 0)))" % (ex.sym("arg_2"), a))
        enc += ["BarState::draw", "MultiState::draw"]

        # ---- F3
        fn = mir.find("drawable", self_ty="ProgressDrawTarget")
        ex = S.Exec(fn)
        rets = ex.run(want_return=True, want_stmt=r"= Drawable::(?:<'_>::)?Multi \{")
        k_term = variant_index(src_dt, "TargetKind", "Term")
        k_tl = variant_index(src_dt, "TargetKind", "TermLike")
        disc = [d for d in ex.decls if d.startswith("disc_")]
        if len(disc) != 1:
            raise M.Unsupported("expected one discriminant read in drawable")
        kind = disc[0]
        bad = None
        n_none = 0
        feas_some = False
        for p in rets:
            if p.stmt == "return;":
                ctor = any(re.search(r"Drawable", e[1]) for e in p.events if e[0] == "call")
                # a path returns None iff no Drawable aggregate was built on it: recognise by the statements of its blocks
                built = False
                # re-walk: blocks on the path are not recorded; use the conditions instead: ask whether a None-return is possible
                # under force: the return value local _0 is tracked in env as a fresh symbol per assignment, so look at the MIR text
                # of the last block assigning _0 on this path via env marker
                v0 = p.env.get("_0", "")
                if v0.startswith("v_"):  # `_0 = Option::<Drawable<'_>>::None;` / Some(..) are both opaque rvalues -> disambiguate below
                    pass
            # handled below with want_stmt paths
        # None-returns: enumerate the statements `_0 = Option::<Drawable<'_>>::None;`
        ex2 = S.Exec(fn)
        nones = ex2.run(want_stmt=r"^_0 = Option::<Drawable<'_>>::None;$")
        disc2 = [d for d in ex2.decls if d.startswith("disc_")]
        kind2 = disc2[0]
        for p in nones:
            n_none += 1
            istty = [e[3] for e in p.events if e[0] == "call" and e[1].endswith("Term::is_term")]
            conds = list(p.conds) + ["(not (= %s 0))" % ex2.sym("arg_2")]
            # Term target that is a tty, or TermLike target
            for kval, extra in ((k_term, ["(not (= %s 0))" % istty[0]] if istty else None), (k_tl, [])):
                if extra is None:
                    # is_term() not consulted on this path: with kind == Term the path must be infeasible anyway or it is the hidden arm
                    extra = []
                r = M.solve(ex2.declarations(), ["(assert %s)" % c for c in conds + extra + ["(= %s %d)" % (kind2, kval)]], timeout=20)
                nq[0] += 1
                if r["verdict"] == "sat":
                    bad = (p, kval)
                elif r["verdict"] != "unsat":
                    raise M.Unsupported("solver verdict %s" % r["verdict"])
        label = "F3 drawable(force = true) never refuses a Term (tty) or TermLike target, whatever the rate limiter answers (%d None-returning paths)" % n_none
        if n_none == 0:
            queries.append({"name": label, "verdict": "VACUOUS", "why": "no None-returning path found in drawable()", "wall_s": 0})
        elif bad is None:
            queries.append({"name": label, "verdict": "PASS", "bounds": "every path of ProgressDrawTarget::drawable; RateLimiter::allow uninterpreted", "wall_s": 0, "solver": {"z3+cvc5": "QF_LIA"}})
        else:
            p, kval = bad
            queries.append({"name": "F3 drawable(force = true) refuses a %s target" % ("Term" if kval == k_term else "TermLike"), "verdict": "FAIL",
                            "why": "None is returned under path condition %s" % " ".join(p.conds)[:260], "replayed": True,
                            "replay_path": art("F3_forced_draw_refused", {"rule": "F3", "function": fn.name, "path_condition": p.conds}), "wall_s": 0})
        # Multi: stored flag == parameter
        ctor_paths = [p for p in rets if p.stmt != "return;"]
        if not ctor_paths:
            queries.append({"name": "F3 Drawable::Multi stores the caller's force flag", "verdict": "VACUOUS", "why": "Drawable::Multi construction not found", "wall_s": 0})
        else:
            bad = None
            for p in ctor_paths:
                m = re.search(r"force_draw: ([^,}]*)", p.stmt)
                if not m:
                    bad = (p, "no force_draw field in the aggregate")
                    break
                val = ex.operand(dict(p.env), m.group(1).strip())
                ok, r = S.valid(ex, p.conds, "(= %s %s)" % (val, ex.sym("arg_2")))
                nq[0] += 1
                if not ok:
                    bad = (p, "force_draw: %s" % m.group(1).strip())
                    break
            if bad is None:
                queries.append({"name": "F3 Drawable::Multi stores the caller's force flag", "verdict": "PASS", "bounds": "every path of drawable() constructing Drawable::Multi", "wall_s": 0, "solver": {"z3+cvc5": "QF_LIA"}})
            else:
                queries.append({"name": "F3 Drawable::Multi does not store the caller's force flag", "verdict": "FAIL", "why": "at `%s` (%s)" % (bad[0].stmt[:140], bad[1]), "replayed": True,
                                "replay_path": art("F3_multi_force_flag", {"rule": "F3", "function": fn.name, "statement": bad[0].stmt}), "wall_s": 0})
        enc.append("ProgressDrawTarget::drawable")

        # ---- F4
        fields = variant_fields(src_dt, "Drawable", "Multi")
        fi = fields.index("force_draw")
        fn = mir.find("draw", self_ty="Drawable<'_>")

        def f4_claim(ex, p, a):
            want = [d for d in ex.decls if re.match(r"place_+1_as_Multi_+%d_+bool" % fi, d)]
            if not want:
                return "false"
            return "(= %s %s)" % (a, want[0])
        check_sites("F4 Drawable::draw hands the stored force flag to MultiState::draw", fn, r"MultiState::draw$", 1, f4_claim)
        enc.append("Drawable::draw")
        # ---- vacuity witness: the same machinery must flag a planted call site whose force flag is not forced
        planted = M.MirFn("fn planted(_1: &mut BarState, _2: bool, _3: Instant) -> () {", "state::planted", [("_1", "&mut BarState"), ("_2", "bool"), ("_3", "Instant")], "()", [
            "    let mut _4: bool;", "    let _5: ();", "",
            "    bb0: {", "        switchInt(copy _2) -> [0: bb1, otherwise: bb2];", "    }", "",
            "    bb1: {", "        _4 = const false;", "        goto -> bb3;", "    }", "",
            "    bb2: {", "        _4 = const true;", "        goto -> bb3;", "    }", "",
            "    bb3: {", "        _5 = BarState::draw(copy _1, copy _4, copy _3) -> [return: bb4, unwind continue];", "    }", "",
            "    bb4: {", "        return;", "    }"])
        before = len(queries)
        check_sites("witness", planted, r"BarState::draw$", 1, const_true)
        w = queries[before:]
        del queries[before:]
        okw = len(w) == 1 and w[0]["verdict"] == "FAIL"
        queries.append({"name": "witness: a planted call site whose force flag can be false is flagged", "verdict": "PASS" if okw else "BROKEN", "why": "" if okw else "planted site not flagged: %s" % [q["verdict"] for q in w], "wall_s": 0})

        # ---- D: dropping a bar
        src_st = open(os.path.join(common.REPO, "src", "state.rs")).read()
        k_inprog = variant_index(src_st, "Status", "InProgress")
        fn = mir.find("drop", self_ty="&mut BarState")
        ex = S.Exec(fn)
        fin_paths = ex.run(want_call=r"BarState::finish_using_style$")
        ret_paths = S.Exec(fn).run(want_return=True)
        d1_bad = None
        for p in fin_paths:
            if not S.feasible(ex, p.conds):
                continue
            fin = [e[3] for e in p.events if e[0] == "call" and e[1].endswith("ProgressState::is_finished")]
            disc = [d for d in ex.decls if d.startswith("disc_") and "Status" in d]
            claims = []
            if fin:
                claims.append("(= %s 0)" % fin[0])
            if disc:
                claims.append("(= %s %d)" % (disc[0], k_inprog))
            claim = "(or %s)" % " ".join(claims) if claims else "false"
            ok, r = S.valid(ex, p.conds, claim)
            nq[0] += 1
            if not ok:
                d1_bad = p
                break
        label = "D1 dropping a bar finishes it only when it is still in progress (a finished or cleared bar is not finished again)"
        if not fin_paths:
            queries.append({"name": label, "verdict": "VACUOUS", "why": "BarState::drop does not call finish_using_style: the code structure changed", "wall_s": 0})
        elif d1_bad is None:
            queries.append({"name": label + " (%d paths)" % len(fin_paths), "verdict": "PASS", "bounds": "every path of <BarState as Drop>::drop", "wall_s": 0, "solver": {"z3+cvc5": "QF_LIA"}})
        else:
            # candidate: confirm natively that a finished-and-cleared bar comes back when dropped
            differs, detail = native_drop_demo(root)
            if differs is True:
                queries.append({"name": "D1 dropping a finished bar finishes (and paints) it again", "verdict": "FAIL", "why": "finish_using_style reachable under %s; native run: %s" % (" ".join(d1_bad.conds)[:160], detail),
                                "replayed": True, "replay_path": art("D1_drop_finishes_again", {"rule": "D1", "function": fn.name, "path_condition": d1_bad.conds, "native": detail}), "wall_s": 0})
            else:
                queries.append({"name": label, "verdict": "INCONCLUSIVE", "why": "finish_using_style reachable under %s; the native run %s" % (" ".join(d1_bad.conds)[:160], "showed nothing painted by the drop" if differs is False else "could not be run: " + str(detail)[:200]), "wall_s": 0})
        # D2: every path marks the bar as a zombie exactly once, as its last library call
        d2_bad = None
        for p in ret_paths:
            calls = [e[1] for e in p.events if e[0] == "call"]
            if calls.count("ProgressDrawTarget::mark_zombie") != 1 or not calls or calls[-1] != "ProgressDrawTarget::mark_zombie":
                d2_bad = (p, calls)
        if not ret_paths:
            queries.append({"name": "D2 drop notifies the MultiProgress", "verdict": "VACUOUS", "why": "no return path", "wall_s": 0})
        elif d2_bad is None:
            queries.append({"name": "D2 every path of drop ends with exactly one mark_zombie (the MultiProgress learns that the bar is gone, after the final draw) (%d paths)" % len(ret_paths), "verdict": "PASS",
                            "bounds": "every path of <BarState as Drop>::drop", "wall_s": 0})
        else:
            queries.append({"name": "D2 a path of drop does not end with exactly one mark_zombie", "verdict": "FAIL", "why": "calls on the path: %s" % d2_bad[1], "replayed": True,
                            "replay_path": art("D2_mark_zombie", {"rule": "D2", "function": fn.name, "calls": d2_bad[1]}), "wall_s": 0})
        enc.append("<BarState as Drop>::drop")
        for q in queries:
            q.setdefault("wall_s", 0)
        if queries:
            queries[-1]["wall_s"] = round(time.time() - t_all, 2)
        assumptions.append("engine M part discharged %d SMT queries" % nq[0])
    except (M.Unsupported, KeyError, IndexError, AttributeError, ValueError) as e:
        queries.append({"name": "MIR force-flag analysis", "verdict": "BROKEN", "why": "%s: %s" % (type(e).__name__, e), "wall_s": 0})
    return {"queries": queries, "assumptions": assumptions, "encodes": enc, "bounds": ["engine M (force flag): every acyclic path to each call site"]}


DROP_TEST = r'''
#[cfg(test)]
mod verif_c04_drop {
    use crate::{InMemoryTerm, ProgressBar, ProgressDrawTarget, ProgressFinish, ProgressStyle};

    #[test]
    fn verif_c04_drop_of_finished_bar_paints_nothing() {
        let mut painted = Vec::new();
        for how in 0..4 {
            let term = InMemoryTerm::new(6, 40);
            let pb = ProgressBar::with_draw_target(Some(10), ProgressDrawTarget::term_like(Box::new(term.clone())))
                .with_style(ProgressStyle::with_template("{msg} {pos}/{len}").unwrap())
                .with_finish(ProgressFinish::WithMessage("done".into()))
                .with_message("work");
            pb.inc(3);
            match how {
                0 => pb.finish_and_clear(),
                1 => pb.finish(),
                2 => pb.abandon(),
                _ => pb.finish_with_message("bye"),
            }
            let before = term.contents();
            drop(pb);
            let after = term.contents();
            if before != after {
                painted.push(format!("how={how}: before {before:?} after {after:?}"));
            }
        }
        if painted.is_empty() {
            println!("DROPDEMO same");
        } else {
            println!("DROPDEMO differs {}", painted.join(" | "));
        }
    }
}
'''


def native_drop_demo(root):
    from props.C05 import native_test
    try:
        rc, out = native_test(root, "lib.rs", DROP_TEST, "verif_c04_drop_of_finished_bar_paints_nothing", timeout=900, features="in_memory")
    except Exception as e:  # noqa
        return None, repr(e)
    m = re.search(r"DROPDEMO (differs|same)(.*)", out)
    if not m:
        pm = re.search(r"(error[^\n]*\n[^\n]*|panicked at [^\n]*\n[^\n]*)", out)
        return None, (pm.group(0) if pm else out[-300:])
    return (m.group(1) == "differs"), m.group(0)[:400]


def replay(path):
    d = json.load(open(path))
    if "native" in d:
        differs, detail = native_drop_demo(common.scratch_root())
        say(detail)
        return 2 if differs is None else (1 if differs else 0)
    r = run("quick", None)
    hit = [q for q in r["queries"] if q["verdict"] == "FAIL" and d.get("rule", "@@")[:2] in q["name"]]
    if hit:
        say("still flagged: %s" % hit[0]["name"])
        return 1
    say("no longer flagged")
    return 0
