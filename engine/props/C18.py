"""C18 (engine M part) — no library path turns a terminal I/O error into a panic.

The Kani harnesses of C18 inject a failing terminal call into single BarState / DrawState operations and decide that the
logical state is untouched. What they cannot reach in quick-tier time are the ProgressBar- and MultiProgress-level
wrappers (Arc<Mutex<..>> / RwLock<MultiState> make those harnesses 10-100x more expensive). The defect class the property
names -- "sites that unwrap a draw result" -- is decided here on the MIR of the current tree, for EVERY function of the
library:

  a value of type Result<(), std::io::Error> (the type every draw / clear / terminal operation returns) is never consumed
  by Result::unwrap / expect / unwrap_err-free panicking adaptors, and no `match` on such a value has an Err arm that runs
  straight into core::panicking::* -- on any feasible control-flow path from the function's entry.

Path feasibility (constant discriminants along the path) is decided by z3 and cvc5 as for C08 / C03. A panic under the
bar's Mutex or the MultiProgress RwLock is also what poisons the lock, so the same verdict covers "no lock is left poisoned
by an I/O failure".
"""
import json
import os
import re
import sys
import time

sys.path.insert(0, os.path.dirname(os.path.dirname(os.path.abspath(__file__))))
import common  # noqa: E402
import mirsmt as M  # noqa: E402
from common import OUT_DIR, say  # noqa: E402
from props.C05 import dump_mir  # noqa: E402
from props.C08 import CALL_RE, DROP_RE  # noqa: E402

IO_UNIT = r"Result::<\(\), (?:std::io::|io::)?Error>"
PANICKY = re.compile(IO_UNIT + r"::(unwrap|expect|unwrap_unchecked|unwrap_or_else::<.*panic.*>)$")
PANIC_CALL = re.compile(r"core::panicking::|std::rt::begin_panic|panic_fmt|panic_display|unwrap_failed|std::process::abort|std::process::exit")
FILES = ("progress_bar", "multi", "state", "draw_target", "iter", "style", "rayon", "term_like", "format")


def successors(stmts):
    """-> list of (target, label) for the terminator of a block"""
    for s in stmts:
        c = CALL_RE.match(s)
        if c:
            return [(c.group(4), None)]
        d = DROP_RE.match(s)
        if d:
            return [(d.group(2), None)]
        g = re.match(r"^goto -> (bb\d+);$", s)
        if g:
            return [(g.group(1), None)]
        a = re.match(r"^assert\(.*\) -> \[success: (bb\d+)", s)
        if a:
            return [(a.group(1), None)]
        sw = re.match(r"^switchInt\((?:copy|move) (.*?)\) -> \[(.*)\];$", s)
        if sw:
            out = []
            for arm in sw.group(2).split(","):
                k, t = [x.strip() for x in arm.split(":")]
                out.append((t, (sw.group(1), k)))
            return out
        if re.match(r"^(_\d+|\(.*\)) = .* -> \[return: (bb\d+)", s):  # a call split_call could not parse
            m = re.search(r"-> \[return: (bb\d+)", s)
            return [(m.group(1), None)]
    return []


def local_types(fn):
    return dict(fn.local_ty)


IO_TY = re.compile(r"^(?:std::result::)?Result<\(\), (?:std::io::|io::)?Error>$")


def find_sites(fn):
    """sites where an io::Result<()> is turned into a panic: (block, statement, kind)"""
    sites = []
    ty = local_types(fn)
    io_locals = set(k for k, v in ty.items() if IO_TY.match(v.strip()))
    disc_of = {}
    for bb, stmts in fn.blocks.items():
        for s in stmts:
            c = CALL_RE.match(s)
            if c and PANICKY.search(c.group(2).strip()):
                sites.append((bb, s, "calls %s on a terminal I/O result" % PANICKY.search(c.group(2).strip()).group(1)))
            m = re.match(r"^(_\d+) = discriminant\((?:\(\*)?(_\d+)\)?\);$", s)
            if m and m.group(2) in io_locals:
                disc_of[m.group(1)] = (m.group(2), bb)
    # match arms on an io::Result<()> whose Err arm runs straight into a panic
    for bb, stmts in fn.blocks.items():
        for s in stmts:
            sw = re.match(r"^switchInt\((?:copy|move) (_\d+)\) -> \[(.*)\];$", s)
            if not sw or sw.group(1) not in disc_of:
                continue
            arms = [[x.strip() for x in a.split(":")] for a in sw.group(2).split(",")]
            # discriminant 1 = Err; it is either an explicit arm or `otherwise` when 0 is explicit
            err_t = None
            for k, t in arms:
                if k == "1":
                    err_t = t
            if err_t is None and any(k == "0" for k, _ in arms):
                err_t = [t for k, t in arms if k == "otherwise"][0]
            if err_t is None:
                continue
            cur, hops = err_t, 0
            while cur and hops < 12:
                st = fn.blocks.get(cur, [])
                hit = [x for x in st if PANIC_CALL.search(x) and "->" not in x.split("=")[0]]
                diverges = [x for x in st if PANIC_CALL.search(x)]
                if diverges:
                    sites.append((bb, diverges[0], "the Err arm of a match on a terminal I/O result panics"))
                    break
                nx = successors(st)
                if len(nx) != 1:
                    break
                cur = nx[0][0]
                hops += 1
    return sites


def path_to(fn, target_bb):
    """a control-flow path bb0 -> target with consistent constant discriminants: (path, known) or None"""
    work = [("bb0", (), ())]
    seen = set()
    while work:
        bb, known, path = work.pop()
        if (bb, known) in seen or len(path) > 200:
            continue
        seen.add((bb, known))
        k = dict(known)
        for s in fn.blocks.get(bb, []):
            m = re.match(r"^(_\d+) = const (true|false|\d+_\w+);$", s)
            if m:
                v = m.group(2)
                k[m.group(1)] = 1 if v == "true" else 0 if v == "false" else int(v.split("_")[0])
            elif re.match(r"^(_\d+) = ", s):
                k.pop(re.match(r"^(_\d+) = ", s).group(1), None)
        if bb == target_bb:
            return list(path) + [bb], k
        for t, lab in successors(fn.blocks.get(bb, [])):
            if lab and lab[0] in k:
                v = k[lab[0]]
                arms = None
                if lab[1] != "otherwise" and int(lab[1]) != v:
                    continue
                if lab[1] == "otherwise":
                    # taken only if no explicit arm matches: cheap check by re-reading the terminator
                    term = [x for x in fn.blocks[bb] if x.startswith("switchInt")][0]
                    explicit = [int(a.split(":")[0]) for a in re.search(r"\[(.*)\]", term).group(1).split(",") if not a.strip().startswith("otherwise")]
                    if v in explicit:
                        continue
            work.append((t, tuple(sorted(k.items())), path + (bb,)))
    return None


FLAKY_TEST = r'''
#[cfg(test)]
mod verif_c18_flaky {
    use crate::{MultiProgress, ProgressBar, ProgressDrawTarget, ProgressStyle, TermLike};
    use std::io;
    use std::panic::{catch_unwind, AssertUnwindSafe};
    use std::sync::atomic::{AtomicBool, Ordering};
    use std::sync::Arc;

    #[derive(Debug, Clone, Default)]
    struct Flaky(Arc<AtomicBool>);
    impl Flaky {
        fn op(&self) -> io::Result<()> {
            if self.0.load(Ordering::SeqCst) {
                Err(io::Error::new(io::ErrorKind::BrokenPipe, "terminal gone"))
            } else {
                Ok(())
            }
        }
    }
    impl TermLike for Flaky {
        fn width(&self) -> u16 { 80 }
        fn height(&self) -> u16 { 24 }
        fn move_cursor_up(&self, _: usize) -> io::Result<()> { self.op() }
        fn move_cursor_down(&self, _: usize) -> io::Result<()> { self.op() }
        fn move_cursor_right(&self, _: usize) -> io::Result<()> { self.op() }
        fn move_cursor_left(&self, _: usize) -> io::Result<()> { self.op() }
        fn write_line(&self, _: &str) -> io::Result<()> { self.op() }
        fn write_str(&self, _: &str) -> io::Result<()> { self.op() }
        fn clear_line(&self) -> io::Result<()> { self.op() }
        fn flush(&self) -> io::Result<()> { self.op() }
    }

    fn guarded(what: &str, bad: &mut Vec<String>, f: impl FnOnce()) {
        if catch_unwind(AssertUnwindSafe(f)).is_err() {
            bad.push(what.to_string());
        }
    }

    #[test]
    fn verif_c18_no_call_panics_on_a_failing_terminal() {
        std::panic::set_hook(Box::new(|_| {}));
        let mut bad = Vec::new();
        type Op = (&'static str, fn(&ProgressBar, &MultiProgress, &ProgressBar));
        let ops: Vec<Op> = vec![
            ("tick", |p, _, _| p.tick()),
            ("inc", |p, _, _| p.inc(1)),
            ("set_length", |p, _, _| p.set_length(9)),
            ("set_message", |p, _, _| p.set_message("m")),
            ("set_tab_width", |p, _, _| p.set_tab_width(3)),
            ("set_style", |p, _, _| p.set_style(ProgressStyle::with_template("{msg}").unwrap())),
            ("println", |p, _, _| p.println("x")),
            ("suspend", |p, _, _| p.suspend(|| ())),
            ("reset", |p, _, _| p.reset()),
            ("mp.println", |_, m, _| { let _ = m.println("x"); }),
            ("mp.clear", |_, m, _| { let _ = m.clear(); }),
            ("mp.suspend", |_, m, _| m.suspend(|| ())),
            ("mp.add(member)", |p, m, _| { let _ = m.add(p.clone()); }),
            ("mp.insert_after(member)", |p, m, s| { let _ = m.insert_after(s, p.clone()); }),
            ("mp.remove", |p, m, _| m.remove(p)),
            ("set_draw_target(hidden)", |p, _, _| p.set_draw_target(ProgressDrawTarget::hidden())),
            ("finish", |p, _, _| p.finish()),
            ("finish_and_clear", |p, _, _| p.finish_and_clear()),
            ("abandon_with_message", |p, _, _| p.abandon_with_message("bye")),
        ];
        for standalone in [false, true] {
            for (name, op) in &ops {
                let term = Flaky::default();
                let mp = MultiProgress::with_draw_target(ProgressDrawTarget::term_like(Box::new(term.clone())));
                let (pb, sib) = if standalone {
                    (ProgressBar::with_draw_target(Some(10), ProgressDrawTarget::term_like(Box::new(term.clone()))), ProgressBar::hidden())
                } else {
                    (mp.add(ProgressBar::new(10)), mp.add(ProgressBar::new(5)))
                };
                if standalone && name.starts_with("mp.") {
                    continue;
                }
                pb.inc(3);
                sib.inc(1);
                term.0.store(true, Ordering::SeqCst);
                let what = format!("{}{}", if standalone { "standalone " } else { "member " }, name);
                guarded(&what, &mut bad, || op(&pb, &mp, &sib));
                // later calls on the same and on sibling bars keep working, also once the terminal is back
                guarded(&format!("{what}, then inc"), &mut bad, || { pb.inc(1); sib.inc(1); let _ = (pb.position(), sib.position()); });
                term.0.store(false, Ordering::SeqCst);
                guarded(&format!("{what}, then tick on a healthy terminal"), &mut bad, || { pb.tick(); sib.tick(); });
                guarded(&format!("{what}, then drop"), &mut bad, || { drop(pb); drop(sib); drop(mp); });
            }
        }
        if bad.is_empty() {
            println!("FLAKY nopanic");
        } else {
            println!("FLAKY panics {}", bad.join(" | "));
        }
    }
}
'''


def native_flaky(root):
    """-> (True some call panics / False none / None could not run, detail)"""
    from props.C05 import native_test
    try:
        rc, out = native_test(root, "lib.rs", FLAKY_TEST, "verif_c18_no_call_panics_on_a_failing_terminal", timeout=900)
    except Exception as e:  # noqa
        return None, repr(e)
    m = re.search(r"FLAKY (panics|nopanic)(.*)", out)
    if not m:
        pm = re.search(r"(error[^\n]*\n[^\n]*|panicked at [^\n]*\n[^\n]*)", out)
        return None, (pm.group(0) if pm else out[-300:])
    return (m.group(1) == "panics"), m.group(0)[:400]


KNOWN_ROLE = {
    # role keys of defects that were found by this check and repaired; nothing is suppressed any more (see known_findings.json "fixed")
}


REAP_TEST = r"""
#[cfg(test)]
mod verif_c18_reap_under_failure {
    use crate::{MultiProgress, ProgressBar, ProgressDrawTarget, TermLike};
    use std::io;
    use std::mem::ManuallyDrop;
    use std::panic::{catch_unwind, AssertUnwindSafe};
    use std::sync::atomic::{AtomicBool, Ordering};
    use std::sync::Arc;

    #[derive(Debug, Clone, Default)]
    struct Flaky(Arc<AtomicBool>);
    impl Flaky {
        fn op(&self) -> io::Result<()> {
            if self.0.load(Ordering::SeqCst) { Err(io::Error::new(io::ErrorKind::BrokenPipe, "terminal gone")) } else { Ok(()) }
        }
    }
    impl TermLike for Flaky {
        fn width(&self) -> u16 { 80 }
        fn height(&self) -> u16 { 24 }
        fn move_cursor_up(&self, _: usize) -> io::Result<()> { self.op() }
        fn move_cursor_down(&self, _: usize) -> io::Result<()> { self.op() }
        fn move_cursor_right(&self, _: usize) -> io::Result<()> { self.op() }
        fn move_cursor_left(&self, _: usize) -> io::Result<()> { self.op() }
        fn write_line(&self, _: &str) -> io::Result<()> { self.op() }
        fn write_str(&self, _: &str) -> io::Result<()> { self.op() }
        fn clear_line(&self) -> io::Result<()> { self.op() }
        fn flush(&self) -> io::Result<()> { self.op() }
    }

    fn guarded<R>(what: &str, bad: &mut Vec<String>, f: impl FnOnce() -> R) -> Option<R> {
        match catch_unwind(AssertUnwindSafe(f)) {
            Ok(r) => Some(r),
            Err(_) => { bad.push(what.to_string()); None }
        }
    }

    /// the draw that reaps a zombie from the head of the MultiProgress fails; afterwards everything must keep working
    #[test]
    fn verif_c18_reaping_draw_fails() {
        std::panic::set_hook(Box::new(|_| {}));
        let mut bad = Vec::new();
        for first_failing in ["set_message", "println", "tick"] {
            let term = Flaky::default();
            let mp = MultiProgress::with_draw_target(ProgressDrawTarget::term_like(Box::new(term.clone())));
            let pb1 = mp.add(ProgressBar::new(10));
            let pb2 = mp.add(ProgressBar::new(10));
            let pb3 = ManuallyDrop::new(mp.add(ProgressBar::new(10)));
            pb1.tick(); pb2.tick(); pb3.tick();
            drop(pb2); // not at the head: waits as a zombie
            drop(pb1); // head: reaped at once; the zombie is now at the head and is reaped by the next draw
            term.0.store(true, Ordering::SeqCst);
            let w = format!("[failing {first_failing}]");
            match first_failing {
                "set_message" => { guarded(&format!("{w} set_message"), &mut bad, || pb3.set_message("m")); }
                "println" => { guarded(&format!("{w} println"), &mut bad, || { let _ = mp.println("x"); }); }
                _ => { guarded(&format!("{w} tick"), &mut bad, || pb3.tick()); }
            }
            guarded(&format!("{w} second failing draw"), &mut bad, || { let _ = mp.println("y"); });
            term.0.store(false, Ordering::SeqCst);
            let pb4 = guarded(&format!("{w} add"), &mut bad, || ManuallyDrop::new(mp.add(ProgressBar::new(5))));
            if let Some(pb4) = &pb4 {
                guarded(&format!("{w} pb4.set_position"), &mut bad, || pb4.set_position(2));
            }
            guarded(&format!("{w} pb3.set_position"), &mut bad, || pb3.set_position(7));
            guarded(&format!("{w} println on a healthy terminal"), &mut bad, || { let _ = mp.println("z"); });
            let pb5 = guarded(&format!("{w} insert(0)"), &mut bad, || ManuallyDrop::new(mp.insert(0, ProgressBar::new(3))));
            if let Some(pb5) = &pb5 {
                guarded(&format!("{w} remove"), &mut bad, || mp.remove(pb5));
            }
            guarded(&format!("{w} finish"), &mut bad, || pb3.finish_with_message("done"));
            guarded(&format!("{w} clear"), &mut bad, || { let _ = mp.clear(); });
            let st = guarded(&format!("{w} getters"), &mut bad, || (pb3.position(), pb3.length(), pb3.is_finished()));
            if let Some(st) = st {
                if st != (10, Some(10), true) {
                    bad.push(format!("{w} logical state of the surviving bar is {st:?}"));
                }
            }
            if let Some(pb4) = &pb4 {
                if let Some(p) = guarded(&format!("{w} pb4 getters"), &mut bad, || (pb4.position(), pb4.length())) {
                    if p != (2, Some(5)) {
                        bad.push(format!("{w} logical state of the bar added later is {p:?}"));
                    }
                }
            }
        }
        if bad.is_empty() {
            println!("REAPFAIL nopanic");
        } else {
            println!("REAPFAIL broken {}", bad.join(" | "));
        }
    }
}
"""


def native_reapfail(root):
    from props.C05 import native_test
    try:
        rc, out = native_test(root, "lib.rs", REAP_TEST, "verif_c18_reaping_draw_fails", timeout=900)
    except Exception as e:  # noqa
        return None, repr(e)
    m = re.search(r"REAPFAIL (broken|nopanic)(.*)", out)
    if not m:
        pm = re.search(r"(error[^\n]*\n[^\n]*|panicked at [^\n]*\n[^\n]*)", out)
        return None, (pm.group(0) if pm else out[-300:])
    return (m.group(1) == "broken"), m.group(0)[:500]


MEMBERSHIP_MUT = re.compile(r"^_\d+ = &mut \(\(\*_1\)\.\d+: (?:std::vec::)?Vec<(?:multi::)?(?:MultiStateMember|usize)>\);$")
MEMBERSHIP_CALL = re.compile(r"MultiState::(remove_idx|insert|mark_zombie)$")


def early_error_after_membership_change(fn):
    """E1: blocks of fn where an Err residual is returned (`?`) and that are reachable from a block that borrows the membership vectors
    (members / ordering / free_set) mutably or calls remove_idx / insert. -> list of (mutation block, stmt, residual block)"""
    succ = {bb: [t for t, _ in successors(st)] for bb, st in fn.blocks.items()}
    residual = [bb for bb, st in fn.blocks.items() if any("from_residual" in x for x in st)]
    muts = []
    for bb, st in fn.blocks.items():
        for x in st:
            c = CALL_RE.match(x)
            if MEMBERSHIP_MUT.match(x) or (c and MEMBERSHIP_CALL.search(c.group(2).strip())):
                muts.append((bb, x))
    out = []
    for mb, x in muts:
        if path_to(fn, mb) is None:
            continue
        seen, work = set(), [mb]
        while work:
            b = work.pop()
            if b in seen:
                continue
            seen.add(b)
            work += succ.get(b, [])
        for rb in residual:
            if rb in seen and rb != mb:
                out.append((mb, x, rb))
    return out


def run(tier, logdir):
    root = common.scratch_root()
    assumptions = [
        "engine M part: every terminal operation and every draw returns Result<(), std::io::Error> (TermLike's signatures); panicking consumers recognised: Result::unwrap / expect / unwrap_unchecked and match arms on such a value whose Err arm reaches core::panicking::* within 12 straight-line blocks; other ways to panic on an error (e.g. storing the error and panicking later) are outside this part and left to the Kani fault-injection harnesses",
        "a site is reported when a control-flow path from the function entry reaches it with consistent constant discriminants (z3 and cvc5 agree on satisfiability); whether a public call reaches the function is not decided: every non-test function of the library counts",
    ]
    queries = []
    enc = []
    try:
        mir, dt = dump_mir(root)
        nfn = 0
        nsites = 0
        t_solver = 0.0
        nq = 0
        found = []
        for fn in mir.fns:
            if not fn.name.startswith(FILES) or "verif" in fn.name or "::tests::" in fn.name:
                continue
            nfn += 1
            for bb, stmt, kind in find_sites(fn):
                nsites += 1
                p = path_to(fn, bb)
                if p is None:
                    continue
                path, known = p
                decls = ["(declare-const flag_%s Int)" % re.sub(r"\W", "", k) for k in known]
                asserts = ["(assert (= flag_%s %d))" % (re.sub(r"\W", "", k), v) for k, v in known.items()]
                t0 = time.time()
                r = M.solve(decls, asserts, timeout=20)
                t_solver += time.time() - t0
                nq += 1
                if r["verdict"] == "sat":
                    found.append((fn, bb, stmt, kind, path))
        short = lambda n: re.sub(r"<impl at [^>]*>", "", n).replace("::::", "::")  # noqa: E731
        confirmed, native_detail = (None, None)
        if found:
            # a site is a candidate; it is reported once a native run with a failing terminal shows a panic (or a poisoned lock)
            confirmed, native_detail = native_flaky(root)
        for fn, bb, stmt, kind, path in found:
            if confirmed is not True:
                queries.append({"name": "%s %s" % (short(fn.name), kind), "verdict": "INCONCLUSIVE",
                                "why": "at `%s`; the native run with a failing terminal (19 operations on standalone and member bars) %s" % (
                                    stmt[:100], "did not panic" if confirmed is False else "could not be run: " + str(native_detail)[:200]), "wall_s": 0})
                continue
            art_dir = os.path.join(OUT_DIR, "replays", "C18")
            os.makedirs(art_dir, exist_ok=True)
            art = os.path.join(art_dir, re.sub(r"\W+", "_", short(fn.name))[:100] + "_panics_on_io_error.json")
            with open(art, "w") as fh:
                json.dump({"property": "C18", "function": short(fn.name), "header": fn.header if hasattr(fn, "header") else fn.name, "statement": stmt, "kind": kind, "mir_path": path,
                           "how": "bin/check C18 --replay <this file>: re-runs the analysis on the current tree; native demonstrations of the two sites the property names are in /verif/demos/C18_*.rs"}, fh, indent=1)
            queries.append({"name": "%s %s" % (short(fn.name), kind), "verdict": "FAIL",
                            "why": "at `%s` (MIR path %s): a failing terminal call panics here (and poisons any lock held); native run: %s" % (stmt[:120], "->".join(path[-6:]), native_detail),
                            "replayed": True, "replay_path": art, "wall_s": 0, "known": KNOWN_ROLE.get(short(fn.name))})
        queries.append({"name": "no function turns a terminal I/O result into a panic: %d functions, %d candidate sites, %d feasibility queries" % (nfn, nsites, nq),
                        "verdict": "PASS" if nfn > 50 else "VACUOUS", "why": "" if nfn > 50 else "fewer than 50 functions found in the MIR dump",
                        "bounds": "every non-unwind MIR path of every library function", "wall_s": round(t_solver, 2), "solver": {"z3+cvc5": "path feasibility"}})
        # E1: a failing draw must not leave the membership of a MultiProgress half-updated
        t0 = time.time()
        e1 = []
        ms_fns = [fn for fn in mir.fns if fn.name.startswith("multi") and fn.params and fn.params[0][1].strip() == "&mut MultiState" and "verif" not in fn.name]
        for fn in ms_fns:
            for mb, x, rb in early_error_after_membership_change(fn):
                e1.append("%s: `%s` (%s) is followed by an early Err return in %s" % (short(fn.name), x[:90], mb, rb))
        label = "no &mut MultiState method returns an I/O error early after changing members / ordering / free_set: %d methods" % len(ms_fns)
        if not e1:
            queries.append({"name": label, "verdict": "PASS" if ms_fns else "VACUOUS", "why": "" if ms_fns else "no &mut MultiState method found", "bounds": "every non-unwind MIR path of the &mut MultiState methods", "wall_s": round(time.time() - t0, 2)})
        else:
            brk, detail = native_reapfail(root)
            if brk is True:
                art_dir = os.path.join(OUT_DIR, "replays", "C18")
                os.makedirs(art_dir, exist_ok=True)
                art = os.path.join(art_dir, "reaping_draw_fails.json")
                with open(art, "w") as fh:
                    json.dump({"property": "C18", "native_scenario": "reapfail", "what": e1[0], "native": detail,
                               "how": "bin/check C18 --replay <this file>: re-runs the failing-reaping-draw scenario natively against the current tree"}, fh, indent=1)
                queries.append({"name": "a failing draw leaves the MultiProgress membership half-updated", "verdict": "FAIL", "why": "%s; native run: %s" % (e1[0], detail), "replayed": True, "replay_path": art, "wall_s": round(time.time() - t0, 1)})
            else:
                queries.append({"name": label, "verdict": "INCONCLUSIVE", "why": "%s; the native failing-reaping-draw scenario %s" % (e1[0], "kept working" if brk is False else "could not be run: " + str(detail)[:200]), "wall_s": round(time.time() - t0, 1)})
        # vacuity witness: the recogniser must find the panicking consumers in a planted function
        planted = M.MirFn("fn planted(_1: &T) -> () {", "state::planted", [("_1", "&T")], "()", [
            "    let mut _2: std::result::Result<(), std::io::Error>;", "    let _3: ();", "",
            "    bb0: {", "        _2 = draw(copy _1) -> [return: bb1, unwind continue];", "    }", "",
            "    bb1: {", "        _3 = Result::<(), std::io::Error>::unwrap(move _2) -> [return: bb2, unwind continue];", "    }", "",
            "    bb2: {", "        return;", "    }"])
        ok = len(find_sites(planted)) == 1 and path_to(planted, "bb1") is not None
        queries.append({"name": "witness: the recogniser flags a planted Result<(), io::Error>::unwrap", "verdict": "PASS" if ok else "BROKEN", "why": "" if ok else "planted site not recognised", "wall_s": 0})
        enc = ["every function of progress_bar.rs, multi.rs, state.rs, draw_target.rs, iter.rs, style.rs (MIR scan, %d functions)" % nfn]
    except (M.Unsupported, KeyError, IndexError, AttributeError) as e:
        queries.append({"name": "MIR panic-on-I/O-error analysis", "verdict": "BROKEN", "why": "%s: %s" % (type(e).__name__, e), "wall_s": 0})
    return {"queries": queries, "assumptions": assumptions, "encodes": enc, "bounds": ["engine M (panic sites): every non-unwind MIR path of every library function"]}


def replay(path):
    d = json.load(open(path))
    if d.get("native_scenario") == "reapfail":
        brk, detail = native_reapfail(common.scratch_root())
        say(str(detail))
        return 2 if brk is None else (1 if brk else 0)
    ok, detail = native_flaky(common.scratch_root())
    say(detail)
    if ok is not None:
        return 1 if ok else 0
    r = run("quick", None)
    hit = [q for q in r["queries"] if q["verdict"] == "FAIL" and d["function"] in q["name"]]
    if hit:
        say("still flagged: %s" % hit[0]["name"])
        return 1
    say("no longer flagged")
    return 0
