"""C05 — redraw throttling. Engine M: the MIR of RateLimiter::{new,allow} and AtomicPosition::{new,allow,reset}
of the current tree is executed symbolically and the token-bucket laws are discharged by z3 + cvc5.

Laws (B = burst: 20 / 10, R = rate in Hz: refresh rate / 1000, all times integer ns):
  window     any k admitted calls at non-decreasing instants, from any reachable state:  k <= B + R*T + 1
  staleness  admitted at t1, request at t2 >= t1 + 1/R  =>  admitted          (and the first request after new())
  no-panic   no overflow / division / unwrap obligation of the MIR is reachable
Two encodings of the window law are both run:
  direct     k-call unrolling (k = B+2 ..), representation independent, yields the replayable trace
  inductive  one symbolic call from an arbitrary state satisfying the representation invariant, with the credit
             function Phi = capacity*I + (now - prev):  admitted <=> Phi >= I;  admitted => capacity' <= B-1,
             Phi' <= Phi - I, 0 <= now - prev' < I;  refused => state unchanged;  plus I >= 1/R.
             (=> for n admitted calls in a window T: (n-1)*I <= Phi(t1+) + T < B*I + T, i.e. n < B + 1 + R*T.)
"""
import os
import random
import re
import shutil
import subprocess
import sys
import time

sys.path.insert(0, os.path.dirname(os.path.dirname(os.path.abspath(__file__))))
import common  # noqa: E402
import mirsmt as M  # noqa: E402
from common import OUT_DIR, REPO, say  # noqa: E402
from mirsmt import Agg, Ctx, Mir, Ref, T, add, band, beq, bnot, boolc, bor, cmp, mul, num, sub  # noqa: E402

NS = 1_000_000_000
TMAX = 1 << 62
ENV = dict(os.environ, CARGO_NET_OFFLINE="true", CARGO_TERM_COLOR="never")


# ----------------------------------------------------------------------------- plumbing

def dump_mir(root):
    src = os.path.join(root, "mirsrc")
    shutil.rmtree(src, ignore_errors=True)
    os.makedirs(src)
    for f in ("Cargo.toml", "Cargo.lock"):
        shutil.copy2(os.path.join(REPO, f), os.path.join(src, f))
    shutil.copytree(os.path.join(REPO, "src"), os.path.join(src, "src"))
    t0 = time.time()
    p = subprocess.run(["cargo", "+nightly", "rustc", "--offline", "--lib", "--target-dir", os.path.join(root, "target_mir"), "--",
                        "-Zunpretty=mir", "-C", "debug-assertions=off", "-C", "overflow-checks=on"],
                       cwd=src, capture_output=True, text=True, env=ENV)
    if p.returncode != 0 or "fn " not in p.stdout:
        raise M.Unsupported("MIR dump failed: " + p.stderr[-800:])
    srcs = [open(os.path.join(src, "src", f)).read() for f in ("draw_target.rs", "state.rs")]
    return Mir(p.stdout, srcs), time.time() - t0


def native_test(root, srcfile, module_code, test_name, timeout=600, features=None):
    """Append a #[cfg(test)] module to a fresh copy of the current tree and run one test natively."""
    d = os.path.join(root, "native")
    shutil.rmtree(d, ignore_errors=True)
    os.makedirs(d)
    for f in ("Cargo.toml", "Cargo.lock"):
        shutil.copy2(os.path.join(REPO, f), os.path.join(d, f))
    shutil.copytree(os.path.join(REPO, "src"), os.path.join(d, "src"))
    with open(os.path.join(d, "src", srcfile), "a") as f:
        f.write("\n" + module_code)
    env = dict(ENV, CARGO_TARGET_DIR=os.path.join(root, "target_native"))
    cmd = ["cargo", "test", "--offline", "--lib"] + (["--features", features] if features else []) + [test_name, "--", "--nocapture", "--test-threads=1"]
    p = subprocess.run(cmd, cwd=d, capture_output=True, text=True, env=env, timeout=timeout)
    return p.returncode, p.stdout + p.stderr


class Limiter:
    """Adapter over one of the two token buckets: how to build a state, call it, read its fields."""

    def __init__(self, mir, which):
        self.mir, self.which = mir, which
        if which == "draw":
            self.struct = "RateLimiter"
            self.B = 20
            self.srcfile = "draw_target.rs"
        else:
            self.struct = "AtomicPosition"
            self.B = 10
            self.srcfile = "state.rs"
        self.fields = [f for f, _ in mir.structs[self.struct]]
        for need in ("capacity", "prev"):
            if need not in self.fields:
                raise M.Unsupported("%s has no field `%s` any more: the credit lemma must be re-derived" % (self.struct, need))
        self.f_allow = mir.find("allow", self_ty=self.struct)
        self.f_new = mir.find("new", self_ty=self.struct)
        self.f_reset = mir.find("reset", self_ty=self.struct) if which == "pos" else None

    def new_state(self, ctx, rate, t0):
        ctx.now_value = t0
        st = ctx.call(self.f_new, [num(rate)] if self.which == "draw" else [])
        if not isinstance(st, Agg):
            raise M.Unsupported("new() did not return a struct")
        return st

    def fld(self, st, name):
        return st.f[self.fields.index(name)]

    def setfld(self, st, name, v):
        st.f[self.fields.index(name)] = v

    def prev_abs(self, st):
        """`prev` as an absolute instant (ns)."""
        if self.which == "draw":
            return self.fld(st, "prev")
        return add(self.fld(st, "start"), self.fld(st, "prev"))

    def allow(self, ctx, st, t):
        oid = ctx.alloc(st)
        r = ctx.call(self.f_allow, [Ref(oid, ()), t])
        return r, ctx.heap[oid]

    def reset(self, ctx, st, t):
        oid = ctx.alloc(st)
        ctx.call(self.f_reset, [Ref(oid, ()), t])
        return ctx.heap[oid]


def concrete_allow(lim, rate, cap, prev_off, times):
    """Evaluate the *encoding* on concrete inputs (constant folding through the same executor)."""
    ctx = Ctx(lim.mir)
    base = 1_000_000_000_000
    st = lim.new_state(ctx, rate, num(base))
    lim.setfld(st, "capacity", num(cap))
    lim.setfld(st, "prev", num(base + prev_off) if lim.which == "draw" else num(prev_off))
    out = []
    for t in times:
        r, st = lim.allow(ctx, st, num(base + t))
        if r.c is None:
            raise M.Unsupported("concrete evaluation did not fold to a constant")
        capv = lim.fld(st, "capacity").c
        pv = lim.fld(st, "prev").c
        out.append((bool(r.c), capv, pv - base if lim.which == "draw" else pv))
    return out


def native_code(lim, cases, law=None):
    """Rust test module that runs the real allow() on the given cases and prints RESULT lines."""
    L = ["#[cfg(test)]", "mod verif_c05_native {", "    use super::*;", "    use std::time::{Duration, Instant};", "    #[test]", "    fn run() {",
         "        let base = Instant::now() + Duration::from_secs(1);"]
    for i, (rate, cap, prev_off, times) in enumerate(cases):
        if lim.which == "draw":
            L.append("        { let mut l = RateLimiter::new(%d); l.capacity = %d; l.prev = base + Duration::from_nanos(%d);" % (rate, cap, prev_off))
            L.append("          let ts: [u64; %d] = [%s];" % (len(times), ", ".join(map(str, times))))
            L.append("          let mut n = 0u64; for (j, t) in ts.iter().enumerate() { let a = l.allow(base + Duration::from_nanos(*t)); if a { n += 1; }")
            L.append("            println!(\"RESULT %d {} {} {} {}\", j, a, l.capacity, (l.prev - base).as_nanos()); }" % i)
        else:
            L.append("        { let mut l = AtomicPosition::new(); l.start = base; *l.capacity.get_mut() = %d; *l.prev.get_mut() = %d;" % (cap, prev_off))
            # a reset is encoded as (t | 1<<63)
            enc = [((1 << 63) | t[1]) if isinstance(t, (list, tuple)) else t for t in times]
            L.append("          let ts: [u64; %d] = [%s];" % (len(enc), ", ".join(map(str, enc))))
            L.append("          let mut n = 0u64; for (j, t) in ts.iter().enumerate() { let rs = *t >> 63 == 1; let tt = *t & !(1u64 << 63);")
            L.append("            let a = if rs { l.reset(base + Duration::from_nanos(tt)); false } else { l.allow(base + Duration::from_nanos(tt)) }; if a { n += 1; }")
            L.append("            println!(\"RESULT %d {} {} {} {}\", j, a, *l.capacity.get_mut(), *l.prev.get_mut()); }" % i)
        L.append("          println!(\"ADMITTED %d {}\", n); }" % i)
    L += ["    }", "}"]
    return "\n".join(L)


def parse_native(out):
    res = {}
    adm = {}
    for m in re.finditer(r"RESULT (\d+) (\d+) (true|false) (\d+) (\d+)", out):
        res.setdefault(int(m.group(1)), []).append((m.group(3) == "true", int(m.group(4)), int(m.group(5))))
    for m in re.finditer(r"ADMITTED (\d+) (\d+)", out):
        adm[int(m.group(1))] = int(m.group(2))
    return res, adm


# ----------------------------------------------------------------------------- queries

PENDING = []


def q(name, ctx, goal, bounds, timeout, values=None, known=None):
    """Queue the query `goal` (the NEGATED property, expected unsat); solved in parallel by flush()."""
    rec = {"name": name, "bounds": bounds, "known": known, "verdict": "PENDING", "wall_s": 0}
    PENDING.append((rec, list(ctx.decls), goal.s, values, timeout))
    return rec


def flush(jobs=12):
    from concurrent.futures import ThreadPoolExecutor
    items = list(PENDING)
    del PENDING[:]
    with ThreadPoolExecutor(max_workers=jobs) as ex:
        list(ex.map(lambda it: _solve_one(*it), items))


def _solve_one(rec, decls, goal_s, values, timeout):
    r = M.solve(decls, ["(assert %s)" % goal_s], get_values=values, timeout=timeout)
    rec.update({"solver": r["raw"], "wall_s": round(max(r["times"].values()), 2)})
    if r["verdict"] == "unsat":
        rec["verdict"] = "PASS"
    elif r["verdict"] == "sat":
        rec["verdict"] = "FAIL"
        rec["model"] = r["model"]
        rec["why"] = "solver model: " + ", ".join("%s=%s" % kv for kv in sorted(r["model"].items())[:12])
    else:
        rec["verdict"] = "INCONCLUSIVE"
        rec["why"] = "solvers: %s %s" % (r["raw"], r.get("errors"))
    return rec


def reach(name, ctx, cond, timeout):
    """Vacuity guard: `cond` must be satisfiable under the encoding's assumptions."""
    r = M.solve(ctx.decls, ["(assert %s)" % cond.s], timeout=timeout)
    return r["verdict"] == "sat"


def rate_of(lim, rate):
    return rate if lim.which == "draw" else 1000


def interval_ns(lim, rate):
    """Effective interval I (ns) of the implementation, found operationally: the smallest elapsed time at which an
    exhausted limiter admits a call (binary search on the concrete evaluation of the encoding)."""
    lo, hi = 0, 2 * NS + 1
    if not concrete_allow(lim, rate, 0, 0, [hi])[0][0]:
        raise M.Unsupported("exhausted limiter refuses a call after 2 s")
    while lo < hi:
        mid = (lo + hi) // 2
        if concrete_allow(lim, rate, 0, 0, [mid])[0][0]:
            hi = mid
        else:
            lo = mid + 1
    return lo


def sym_state(lim, ctx, rate, cap0):
    """Arbitrary state of the representation invariant: capacity <= capacity-of-new(), prev <= 2^62."""
    t0 = ctx.fresh("t_new", lo=0, hi=TMAX)
    st = lim.new_state(ctx, rate, t0)
    cap = ctx.fresh("cap", lo=0, hi=cap0)
    lim.setfld(st, "capacity", cap)
    if lim.which == "draw":
        prev = ctx.fresh("prev", lo=0, hi=TMAX)
        lim.setfld(st, "prev", prev)
    else:
        prev = ctx.fresh("prevoff", lo=0, hi=TMAX)
        lim.setfld(st, "prev", prev)
    return st, cap, prev


def inductive(lim, rate, timeout):
    out = []
    R = rate_of(lim, rate)
    B = lim.B
    ctx0 = Ctx(lim.mir)
    st0 = lim.new_state(ctx0, rate, num(10 ** 12))
    cap0 = lim.fld(st0, "capacity").c
    if cap0 is None:
        raise M.Unsupported("capacity after new() is not a constant")
    I = interval_ns(lim, rate)
    tag = "%s/R=%d" % (lim.which, rate)
    out.append({"name": "%s interval>=1/R" % tag, "verdict": "PASS" if I * R >= NS else "FAIL", "bounds": "I=%d ns, R=%d Hz" % (I, R), "wall_s": 0,
                "solver": {"arith": "python"}, "why": None if I * R >= NS else "effective interval %d ns is shorter than the period 1/R = %.1f ns: sustained rate %.2f Hz > %d Hz" % (I, NS / R, NS / I, R),
                "kind": "interval", "I": I, "rate": rate})
    out.append({"name": "%s burst-of-new<=B" % tag, "verdict": "PASS" if cap0 <= B else "FAIL", "bounds": "capacity after new() = %d" % cap0, "wall_s": 0,
                "solver": {"arith": "python"}, "why": None if cap0 <= B else "initial capacity %d exceeds burst %d" % (cap0, B), "kind": "cap0", "rate": rate})
    # one symbolic step
    ctx = Ctx(lim.mir)
    st, cap, prev = sym_state(lim, ctx, rate, cap0)
    prev_abs = lim.prev_abs(st)
    t = ctx.fresh("t", lo=0, hi=TMAX)
    if lim.which == "pos":
        ctx.assert_(cmp("<=", prev_abs, num(TMAX)))
    npan0 = len(ctx.panics)
    adm, st2 = lim.allow(ctx, st, t)
    cap2 = lim.fld(st2, "capacity")
    prev2_abs = lim.prev_abs(st2)
    phi = add(mul(num(I), cap), sub(t, prev_abs))
    phi2 = add(mul(num(I), cap2), sub(t, prev2_abs))
    ge = cmp(">=", t, prev_abs)
    same = band(beq(cap2, cap), beq(prev2_abs, prev_abs))
    bnd = "one call from any state with capacity<=%d, prev<=2^62 ns, now<=2^62 ns; I=%d ns" % (cap0, I)
    if not reach(tag, ctx, band(adm, ge), timeout) or not reach(tag, ctx, band(bnot(adm), ge), timeout):
        out.append({"name": "%s step reachability" % tag, "verdict": "VACUOUS", "why": "admitted/refused branch unreachable in the encoding", "bounds": bnd, "wall_s": 0, "solver": {}})
        return out, I, cap0
    vals = [x.s for x in (cap, prev, t) if x.c is None]
    lem = [
        ("admit-iff-credit", band(ge, bnot(beq(adm, cmp(">=", phi, num(I)))))),
        ("refuse-keeps-state", band(ge, bnot(adm), bnot(same))),
        ("capacity-after-admit<=B-1", band(ge, adm, cmp(">", cap2, num(B - 1)))),
        ("credit-decreases-by-I", band(ge, adm, cmp(">", phi2, sub(phi, num(I))))),
        ("remainder-in-[0,I)", band(ge, adm, bor(cmp("<", sub(t, prev2_abs), num(0)), cmp(">=", sub(t, prev2_abs), num(I))))),
        ("invariant-preserved", band(ge, adm, cmp(">", cap2, num(cap0)))),
    ]
    for nm, goal in lem:
        rec = q("%s lemma %s" % (tag, nm), ctx, goal, bnd, timeout, values=vals)
        rec["kind"] = "lemma:" + nm
        rec["rate"] = rate
        out.append(rec)
    if lim.f_reset is not None:
        ctx_r = Ctx(lim.mir)
        st_r, cap_r, prev_r = sym_state(lim, ctx_r, rate, cap0)
        prev_abs_r = lim.prev_abs(st_r)
        ctx_r.assert_(cmp("<=", prev_abs_r, num(TMAX)))
        t_r = ctx_r.fresh("t", lo=0, hi=TMAX)
        st_r2 = lim.reset(ctx_r, st_r, t_r)
        cap_r2 = lim.fld(st_r2, "capacity")
        prev_abs_r2 = lim.prev_abs(st_r2)
        phi_r = add(mul(num(I), cap_r), sub(t_r, prev_abs_r))
        phi_r2 = add(mul(num(I), cap_r2), sub(t_r, prev_abs_r2))
        ge_r = cmp(">=", t_r, prev_abs_r)
        goal = band(ge_r, bor(cmp(">", phi_r2, phi_r), cmp(">", cap_r2, num(cap0)), cmp(">", prev_abs_r2, t_r)))
        rec = q("%s lemma reset-adds-no-credit" % tag, ctx_r, goal, "reset(now) from any invariant state with now >= prev", timeout,
                values=[x.s for x in (cap_r, prev_r, t_r) if x.c is None])
        rec["kind"] = "lemma:reset"
        rec["rate"] = rate
        out.append(rec)
    # panic obligations
    pans = ctx.panics[npan0:]
    if pans:
        goal = band(ge, bor(*[c for _, c in pans]))
        rec = q("%s no-panic (%d obligations)" % (tag, len(pans)), ctx, goal, bnd, timeout, values=vals)
        rec["kind"] = "panic"
        rec["rate"] = rate
        rec["obligations"] = [d for d, _ in pans]
        out.append(rec)
    return out, I, cap0


def staleness(lim, rate, cap0, timeout):
    R = rate_of(lim, rate)
    tag = "%s/R=%d" % (lim.which, rate)
    ctx = Ctx(lim.mir)
    st, cap, prev = sym_state(lim, ctx, rate, cap0)
    t1 = ctx.fresh("t1", lo=0, hi=TMAX)
    t2 = ctx.fresh("t2", lo=0, hi=TMAX)
    if lim.which == "pos":
        ctx.assert_(cmp("<=", lim.prev_abs(st), num(TMAX)))
    a1, st1 = lim.allow(ctx, st, t1)
    a2, st2 = lim.allow(ctx, st1, t2)
    # (t2 - t1) * R >= 1e9  <=> gap at least one period
    gap = cmp(">=", mul(num(R), sub(t2, t1)), num(NS))
    out = []
    rec = q("%s staleness: request >= 1/R after a painted frame is painted" % tag, ctx, band(cmp(">=", t1, lim.prev_abs(st)), a1, gap, bnot(a2)),
            "2 calls from any invariant state, t2-t1 >= 1/R", timeout, values=[x.s for x in (cap, prev, t1, t2)])
    rec["kind"] = "staleness"
    rec["rate"] = rate
    rec["tsyms"] = [t1.s, t2.s]
    rec["capsym"], rec["prevsym"], rec["cap0"] = cap.s, prev.s, cap0
    out.append(rec)
    # first request after new()
    ctx = Ctx(lim.mir)
    t0 = ctx.fresh("t0", lo=0, hi=TMAX)
    st = lim.new_state(ctx, rate, t0)
    t = ctx.fresh("t", lo=0, hi=TMAX)
    a, _ = lim.allow(ctx, st, t)
    rec = q("%s first request after new() is painted" % tag, ctx, band(cmp(">=", t, t0), bnot(a)), "1 call after new()", timeout, values=[t0.s, t.s])
    rec["kind"] = "first"
    rec["rate"] = rate
    out.append(rec)
    return out


def unroll(lim, rate, cap0, k, timeout, from_new=False):
    """k admitted calls in a window shorter than the law allows?  (k - (B+1)) * 1e9 > R * (t_k - t_1)"""
    R = rate_of(lim, rate)
    B = lim.B
    tag = "%s/R=%d" % (lim.which, rate)
    ctx = Ctx(lim.mir)
    if from_new:
        t0 = ctx.fresh("t_new", lo=0, hi=TMAX)
        st = lim.new_state(ctx, rate, t0)
        cap = lim.fld(st, "capacity")
        prev = t0
    else:
        st, cap, prev = sym_state(lim, ctx, rate, cap0)
        if lim.which == "pos":
            ctx.assert_(cmp("<=", lim.prev_abs(st), num(TMAX)))
    prev_abs0 = lim.prev_abs(st)
    ts = []
    adms = []
    for i in range(k):
        if i == 0:
            t = ctx.fresh("t1", lo=0, hi=TMAX)
        else:
            gap = ctx.fresh("gap%d" % (i + 1), lo=0, hi=1 << 40)
            t = ctx.define("t%d" % (i + 1), add(ts[-1], gap))
        ts.append(t)
        a, st = lim.allow(ctx, st, t)
        adms.append(a)
    T_ = sub(ts[-1], ts[0])
    goal = band(*(adms + [cmp(">=", ts[0], prev_abs0), cmp(">", num((k - (B + 1)) * NS), mul(num(R), T_))]))
    vals = [x.s for x in [cap, prev] + ts if x.c is None]
    rec = q("%s window law, %d calls%s" % (tag, k, " from new()" if from_new else ""), ctx, goal,
            "%d calls at non-decreasing instants (gaps 0..2^40 ns) from %s" % (k, "new()" if from_new else "any invariant state"), timeout, values=vals)
    rec["kind"] = "unroll"
    rec["rate"] = rate
    rec["k"] = k
    rec["tsyms"] = [x.s for x in ts]
    rec["capsym"], rec["prevsym"] = (cap.s if cap.c is None else None), (prev.s if prev.c is None else None)
    rec["cap0"] = cap0
    rec["from_new"] = from_new
    return rec


# ----------------------------------------------------------------------------- replay of counter-examples

def trace_from_model(lim, rec):
    m = rec["model"]
    ts = [m[s] for s in rec["tsyms"]]
    base = min(ts + ([m[rec["prevsym"]]] if rec.get("prevsym") and lim.which == "draw" else []))
    cap = m.get(rec["capsym"], rec["cap0"]) if rec.get("capsym") else rec["cap0"]
    if lim.which == "draw":
        prev_off = (m[rec["prevsym"]] - base) if rec.get("prevsym") else 0
    else:
        prev_off = m.get(rec["prevsym"], 0) if rec.get("prevsym") else 0
        base = m.get("t_new_1", base)
    return {"limiter": lim.which, "rate": rec["rate"], "capacity": cap, "prev_off": prev_off, "times": [t - base for t in ts]}


def sustained_trace(lim, rate, I, cap0):
    """Concrete schedule for an interval shorter than the period: spend the burst, then one request every I ns."""
    R = rate_of(lim, rate)
    # need n > B + 1 + R*T/1e9 with n = cap0 + j, T = j*I  =>  j*(1 - R*I/1e9) > B + 1 - cap0
    slack = 1 - R * I / NS
    j = int((lim.B + 2 - cap0) / slack) + 3
    j = min(j, 200000)
    times = [0] * cap0 + [I * (i + 1) for i in range(j)]
    return {"limiter": lim.which, "rate": rate, "capacity": cap0, "prev_off": 0, "times": times}


def replay_trace(root, lim, tr):
    """Run the real allow() natively on the trace and evaluate the window law on the admitted calls."""
    code = native_code(lim, [(tr["rate"], tr["capacity"], tr["prev_off"], tr["times"])])
    rc, out = native_test(root, lim.srcfile, code, "verif_c05_native::run")
    res, adm = parse_native(out)
    if 0 not in res:
        return None, "native test did not run: " + out[-600:]
    flags = [a for a, _, _ in res[0]]
    R = rate_of(lim, tr["rate"])
    adm_times = [t for t, a in zip(tr["times"], flags) if a and not isinstance(t, (list, tuple))]
    # window law on every pair (first, last) of admitted calls
    worst = None
    for i in range(len(adm_times)):
        for j in (len(adm_times) - 1,):
            n = j - i + 1
            T_ = adm_times[j] - adm_times[i]
            if (n - (lim.B + 1)) * NS > R * T_:
                worst = (n, T_)
                break
        if worst:
            break
    if worst is None:
        # staleness law: a request at least one period after the last painted frame must be painted
        last = None
        for t, a in zip(tr["times"], flags):
            if isinstance(t, (list, tuple)):
                continue
            if a:
                last = t
            elif last is not None and (t - last) * R >= NS:
                worst = (-1, t - last)
                break
    return worst, "admitted %d of %d calls" % (len(adm_times), len(flags))


def write_replay(prop, name, tr, note):
    import json
    d = os.path.join(OUT_DIR, "replays", prop)
    os.makedirs(d, exist_ok=True)
    p = os.path.join(d, re.sub(r"\W+", "_", name) + ".json")
    with open(p, "w") as f:
        json.dump({"property": prop, "query": name, "trace": tr, "note": note,
                   "how": "bin/check C05 --replay <this file>: runs the real allow() natively on the trace (times in ns relative to a base instant) and evaluates the window law"}, f, indent=1)
    return p


def replay(path):
    import json
    d = json.load(open(path))
    root = common.scratch_root()
    mir, _ = dump_mir(root)
    lim = Limiter(mir, d["trace"]["limiter"])
    worst, info = replay_trace(root, lim, d["trace"])
    say(info)
    if worst:
        say("law violated natively: %s" % ("request %d ns after the last painted frame refused" % worst[1] if worst[0] < 0 else "%d frames within %d ns" % worst))
        return 1
    say("window law holds on this trace")
    return 0


# ----------------------------------------------------------------------------- self validation

def self_validate(root, lims, seed):
    """Push concrete inputs (including the repository's own test vectors) through both the encoding and the real code."""
    rnd = random.Random(1000 + seed)
    n_cases = 0
    disagreements = []
    for lim in lims:
        cases = []
        if lim.which == "pos":
            cases.append((0, 10, 0, [1_000_000 * 255]))            # test_atomic_position_large_time_difference
            cases.append((0, 10, 20_000_000, [20_000_000, 20_500_000, 21_000_000]))  # state after test_atomic_position_reset
        for _ in range(12):
            rate = rnd.choice([1, 2, 3, 7, 20, 30, 60, 100, 144, 254, 255]) if lim.which == "draw" else 0
            cap = rnd.randint(0, lim.B)
            iv = 1_000_000_000 // max(rate, 1) if lim.which == "draw" else 1_000_000
            prev_off = rnd.choice([0, 1, iv - 1, iv, 3 * iv + 7, rnd.randint(0, 10 * iv)])
            t = prev_off
            times = []
            for _ in range(rnd.randint(2, 9)):
                t += rnd.choice([0, 0, 1, iv - 1, iv, iv + 1, 2 * iv, rnd.randint(0, 3 * iv), 10 ** 9 * 3600])
                times.append(t)
            cases.append((rate if lim.which == "draw" else 0, cap, prev_off, times))
        enc = [concrete_allow(lim, c[0], c[1], c[2], c[3]) for c in cases]
        rc, out = native_test(root, lim.srcfile, native_code(lim, cases), "verif_c05_native::run")
        res, _ = parse_native(out)
        for i, c in enumerate(cases):
            n_cases += 1
            if res.get(i) != enc[i]:
                disagreements.append({"limiter": lim.which, "case": c, "encoding": enc[i], "native": res.get(i)})
    return n_cases, disagreements


# ----------------------------------------------------------------------------- entry point

def pick_rates(tier, seed):
    core = [1, 2, 3, 7, 15, 20, 30, 60, 100, 144, 200, 254, 255]
    if tier == "thorough":
        return list(range(1, 256))
    rnd = random.Random(seed)
    extra = rnd.sample([r for r in range(1, 256) if r not in core], 6)
    return sorted(core + extra)


def run(tier, logdir):
    t_start = time.time()
    seed = common.seed()
    root = common.scratch_root()
    queries = []
    assumptions = [
        "Instant = integer ns since an arbitrary origin, Duration = integer ns; instants and `prev` within 2^62 ns; gaps between unrolled calls <= 2^40 ns",
        "std models (trusted): Instant PartialOrd/Sub (saturating), Duration::{from_millis,from_nanos,as_millis,as_nanos}, Instant::checked_sub, Option::unwrap, Ord::min, u64::saturating_sub, AtomicU8/U64 load/store as sequential cells",
        "sequential callers only: concurrent callers racing on the two atomics of AtomicPosition are outside the claim",
        "checked arithmetic (overflow-checks=on): every *WithOverflow result is used only behind its assert(!overflow) (checked structurally)",
        "window-law theorem from the per-step lemmas is a pen-and-paper telescoping argument (DESIGN.md 4/C05); the direct unrolling does not depend on it",
    ]
    try:
        mir, dt = dump_mir(root)
    except Exception as e:  # noqa
        return {"queries": [{"name": "MIR dump", "verdict": "BROKEN", "why": str(e)[:500], "wall_s": 0}], "assumptions": assumptions, "encodes": [], "bounds": []}
    say("  MIR dump of the current tree: %.1fs, %d functions" % (dt, len(mir.fns)))
    tmo = 60 if tier == "quick" else 600
    try:
        lims = [Limiter(mir, "draw"), Limiter(mir, "pos")]
        ncases, dis = self_validate(root, lims, seed)
        queries.append({"name": "translator self-validation: encoding vs native allow() on %d concrete traces (incl. the repo's test vectors)" % ncases,
                        "verdict": "PASS" if not dis else "BROKEN", "why": None if not dis else "encoding disagrees with the real code: %r" % dis[:2],
                        "wall_s": 0, "bounds": "%d traces" % ncases, "solver": {"eval": "constant folding"}})
        if dis:
            return {"queries": queries, "assumptions": assumptions, "encodes": [], "bounds": []}
        enc = set()
        for lim in lims:
            rates = pick_rates(tier, seed) if lim.which == "draw" else [0]
            for rate in rates:
                recs, I, cap0 = inductive(lim, rate, tmo)
                queries += recs
                queries += staleness(lim, rate, cap0, tmo)
                core = (0, 1, 2, 3, 7, 15, 20, 30, 60, 100, 144, 200, 254, 255)
                # thorough: every rate 1..=255 gets the B+2 unrolling, the core rates also B+3 and B+4 (765 deep unrollings took > 100 min)
                ks = [lim.B + 2] if (tier == "quick" or rate not in core) else [lim.B + 2, lim.B + 3, lim.B + 4]
                if tier == "quick" and rate not in (0, 20, 255, 1):
                    ks = []
                for k in ks:
                    queries.append(unroll(lim, rate, cap0, k, tmo if tier == "quick" else 1200))
                if rate in (0, 20):
                    queries.append(unroll(lim, rate, cap0, lim.B + 2, tmo, from_new=True))
            ctx = Ctx(mir)
            enc.update([lim.f_allow.header.split("(")[0][3:], lim.f_new.header.split("(")[0][3:]])
        flush()
        # a failed burst lemma needs a concrete window: take it from the direct unrolling of the same limiter
        for lim in lims:
            burst_fail = [r for r in queries if r.get("verdict") == "FAIL" and r["name"].startswith(lim.which) and r.get("kind", "").startswith(("lemma:", "cap0")) and r.get("kind") != "lemma:reset"]
            have = [r for r in queries if r.get("verdict") == "FAIL" and r["name"].startswith(lim.which) and r.get("kind") == "unroll"]
            if burst_fail and not have:
                r0 = burst_fail[0]
                for k in (lim.B + 2, lim.B + 3):
                    queries.append(unroll(lim, r0["rate"], r0.get("cap0", lim.B), k, 300))
                flush()
        queries.sort(key=lambda r: 0 if r.get("kind") == "unroll" else 1)
        # ---- counter-example replay (one native run per limiter and failure class; the rest share its artefact)
        done = {}
        for rec in queries:
            if rec.get("verdict") != "FAIL":
                continue
            lim = lims[0] if rec["name"].startswith("draw") else lims[1]
            kind = rec.get("kind", "")
            rec["known"] = None
            cls = "interval" if kind == "interval" else ("reset" if kind == "lemma:reset" else ("stale" if kind in ("staleness", "first") else "burst"))
            key = (lim.which, cls)
            if key in done:
                rec["replayed"], rec["replay_path"] = done[key]
                rec["why"] = (rec.get("why") or "") + " | same failure class as the replayed trace %s" % rec["replay_path"]
                continue
            tr = None
            if kind == "lemma:reset":
                t0 = 10 ** 9
                tr = {"limiter": lim.which, "rate": rec["rate"], "capacity": lim.B, "prev_off": 0,
                      "times": [t0] * (lim.B + 1) + [["R", t0]] + [t0] * (lim.B + 1)}
            elif kind == "staleness" and rec.get("model"):
                tr = trace_from_model(lim, rec)
            elif kind == "unroll":
                tr = trace_from_model(lim, rec)
            elif kind == "interval":
                tr = sustained_trace(lim, rec["rate"], rec["I"], lim.B)
            if tr is None:
                rec["replayed"] = False
                continue
            worst, info = replay_trace(root, lim, tr)
            if worst:
                rec["replayed"] = True
                rec["replay_path"] = write_replay("C05", rec["name"], tr, "native: %s; %d frames within %d ns" % (info, worst[0], worst[1]))
                if worst[0] < 0:
                    rec["why"] = (rec.get("why") or "") + " | native replay: a request %d ns after the last painted frame was refused (period %.0f ns)" % (worst[1], NS / rate_of(lim, rec["rate"]))
                else:
                    rec["why"] = (rec.get("why") or "") + " | native replay: %d frames in %d ns (law allows %.2f)" % (
                        worst[0], worst[1], lim.B + 1 + rate_of(lim, rec["rate"]) * worst[1] / NS)
                done[key] = (True, rec["replay_path"])
            else:
                rec["replayed"] = False
                rec["why"] = (rec.get("why") or "") + " | native replay of the derived trace did not violate the window law (%s)" % info
    except (M.Unsupported, M.Nonlinear) as e:
        queries.append({"name": "encoding", "verdict": "BROKEN", "why": "%s: %s" % (type(e).__name__, e), "wall_s": 0})
        enc = set()
    return {"queries": queries, "assumptions": assumptions, "encodes": sorted(enc),
            "bounds": ["engine M: rates %s; unrolling k=B+2%s; instants < 2^62 ns" % ("1..=255" if tier == "thorough" else "core set + 6 seed-picked", " (B+3, B+4 for the 13 core rates)" if tier == "thorough" else "")]}
