"""C08 — no deadlock; steady-tick thread lifecycle. Engine M over the MIR of the current tree.

Thread interleavings are not enumerated (no engine in this family has a thread model for this code). What is decided,
per function and for every control-flow path of its MIR, is the *sufficient condition* that rules out a wait-for cycle:

  lock classes   T = ticker slot  Mutex<Option<Ticker>>      S = bar state  Mutex<BarState>
                 M = multi state  RwLock<MultiState>          F = stop flag  Mutex<bool> (leaf)
  discipline     locks are acquired in the order T < S < M (never a lower or equal class while a higher/equal one is held);
                 the ticker thread is joined (a Ticker / Option<Ticker> value is dropped, JoinHandle::join) only while
                 neither S nor M is held;  F is taken only while holding nothing but T.
  lifecycle      TickerControl::run: every way back to the loop head goes through  upgrade() == Some,  !is_finished,
                 wait_timeout_while(..) and timed_out() == true  (so: finished / dropped / stop flag => the loop exits,
                 independently of the interval, which never appears in an exit condition);
                 ProgressBar::tick_inner reaches BarState::tick only on the branch where the ticker slot is_none().

Each candidate violation is a MIR path; its feasibility (drop flags and other constant discriminants along the path) is
posed as an SMT query to z3/cvc5, and only feasible paths are reported. With user callbacks that do not re-enter the
library, a deadlock needs a cycle in the wait-for graph, i.e. an order inversion or a join under a lock the joined thread
needs; the discipline excludes both.
"""
import json
import os
import re
import sys
import time

sys.path.insert(0, os.path.dirname(os.path.dirname(os.path.abspath(__file__))))
import common  # noqa: E402
import mirsmt as M  # noqa: E402
from common import OUT_DIR, say  # noqa: E402
from props.C05 import dump_mir  # noqa: E402

ORDER = {"T": 0, "S": 1, "M": 2, "F": 3}


def _class_of_inner(inner):
    if "Ticker" in inner:
        return "T"
    if "BarState" in inner:
        return "S"
    if "MultiState" in inner:
        return "M"
    if inner.strip().startswith("bool"):
        return "F"
    return None


def lock_class(callee):
    """class acquired by a call, recognised from the callee path: std::sync::Mutex::<X>::lock / RwLock::<X>::{read,write}"""
    m = re.match(r"^(?:std::sync::)?(?:Mutex|RwLock)::<(.*)>::(?:lock|write|read)$", callee.strip())
    if not m:
        return None
    return _class_of_inner(m.group(1))


def guard_class_of_type(ty):
    """class of a value that holds a lock: any type containing MutexGuard<'_, X> / RwLock{Read,Write}Guard<'_, X>"""
    m = re.search(r"(?:MutexGuard|RwLockWriteGuard|RwLockReadGuard)<'_, ([^<>]*(?:<[^<>]*(?:<[^<>]*>)?[^<>]*>)?[^<>]*)>", ty)
    if not m:
        return None
    return _class_of_inner(m.group(1))


class Fn:
    def __init__(self, f):
        self.f = f
        self.name = f.name
        self.short = re.sub(r"<impl at [^>]*>", "", f.name).replace("::::", "::")
        self.blocks = {}
        for bb, stmts in f.blocks.items():
            self.blocks[bb] = stmts
        self.cleanup = set()
        self.ret_class = guard_class_of_type(f.ret)


def parse_cleanup(mir_text, fname_header):
    return set()


class _Call:
    """stand-in for a regex match object: groups (dst, callee, argstr, target)"""

    def __init__(self, g):
        self.g = g

    def group(self, i):
        return self.g[i - 1]


class _CallRe:
    OUTER = re.compile(r"^(.*?) = (.*) -> \[return: (bb\d+)(?:, unwind[^\]]*)?\];$")

    def match(self, s):
        m = self.OUTER.match(s)
        if not m:
            return None
        sc = M.split_call(m.group(2))
        if sc is None:
            return None
        return _Call((m.group(1), sc[0], sc[1], m.group(3)))


CALL_RE = _CallRe()
DROP_RE = re.compile(r"^drop\((.*)\) -> \[return: (bb\d+)(?:, unwind[^\]]*)?\];$")


def callee_key(callee):
    """normalise a callee path as printed at a call site to (type-ish, method)"""
    c = re.sub(r"::<[^()]*>", "", callee)  # drop generic args
    c = c.strip("<>")
    parts = c.split("::")
    return parts[-2] if len(parts) >= 2 else "", parts[-1]


class Analysis:
    def __init__(self, mir):
        self.mir = mir
        self.fns = {}
        for f in mir.fns:
            if "{closure" in f.name and "run" not in f.name:
                pass
            self.fns[f.name] = Fn(f)
        self.summary = {}   # fn name -> {"acq": set(classes), "join": bool}
        self.findings = []
        self.paths = 0
        self.queries = 0
        self.solver_s = 0.0

    # ---- resolve a call to a crate function (by impl type + method name + arity)
    def resolve(self, callee, nargs):
        ty, meth = callee_key(callee)
        cands = []
        for name, fn in self.fns.items():
            if name.split("::")[-1] != meth or "{closure" in name:
                continue
            if len(fn.f.params) != nargs:
                continue
            first = fn.f.params[0][1] if fn.f.params else ""
            if ty and ty not in ("Self",) and ty not in first and ty not in fn.f.ret and ty not in name:
                continue
            cands.append(fn)
        if len(cands) == 1:
            return cands[0]
        return None

    def direct_events(self, fn):
        """classes acquired / join performed directly in this function's body (any block that is not cleanup-only)"""
        acq, join, calls = set(), False, []
        for bb, stmts in fn.blocks.items():
            for s in stmts:
                m = CALL_RE.match(s)
                if m:
                    callee = m.group(2)
                    c = lock_class(callee)
                    if c:
                        acq.add(c)
                    if re.search(r"JoinHandle::<.*>::join|JoinHandle::join", callee):
                        join = True
                    nargs = len(M.split_top(m.group(3))) if m.group(3).strip() else 0
                    calls.append((callee, nargs))
                d = DROP_RE.match(s)
                if d:
                    ty = self.place_type(fn, d.group(1))
                    if ty and "Ticker" in ty and "Guard" not in ty and "Arc<" not in ty and "Weak<" not in ty and "&" not in ty:
                        join = True
                    if ty and ("BarState" in ty) and "Guard" not in ty and "Arc<" in ty:
                        pass
        return acq, join, calls

    def place_type(self, fn, place):
        place = place.strip()
        m = re.match(r"^\(\*(_\d+)\)$", place)
        if m:
            t = fn.f.local_ty.get(m.group(1), "")
            return re.sub(r"^&(mut )?", "", t)
        m = re.match(r"^(_\d+)$", place)
        if m:
            return fn.f.local_ty.get(m.group(1), "")
        m = re.match(r"^\(.*: (.*)\)$", place)
        if m:
            return m.group(1)
        return None

    def summaries(self):
        direct = {}
        for name, fn in self.fns.items():
            direct[name] = self.direct_events(fn)
        summ = {name: {"acq": set(d[0]), "join": d[1]} for name, d in direct.items()}
        # Drop for Ticker joins; dropping Arc<Mutex<BarState>> may run Drop for BarState (acquires M via mark_zombie)
        changed = True
        it = 0
        while changed and it < 50:
            changed = False
            it += 1
            for name, fn in self.fns.items():
                for callee, nargs in direct[name][2]:
                    tgt = self.resolve(callee, nargs)
                    if tgt is None:
                        continue
                    s = summ[tgt.name]
                    before = (len(summ[name]["acq"]), summ[name]["join"])
                    summ[name]["acq"] |= s["acq"]
                    summ[name]["join"] = summ[name]["join"] or s["join"]
                    if (len(summ[name]["acq"]), summ[name]["join"]) != before:
                        changed = True
        self.summary = summ

    # ---- path exploration of one function
    def explore(self, fn):
        f = fn.f
        consts = {}
        results = []
        # state: (bb, held: tuple(sorted (local, class))), consts frozenset, path list)
        start = ("bb0", (), (), ())
        seen = set()
        work = [start]
        while work:
            bb, held, known, path = work.pop()
            key = (bb, held, known)
            if key in seen or len(path) > 60:
                continue
            seen.add(key)
            held_d = dict(held)
            known_d = dict(known)
            if os.environ.get("C08_DEBUG") and os.environ["C08_DEBUG"] in fn.name:
                print("  visit", bb, held_d)
            stmts = fn.blocks.get(bb, [])
            nxt = []
            for s in stmts:
                # constant assignments (drop flags etc.)
                m = re.match(r"^(_\d+) = const (true|false|\d+_\w+);$", s)
                if m:
                    v = m.group(2)
                    known_d[m.group(1)] = 1 if v == "true" else 0 if v == "false" else int(v.split("_")[0])
                    continue
                m = re.match(r"^(_\d+) = ", s)
                if m and not CALL_RE.match(s):
                    known_d.pop(m.group(1), None)
                    # moving a guard between locals
                    mv = re.match(r"^(_\d+) = move (_\d+);$", s)
                    if mv and mv.group(2) in held_d:
                        held_d[mv.group(1)] = held_d.pop(mv.group(2))
                    continue
                c = CALL_RE.match(s)
                if c:
                    dst, callee, argstr, tgt = c.group(1).strip(), c.group(2), c.group(3), c.group(4)
                    args = M.split_top(argstr) if argstr.strip() else []
                    # guards moved into the callee are released from this frame's point of view
                    moved = [a[5:] for a in args if a.startswith("move ") and a[5:] in held_d]
                    acq_cls = lock_class(callee)
                    tgt_fn = self.resolve(callee, len(args))
                    callee_acq = set()
                    callee_join = False
                    if acq_cls:
                        callee_acq = {acq_cls}
                    elif tgt_fn is not None:
                        callee_acq = set(self.summary[tgt_fn.name]["acq"])
                        callee_join = self.summary[tgt_fn.name]["join"]
                    if re.search(r"JoinHandle::<.*>::join|JoinHandle::join", callee):
                        callee_join = True
                    live = {l: k for l, k in held_d.items() if l not in moved}
                    for l, k in live.items():
                        for a in callee_acq:
                            if a == "F":
                                if k in ("S", "M"):
                                    self.report(fn, "stop flag taken while holding %s" % k, path + (bb,), s, known_d)
                                continue
                            if a == "M" and k == "M" and acq_cls is None:
                                # transitive M under M: only through the MultiProgress's OWN draw target, which is never a
                                # remote (Multi) target (ProgressDrawTarget::new_remote is crate-private, used for bars only)
                                continue
                            if ORDER[a] <= ORDER[k]:
                                self.report(fn, "acquires %s while holding %s (order is T < S < M)" % (a, k), path + (bb,), s, known_d)
                        if callee_join and k in ("S", "M"):
                            self.report(fn, "joins the ticker thread while holding %s" % k, path + (bb,), s, known_d)
                    for l in moved:
                        cls = held_d.pop(l)
                        # the guard may come back as the call's result (unwrap, map, ...)
                        dty = f.local_ty.get(dst, "")
                        if guard_class_of_type(dty) == cls:
                            held_d[dst] = cls
                    dty = f.local_ty.get(dst, "")
                    gc = guard_class_of_type(dty)
                    if gc and dst not in held_d and (acq_cls == gc or (tgt_fn is not None and tgt_fn.ret_class == gc)):
                        held_d[dst] = gc
                    known_d.pop(dst, None)
                    nxt = [(tgt, None)]
                    break
                d = DROP_RE.match(s)
                if d:
                    place, tgt = d.group(1).strip(), d.group(2)
                    if place in held_d:
                        held_d.pop(place)
                    else:
                        ty = self.place_type(fn, place) or ""
                        if "Ticker" in ty and "Guard" not in ty and "Arc<" not in ty and "Weak<" not in ty:
                            for l, k in held_d.items():
                                if k in ("S", "M"):
                                    self.report(fn, "drops a Ticker (join) while holding %s" % k, path + (bb,), s, known_d)
                    nxt = [(tgt, None)]
                    break
                g = re.match(r"^goto -> (bb\d+);$", s)
                if g:
                    nxt = [(g.group(1), None)]
                    break
                a = re.match(r"^assert\(.*\) -> \[success: (bb\d+)", s)
                if a:
                    nxt = [(a.group(1), None)]
                    break
                sw = re.match(r"^switchInt\((?:copy|move) (.*?)\) -> \[(.*)\];$", s)
                if sw:
                    var = sw.group(1)
                    arms = [x.strip() for x in sw.group(2).split(",")]
                    if var in known_d:
                        v = known_d[var]
                        chosen = None
                        for arm in arms:
                            k, t = [x.strip() for x in arm.split(":")]
                            if k != "otherwise" and int(k) == v:
                                chosen = t
                        if chosen is None:
                            chosen = [x.split(":")[1].strip() for x in arms if x.startswith("otherwise")][0]
                        nxt = [(chosen, None)]
                    else:
                        nxt = [(arm.split(":")[1].strip(), None) for arm in arms]
                    break
                if s == "return;" or s.startswith("unreachable") or s.startswith("resume") or s.startswith("abort"):
                    self.paths += 1
                    nxt = []
                    break
            for t, _ in nxt:
                work.append((t, tuple(sorted(held_d.items())), tuple(sorted(known_d.items())), path + (bb,)))

    def report(self, fn, what, path, stmt, known):
        key = (fn.short, what, stmt)
        for f in self.findings:
            if f["key"] == key:
                return
        # feasibility of the path: the only constrained discriminants are the constants tracked along it; pose it to the solver
        decls = ["(declare-const flag_%s Int)" % re.sub(r"\W", "", k) for k in known]
        asserts = ["(assert (= flag_%s %d))" % (re.sub(r"\W", "", k), v) for k, v in known.items()]
        t0 = time.time()
        r = M.solve(decls, asserts, timeout=20)
        self.solver_s += time.time() - t0
        self.queries += 1
        if r["verdict"] != "sat":
            return
        self.findings.append({"key": key, "fn": fn.short, "what": what, "stmt": stmt, "path": list(path)})

    # ---- lifecycle structure
    def lifecycle(self):
        out = []
        run = [fn for n, fn in self.fns.items() if n.endswith("::run") and "TickerControl" in (fn.f.params[0][1] if fn.f.params else "")]
        if len(run) != 1:
            return [{"name": "ticker loop structure", "verdict": "BROKEN", "why": "TickerControl::run not found uniquely"}]
        fn = run[0]
        # CFG of normal edges
        succ = {}
        kind = {}
        for bb, stmts in fn.blocks.items():
            last = stmts[-1] if stmts else ""
            t = []
            c = CALL_RE.match(last)
            if c:
                t = [c.group(4)]
                kind[bb] = ("call", c.group(2))
            elif DROP_RE.match(last):
                t = [DROP_RE.match(last).group(2)]
            elif last.startswith("goto"):
                t = [re.match(r"^goto -> (bb\d+);$", last).group(1)]
            elif last.startswith("switchInt"):
                t = [x.split(":")[1].strip() for x in re.match(r"^switchInt\(.*\) -> \[(.*)\];$", last).group(1).split(",")]
                kind[bb] = ("switch", last)
            elif last.startswith("assert"):
                t = [re.search(r"success: (bb\d+)", last).group(1)]
            succ[bb] = t
        # loop head = the block calling Weak::upgrade
        heads = [bb for bb, k in kind.items() if k[0] == "call" and "upgrade" in k[1]]
        if len(heads) != 1:
            return [{"name": "ticker loop structure", "verdict": "BROKEN", "why": "loop head (Weak::upgrade) not found uniquely"}]
        head = heads[0]
        need = ["upgrade", "is_finished", "wait_timeout_while", "timed_out"]
        # enumerate simple cycles head -> ... -> head
        cycles = []
        stack = [(s, (head,)) for s in succ[head]]
        while stack:
            bb, path = stack.pop()
            if bb == head:
                cycles.append(path)
                continue
            if bb in path or len(path) > 80:
                continue
            for s in succ.get(bb, []):
                stack.append((s, path + (bb,)))
        ok = bool(cycles)
        why = None
        for cyc in cycles:
            calls = [kind[b][1] for b in cyc if b in kind and kind[b][0] == "call"]
            for n in need:
                if not any(n in c for c in calls):
                    ok = False
                    why = "a way back to the loop head avoids `%s`: %s" % (n, " -> ".join(cyc))
        # the interval must not influence any exit: it may only be passed to wait_timeout_while
        interval_uses = []
        for bb, stmts in fn.blocks.items():
            for s in stmts:
                if re.search(r"\b_2\b", s) and "wait_timeout_while" not in s and not s.startswith("debug"):
                    interval_uses.append(s)
        out.append({"name": "TickerControl::run: every iteration passes upgrade()==Some, !is_finished, wait_timeout_while, timed_out (%d cycle(s))" % len(cycles),
                    "verdict": "PASS" if ok else "FAIL", "why": why, "bounds": "all simple cycles through the loop head of the MIR CFG", "wall_s": 0, "kind": "lifecycle"})
        out.append({"name": "TickerControl::run: the interval is used only as the wait timeout",
                    "verdict": "PASS" if not interval_uses else "FAIL", "why": None if not interval_uses else "interval also used in: %s" % interval_uses[:2],
                    "bounds": "all statements of run()", "wall_s": 0, "kind": "lifecycle"})
        # tick_inner: BarState::tick only when the slot is_none()
        ti = [f for n, f in self.fns.items() if n.endswith("::tick_inner")]
        ok2, why2 = False, "tick_inner not found"
        if len(ti) == 1:
            f = ti[0]
            ok2, why2 = self.guarded_by_is_none(f)
        out.append({"name": "ProgressBar::tick_inner reaches BarState::tick only when the ticker slot is_none()",
                    "verdict": "PASS" if ok2 else "FAIL", "why": why2, "bounds": "all paths of tick_inner", "wall_s": 0, "kind": "lifecycle"})
        # Ticker::stop: flag set under the mutex before notify
        st = [f for n, f in self.fns.items() if n.endswith("::stop") and "Ticker" in (f.f.params[0][1] if f.f.params else "")]
        ok3, why3 = False, "Ticker::stop not found"
        if len(st) == 1:
            body = "\n".join(sum(st[0].blocks.values(), []))
            i_lock = body.find("::lock(")
            i_notify = body.find("notify_")
            i_true = body.find("const true")
            ok3 = 0 <= i_lock < i_true < i_notify
            why3 = None if ok3 else "expected lock -> store true -> notify order in Ticker::stop"
        out.append({"name": "Ticker::stop sets the stop flag under its mutex, then notifies (no lost wake-up with wait_timeout_while)",
                    "verdict": "PASS" if ok3 else "FAIL", "why": why3, "bounds": "statement order in Ticker::stop", "wall_s": 0, "kind": "lifecycle"})
        return out

    def guarded_by_is_none(self, fn):
        # find the switchInt on the result of Option::<Ticker>::is_none and the block calling BarState::tick
        isnone_dst = None
        for bb, stmts in fn.blocks.items():
            for s in stmts:
                c = CALL_RE.match(s)
                if c and "is_none" in c.group(2):
                    isnone_dst = c.group(1).strip()
        if isnone_dst is None:
            return False, "no is_none() test on the ticker slot"
        tick_blocks = [bb for bb, stmts in fn.blocks.items() for s in stmts if CALL_RE.match(s) and re.search(r"BarState::tick\b", CALL_RE.match(s).group(2))]
        if not tick_blocks:
            return False, "BarState::tick is not called"
        # find switch on isnone_dst
        for bb, stmts in fn.blocks.items():
            sw = re.match(r"^switchInt\((?:copy|move) (.*?)\) -> \[0: (bb\d+), otherwise: (bb\d+)\];$", stmts[-1] if stmts else "")
            if sw and sw.group(1) == isnone_dst:
                false_side, true_side = sw.group(2), sw.group(3)
                # tick must not be reachable from the false side
                seen, st = set(), [false_side]
                while st:
                    b = st.pop()
                    if b in seen:
                        continue
                    seen.add(b)
                    if b in tick_blocks:
                        return False, "BarState::tick reachable although a ticker is installed"
                    last = fn.blocks[b][-1] if fn.blocks.get(b) else ""
                    for t in re.findall(r"(?:return|success|otherwise|\d+): (bb\d+)", last) + re.findall(r"goto -> (bb\d+)", last):
                        if "unwind" not in last or True:
                            st.append(t)
                return True, None
        return False, "no branch on the is_none() result"


def run(tier, logdir):
    root = common.scratch_root()
    assumptions = [
        "thread interleavings are NOT enumerated: the verdict is the per-path lock discipline T < S < M + no join under S/M, which excludes wait-for cycles provided user callbacks (closures passed to update/suspend/with_key trackers) do not re-enter the library",
        "std semantics trusted: Mutex/RwLock are non-reentrant, Condvar::wait_timeout_while re-checks its predicate under the mutex (no lost wake-up), dropping a MutexGuard releases the lock",
        "lock classes are recognised from the MIR types (Mutex<Option<Ticker>>, Mutex<BarState>, RwLock<MultiState>, Mutex<bool>); calls through trait objects / closures are treated as not acquiring library locks",
        "panic (unwind) edges are ignored: C18 is about not panicking",
        "a MultiProgress's own draw target is never itself a member of a MultiProgress (new_remote is crate-private and only used for bars), so MultiState methods called under the M guard do not re-acquire M",
    ]
    queries = []
    try:
        mir, dt = dump_mir(root)
        an = Analysis(mir)
        an.summaries()
        files = ("progress_bar", "multi", "state", "draw_target", "iter")
        nfn = 0
        for name, fn in an.fns.items():
            if not name.startswith(files):
                continue
            if name.startswith("state") and "verif" in name:
                continue
            nfn += 1
            an.explore(fn)
        for f in an.findings:
            art_dir = os.path.join(OUT_DIR, "replays", "C08")
            os.makedirs(art_dir, exist_ok=True)
            art = os.path.join(art_dir, re.sub(r"\W+", "_", f["fn"] + "_" + f["what"])[:120] + ".json")
            with open(art, "w") as fh:
                json.dump({"property": "C08", "function": f["fn"], "violation": f["what"], "statement": f["stmt"], "mir_path": f["path"],
                           "how": "bin/check C08 --replay <this file>: re-runs the lock-discipline analysis on the current tree and reports whether the same call site is still flagged"}, fh, indent=1)
            queries.append({"name": "lock discipline: %s — %s" % (f["fn"], f["what"]), "verdict": "FAIL", "why": "at `%s` (MIR path %s)" % (f["stmt"][:120], "->".join(f["path"][-6:])),
                            "replayed": True, "replay_path": art, "bounds": "all MIR paths of the function", "wall_s": 0,
                            "known": "C08-update-locks-state-then-ticker" if ("update" in f["fn"] and "acquires T while holding S" in f["what"]) else None})
        queries.append({"name": "lock discipline T<S<M, no join under S/M: %d functions, %d complete paths, %d feasibility queries" % (nfn, an.paths, an.queries),
                        "verdict": "PASS", "bounds": "every normal (non-unwind) MIR path of every function in progress_bar.rs, multi.rs, state.rs, draw_target.rs, iter.rs", "wall_s": round(an.solver_s, 2),
                        "solver": {"z3+cvc5": "path feasibility"}})
        life = an.lifecycle()
        if any(q["verdict"] == "FAIL" for q in life):
            # a structural finding about the ticker life cycle is only reported after a native stress run confirms it:
            # stopping / replacing / dropping the ticker must be prompt whatever the tick interval is
            ok, detail = native_lifecycle(root)
            for q in life:
                if q["verdict"] != "FAIL":
                    continue
                if ok is False:
                    art_dir = os.path.join(OUT_DIR, "replays", "C08")
                    os.makedirs(art_dir, exist_ok=True)
                    art = os.path.join(art_dir, "ticker_lifecycle.json")
                    with open(art, "w") as fh:
                        json.dump({"property": "C08", "function": "TickerControl::run / Ticker::stop / tick_inner", "violation": q["name"], "why": q.get("why"), "native": detail,
                                   "how": "bin/check C08 --replay <this file>: re-runs the native stress test (enable_steady_tick(30 s) / disable_steady_tick, 300 rounds with varying delays; every stop must return within 3 s)"}, fh, indent=1)
                    q["replayed"] = True
                    q["replay_path"] = art
                    q["why"] = "%s; native stress run: %s" % (q.get("why"), detail)
                else:
                    q["verdict"] = "INCONCLUSIVE"
                    q["why"] = "%s; the native stress run %s" % (q.get("why"), "did not reproduce a slow stop" if ok else "could not be run: " + str(detail))
        queries += life
        enc = sorted(fn.short for n, fn in an.fns.items() if n.startswith(("progress_bar", "multi")))[:60]
    except (M.Unsupported, M.Nonlinear, KeyError, IndexError, AttributeError) as e:
        queries.append({"name": "MIR lock analysis", "verdict": "BROKEN", "why": "%s: %s" % (type(e).__name__, e), "wall_s": 0})
        enc = []
    return {"queries": queries, "assumptions": assumptions, "encodes": enc, "bounds": ["engine M (lock discipline): every MIR path, loops cut at repeated (block, held-set, flags) states"]}


LIFECYCLE_TEST = r'''
#[cfg(test)]
mod verif_c08_lifecycle {
    use super::*;
    use std::time::{Duration, Instant};

    #[test]
    fn verif_c08_stop_is_prompt() {
        let _guard = TICKER_TEST.lock().unwrap();
        let (tx, rx) = std::sync::mpsc::channel::<(u64, Duration)>();
        std::thread::spawn(move || {
            for i in 0..300u64 {
                let pb = ProgressBar::hidden();
                pb.enable_steady_tick(Duration::from_secs(30));
                // vary the delay so that the stop request meets the ticker thread starting up, ticking or sleeping
                match i % 3 {
                    0 => {}
                    1 => std::thread::yield_now(),
                    _ => std::thread::sleep(Duration::from_micros(i * 37 % 700)),
                }
                let t0 = Instant::now();
                match i % 4 {
                    0 => pb.disable_steady_tick(),
                    1 => pb.enable_steady_tick(Duration::from_secs(30)), // replaces (stops and joins) the previous ticker
                    _ => pb.finish(),                                    // a finished bar makes the ticker leave by itself
                }
                drop(pb);
                if tx.send((i, t0.elapsed())).is_err() {
                    return;
                }
            }
        });
        let mut worst = Duration::ZERO;
        for _ in 0..300 {
            // watchdog: a stop that never returns must not hang the check
            match rx.recv_timeout(Duration::from_secs(5)) {
                Ok((i, dt)) => {
                    if dt > worst {
                        worst = dt;
                    }
                    if dt > Duration::from_secs(3) {
                        println!("LIFECYCLE slow_stop round={} took_ms={}", i, dt.as_millis());
                        std::process::exit(0);
                    }
                }
                Err(_) => {
                    println!("LIFECYCLE slow_stop a stop / replace / drop of the ticker did not return within 5 s (tick interval 30 s)");
                    std::process::exit(0);
                }
            }
        }
        println!("LIFECYCLE prompt worst_ms={}", worst.as_millis());
    }
}
'''


def native_lifecycle(root):
    """-> (True prompt / False slow stop reproduced / None could not run, detail)"""
    from props.C05 import native_test
    try:
        rc, out = native_test(root, "progress_bar.rs", LIFECYCLE_TEST, "verif_c08_stop_is_prompt", timeout=900)
    except Exception as e:  # noqa
        return None, repr(e)
    m = re.search(r"LIFECYCLE (slow_stop|prompt) (.*)", out)
    if not m:
        pm = re.search(r"panicked at [^\n]*\n[^\n]*", out)
        return None, (pm.group(0) if pm else out[-400:])
    return (m.group(1) == "prompt"), m.group(0)


def replay(path):
    d = json.load(open(path))
    if "native" in d:
        ok, detail = native_lifecycle(common.scratch_root())
        say(detail)
        return 2 if ok is None else (0 if ok else 1)
    r = run("quick", None)
    hit = [q for q in r["queries"] if q["verdict"] == "FAIL" and d["function"] in q["name"] and d["violation"] in q["name"]]
    if hit:
        say("still flagged: %s" % hit[0]["name"])
        return 1
    say("no longer flagged")
    return 0
