"""C03 (engine M part) — skipped draws change nothing in the row accounting.

The Kani harnesses of C03 (harness/multi/c03.rs) need MultiState::draw end to end and only run in the thorough tier
(CBMC's symbolic execution of that function does not finish in quick-tier time). What engine M decides on every run, from
the MIR of the current tree, is the frame condition behind "also when the draw target is rate limited and most draws are
skipped": on every control-flow path of MultiState::draw and BarState::draw that returns WITHOUT reaching the terminal
(no call of Drawable::draw / draw_to_term), nothing of the row accounting is written: no assignment to a field of `self`,
and no call that receives a mutable borrow of a field of `self` other than the limiter query
ProgressDrawTarget::drawable itself. Candidate paths are checked for feasibility (constant discriminants along the path) by
z3/cvc5, like the lock-discipline paths of C08.

A violation means: a draw that the limiter refuses can still move zombie_lines_count / last_line_count / orphan_lines /
members, so that a later println/clear erases rows that were never painted -- printed log lines.
"""
import json
import os
import re
import sys
import time

sys.path.insert(0, os.path.dirname(os.path.dirname(os.path.abspath(__file__))))
import common  # noqa: E402
import mirsmt as M  # noqa: E402
from common import OUT_DIR, say  # noqa: E402
from props.C05 import dump_mir  # noqa: E402
from props.C08 import CALL_RE, DROP_RE  # noqa: E402

ALLOWED_MUT_CALLS = ("ProgressDrawTarget::drawable",)
DRAW_CALLS = re.compile(r"Drawable::<'_>::draw$|Drawable::draw$|draw_to_term")


def analyse(fn, self_local="_1"):
    """-> (list of violations, number of early-return paths, number of complete paths)"""
    blocks = fn.blocks
    viol = []
    early = 0
    total = 0
    seen = set()
    # state: (bb, drew, borrows: tuple of (local, field), known consts, path, events)
    work = [("bb0", False, (), (), (), ())]
    while work:
        bb, drew, borrows, known, path, events = work.pop()
        key = (bb, drew, borrows, known)
        if key in seen or len(path) > 80:
            continue
        seen.add(key)
        b = dict(borrows)
        k = dict(known)
        ev = list(events)
        nxt = []
        for s in blocks.get(bb, []):
            m = re.match(r"^(_\d+) = const (true|false|\d+_\w+);$", s)
            if m:
                v = m.group(2)
                k[m.group(1)] = 1 if v == "true" else 0 if v == "false" else int(v.split("_")[0])
                continue
            m = re.match(r"^(_\d+) = &mut \(\(\*%s\)\.(\d+): " % re.escape(self_local), s)
            if m:
                b[m.group(1)] = int(m.group(2))
                continue
            m = re.match(r"^(_\d+) = &mut \(\*(_\d+)\);$", s)  # reborrow
            if m and m.group(2) in b:
                b[m.group(1)] = b[m.group(2)]
                continue
            m = re.match(r"^\(\(\*%s\)\.(\d+): [^=]*\) = " % re.escape(self_local), s)
            if m and not CALL_RE.match(s):
                ev.append(("assign", int(m.group(1)), s, bb))
                continue
            c = CALL_RE.match(s)
            if c:
                dst, callee, argstr, tgt = c.group(1).strip(), c.group(2), c.group(3), c.group(4)
                if DRAW_CALLS.search(callee):
                    drew = True
                args = M.split_top(argstr) if argstr.strip() else []
                for a in args:
                    mm = re.match(r"^(?:move|copy) (_\d+)$", a.strip())
                    if mm and mm.group(1) in b and not any(x in callee for x in ALLOWED_MUT_CALLS):
                        ev.append(("mutcall", b[mm.group(1)], s, bb))
                # a call whose destination is a field of self
                if re.match(r"^\(\(\*%s\)\.(\d+)" % re.escape(self_local), dst):
                    ev.append(("assign", int(re.match(r"^\(\(\*%s\)\.(\d+)" % re.escape(self_local), dst).group(1)), s, bb))
                k.pop(dst, None)
                nxt = [tgt]
                break
            d = DROP_RE.match(s)
            if d:
                nxt = [d.group(2)]
                break
            g = re.match(r"^goto -> (bb\d+);$", s)
            if g:
                nxt = [g.group(1)]
                break
            a = re.match(r"^assert\(.*\) -> \[success: (bb\d+)", s)
            if a:
                nxt = [a.group(1)]
                break
            sw = re.match(r"^switchInt\((?:copy|move) (.*?)\) -> \[(.*)\];$", s)
            if sw:
                var = sw.group(1)
                arms = [x.strip() for x in sw.group(2).split(",")]
                if var in k:
                    v = k[var]
                    chosen = None
                    for arm in arms:
                        kk, t = [x.strip() for x in arm.split(":")]
                        if kk != "otherwise" and int(kk) == v:
                            chosen = t
                    if chosen is None:
                        chosen = [x.split(":")[1].strip() for x in arms if x.startswith("otherwise")][0]
                    nxt = [chosen]
                else:
                    nxt = [arm.split(":")[1].strip() for arm in arms]
                break
            if s == "return;":
                total += 1
                if not drew:
                    early += 1
                    for e in ev:
                        viol.append({"kind": e[0], "field": e[1], "stmt": e[2], "block": e[3], "path": list(path) + [bb], "known": dict(k)})
                nxt = []
                break
            if s.startswith("unreachable") or s.startswith("resume") or s.startswith("abort"):
                nxt = []
                break
        for t in nxt:
            work.append((t, drew, tuple(sorted(b.items())), tuple(sorted(k.items())), path + (bb,), tuple(ev)))
    return viol, early, total


def run(tier, logdir):
    root = common.scratch_root()
    assumptions = [
        "engine M part: structural frame condition on the MIR (paths that return without drawing write no field of self and pass no mutable borrow of a field of self to a callee other than ProgressDrawTarget::drawable); calls through `&self` are treated as read-only; unwind edges ignored",
        "the row accounting of painting draws (println / clear / zombie reaping) is the subject of the thorough-tier Kani harnesses in harness/multi/c03.rs; the exactness of draw_to_term's erase range and the rule that text lines are never counted are decided by the C01/C19 step harnesses",
    ]
    queries = []
    try:
        mir, dt = dump_mir(root)
        structs = {}
        src = open(os.path.join(common.REPO, "src", "multi.rs")).read()
        sm = re.search(r"pub\(crate\) struct MultiState \{(.*?)\n\}", src, re.S)
        fields = [m.group(1) for m in re.finditer(r"^\s*(?:pub(?:\([\w ]+\))?\s+)?(\w+)\s*:", sm.group(1), re.M)] if sm else []
        src_st = open(os.path.join(common.REPO, "src", "state.rs")).read()
        sb = re.search(r"pub\(crate\) struct BarState \{(.*?)\n\}", src_st, re.S)
        bfields = [m.group(1) for m in re.finditer(r"^\s*(?:pub(?:\([\w ]+\))?\s+)?(\w+)\s*:", sb.group(1), re.M)] if sb else None
        # the fields that make up the row accounting / the logical frame; a write to any OTHER field (e.g. a cache added later)
        # on a skipped draw is not this property's business
        ACCOUNTING = {"MultiState": {"zombie_lines_count", "orphan_lines", "members", "ordering", "free_set", "draw_target"},
                      "BarState": {"draw_target", "state", "style", "on_finish", "tab_width"}}
        targets = [("MultiState", "draw", fields), ("BarState", "draw", bfields)]
        for ty, meth, fl in targets:
            fn = mir.find(meth, self_ty=ty)

            class F:
                pass
            f = F()
            f.blocks = fn.blocks
            viol, early, total = analyse(f)
            t0 = time.time()
            confirmed = []
            seen = set()
            for v in viol:
                key = (v["stmt"])
                fname0 = (fl[v["field"]] if fl and v["field"] < len(fl) else None)
                if fname0 is not None and fname0 not in ACCOUNTING[ty]:
                    continue
                if key in seen:
                    continue
                seen.add(key)
                decls = ["(declare-const flag_%s Int)" % re.sub(r"\W", "", k) for k in v["known"]]
                asserts = ["(assert (= flag_%s %d))" % (re.sub(r"\W", "", k), val) for k, val in v["known"].items()]
                r = M.solve(decls, asserts, timeout=20)
                if r["verdict"] == "sat":
                    confirmed.append(v)
            dt_s = time.time() - t0
            name = "%s::%s: paths returning without a draw leave the row accounting untouched (%d early-return paths of %d)" % (ty, meth, early, total)
            if early == 0:
                queries.append({"name": name, "verdict": "VACUOUS", "why": "no early-return path found: the structure of the function changed", "wall_s": 0})
                continue
            if not confirmed:
                queries.append({"name": name, "verdict": "PASS", "bounds": "every non-unwind MIR path", "wall_s": round(dt_s, 2), "solver": {"z3+cvc5": "path feasibility"}})
            for v in confirmed:
                fname = (fl[v["field"]] if fl and v["field"] < len(fl) else "field %d" % v["field"])
                art_dir = os.path.join(OUT_DIR, "replays", "C03")
                os.makedirs(art_dir, exist_ok=True)
                art = os.path.join(art_dir, "%s_%s_skipped_draw_writes_%s.json" % (ty, meth, re.sub(r"\W", "_", fname)))
                with open(art, "w") as fh:
                    json.dump({"property": "C03", "function": "%s::%s" % (ty, meth), "field": fname, "statement": v["stmt"], "mir_path": v["path"],
                               "how": "bin/check C03 --replay <this file>: re-runs the frame-condition analysis on the current tree"}, fh, indent=1)
                queries.append({"name": "%s::%s writes `%s` on a path that returns without drawing" % (ty, meth, fname), "verdict": "FAIL",
                                "why": "at `%s` (MIR path %s): a draw the limiter refuses still changes the row accounting" % (v["stmt"][:110], "->".join(v["path"][-6:])),
                                "replayed": True, "replay_path": art, "wall_s": 0,
                                "known": "C03-zombie-count-before-limiter" if (fname == "zombie_lines_count") else None})
        enc = ["multi::MultiState::draw", "state::BarState::draw"]
        # printing and suspending are FORCED operations (a rate-limited println would drop or delay a log line, a rate-limited
        # clear in suspend would let the suspended output be overwritten): the force-flag rules F1 of props/C04.py, restricted
        # to the printing / suspending entry points
        import props.C04 as C04
        r4 = C04.run(tier, logdir)
        for q in r4["queries"]:
            if q["name"].startswith("F1 ") and re.search(r"println|suspend|clear", q["name"]):
                q = dict(q)
                q["name"] = "printing is forced: " + q["name"]
                queries.append(q)
            elif q["verdict"] == "BROKEN":
                queries.append(q)
        enc += ["state::BarState::println", "state::BarState::suspend", "multi::MultiState::println", "multi::MultiState::suspend", "multi::MultiState::clear"]
    except (M.Unsupported, KeyError, IndexError, AttributeError) as e:
        queries.append({"name": "MIR frame-condition analysis", "verdict": "BROKEN", "why": "%s: %s" % (type(e).__name__, e), "wall_s": 0})
        enc = []
    return {"queries": queries, "assumptions": assumptions, "encodes": enc, "bounds": ["engine M (frame condition): every non-unwind MIR path of MultiState::draw and BarState::draw"]}


def replay(path):
    d = json.load(open(path))
    if "rule" in d:
        import props.C04 as C04
        return C04.replay(path)
    r = run("quick", None)
    hit = [q for q in r["queries"] if q["verdict"] == "FAIL" and d["field"] in q["name"]]
    if hit:
        say("still flagged: %s" % hit[0]["name"])
        return 1
    say("no longer flagged")
    return 0
