"""C11 (engine M part) — every documented key formats the value of the corresponding getter, for every state.

ProgressStyle::format_state dispatches on the key string (`match key.as_str()`); each arm hands ONE value to ONE public
formatter (or pushes a string). CBMC does not finish a single call of format_state (String / fmt machinery, > 15 min even for
an unknown key), so the Kani harnesses that render keys end to end live in the thorough tier. What is decided here on every
run, from the MIR of the current tree and for EVERY state (position and length over the whole u64 range, length known or
unknown):

  for each documented key the arm selected by `<str as PartialEq>::eq(key, "<name>")` is located, the data flow of the value
  that reaches the formatter is resolved back to the getters called on the ProgressState (pos(), len(), fraction(), per_sec(),
  elapsed(), eta(), duration(), message/prefix.expanded(), current_tick_str) and turned into an SMT term; z3 and cvc5 must
  both show that it cannot differ from the documented value (e.g. total keys: len if known else pos) and the wrapper type must
  be the documented public formatter (HumanCount, HumanBytes/BinaryBytes, DecimalBytes, FormattedDuration, HumanDuration,
  HumanFloatCount).

A satisfying assignment (pos, len) is replayed natively: the real format_state renders "{key}" for that state and is compared
with the public formatter applied to the getter. Getters and formatters themselves are decided elsewhere (C07, C09, C13, C15).
"""
import json
import os
import re
import sys
import time

sys.path.insert(0, os.path.dirname(os.path.dirname(os.path.abspath(__file__))))
import common  # noqa: E402
import mirsmt as M  # noqa: E402
from common import OUT_DIR, say  # noqa: E402
from props.C05 import dump_mir, native_test  # noqa: E402
from props.C08 import CALL_RE  # noqa: E402

LENP = ("UNWRAP_OR", ("LEN",), ("POS",))
BIN = ("HumanBytes", "BinaryBytes")
EXPECT = {
    # key: (kind, wrapper(s) or None, value)
    "pos": ("fmt", None, ("POS",)),
    "human_pos": ("fmt", ("HumanCount",), ("POS",)),
    "len": ("fmt", None, LENP),
    "human_len": ("fmt", ("HumanCount",), LENP),
    "percent": ("fmt", None, ("MUL100", ("G", "fraction"))),
    "percent_precise": ("fmt", None, ("MUL100", ("G", "fraction"))),
    "bytes": ("fmt", BIN, ("POS",)),
    "total_bytes": ("fmt", BIN, LENP),
    "decimal_bytes": ("fmt", ("DecimalBytes",), ("POS",)),
    "decimal_total_bytes": ("fmt", ("DecimalBytes",), LENP),
    "binary_bytes": ("fmt", ("BinaryBytes",), ("POS",)),
    "binary_total_bytes": ("fmt", ("BinaryBytes",), LENP),
    "elapsed_precise": ("fmt", ("FormattedDuration",), ("G", "elapsed")),
    "elapsed": ("fmt", ("HumanDuration",), ("G", "elapsed")),
    "per_sec": ("fmt", ("HumanFloatCount",), ("G", "per_sec")),
    "bytes_per_sec": ("fmt", BIN, ("AS_U64", ("G", "per_sec"))),
    "decimal_bytes_per_sec": ("fmt", ("DecimalBytes",), ("AS_U64", ("G", "per_sec"))),
    "binary_bytes_per_sec": ("fmt", ("BinaryBytes",), ("AS_U64", ("G", "per_sec"))),
    "eta_precise": ("fmt", ("FormattedDuration",), ("G", "eta")),
    "eta": ("fmt", ("HumanDuration",), ("G", "eta")),
    "duration_precise": ("fmt", ("FormattedDuration",), ("G", "duration")),
    "duration": ("fmt", ("HumanDuration",), ("G", "duration")),
    "msg": ("push_str", None, ("EXPANDED", "message")),
    "prefix": ("push_str", None, ("EXPANDED", "prefix")),
    "spinner": ("push_str", None, ("TICKSTR",)),
    "bar": ("fmt", None, ("BAR", ("G", "fraction"))),
    "wide_bar": ("marker", None, None),
    "wide_msg": ("marker", None, None),
}
PRECISION = {"percent": 0, "percent_precise": 3}


class Fn:
    def __init__(self, fn):
        self.fn = fn
        self.blocks = fn.blocks
        self.defs = {}  # local -> list of (bb, kind, payload)
        for bb, stmts in fn.blocks.items():
            for s in stmts:
                c = CALL_RE.match(s)
                if c:
                    dst = c.group(1).strip()
                    if re.match(r"^_\d+$", dst):
                        self.defs.setdefault(dst, []).append((bb, "call", (c.group(2).strip(), M.split_top(c.group(3)) if c.group(3).strip() else [])))
                    continue
                m = re.match(r"^(_\d+) = (.*);$", s)
                if m:
                    self.defs.setdefault(m.group(1), []).append((bb, "assign", m.group(2)))

    def succ(self, bb):
        for s in self.blocks.get(bb, []):
            c = CALL_RE.match(s)
            if c:
                return [c.group(4)]
            g = re.match(r"^goto -> (bb\d+);$", s)
            if g:
                return [g.group(1)]
            d = re.match(r"^drop\(.*\) -> \[return: (bb\d+)", s)
            if d:
                return [d.group(1)]
            a = re.match(r"^assert\(.*\) -> \[success: (bb\d+)", s)
            if a:
                return [a.group(1)]
            sw = re.match(r"^switchInt\(.*?\) -> \[(.*)\];$", s)
            if sw:
                return [x.split(":")[1].strip() for x in sw.group(1).split(",")]
        return []


def arms(F):
    """key -> arm entry block"""
    out = {}
    for bb, stmts in F.blocks.items():
        for s in stmts:
            c = CALL_RE.match(s)
            if not c or "<str as PartialEq>::eq" not in c.group(2):
                continue
            m = re.search(r'const "([a-z_]+)"', c.group(3))
            if not m:
                continue
            ret, tgt = c.group(1).strip(), c.group(4)
            for t in F.blocks.get(tgt, []):
                sw = re.match(r"^switchInt\(move %s\) -> \[0: (bb\d+), otherwise: (bb\d+)\];$" % re.escape(ret), t)
                if sw:
                    out[m.group(1)] = sw.group(2)
    return out


def arm_paths(F, entry, join_preds, limit=40):
    """all straight/branching paths from the arm entry until an output call has happened and the path leaves the arm"""
    paths = []
    work = [(entry, [])]
    while work:
        bb, acc = work.pop()
        if len(acc) > limit:
            continue
        acc = acc + [bb]
        stmts = F.blocks.get(bb, [])
        if any(x.startswith("unreachable") for x in stmts):
            continue
        done = any(re.search(r"Result::<\(\), std::fmt::Error>::unwrap|String::push_str|String::push\(", s) for s in stmts)
        if done:
            paths.append(acc)
            continue
        nx = F.succ(bb)
        if not nx:
            paths.append(acc)
            continue
        for t in nx:
            if t not in acc:
                work.append((t, acc))
    return paths


class Resolver:
    def __init__(self, F, path, fields, promoted=None, mir=None):
        self.F, self.path, self.fields = F, path, fields
        self.promoted = promoted or {}
        self.mir = mir

    def pick(self, local):
        ds = self.F.defs.get(local, [])
        inpath = [d for d in ds if d[0] in self.path]
        if len(inpath) >= 1:
            return inpath[-1]
        if len(ds) == 1:
            return ds[0]
        return None

    def operand(self, op, depth=0):
        op = op.strip()
        if depth > 30:
            return ("?", "depth")
        m = re.match(r"^(?:copy|move) (_\d+)$", op)
        if m:
            return self.local(m.group(1), depth + 1)
        m = re.match(r"^const (.*)$", op)
        if m:
            return ("CONST", m.group(1))
        m = re.match(r"^(?:no_retag )?(?:copy|move) \((_\d+)\.(\d+): .*\)$", op)
        if m:
            base = self.local(m.group(1), depth + 1)
            if base[0] == "TUPLE" and int(m.group(2)) < len(base[1]):
                return base[1][int(m.group(2))]
            return ("FIELD", base, int(m.group(2)))
        return ("?", op[:60])

    def local(self, l, depth=0):
        if l == "_1":
            return ("SELF",)
        if l == "_2":
            return ("STATE",)
        d = self.pick(l)
        if d is None:
            return ("?", "no unique definition of %s" % l)
        bb, kind, payload = d
        if kind == "call":
            callee, args = payload
            short = re.sub(r"::<.*?>", "", callee)
            return ("CALL", short, [self.operand(a, depth + 1) for a in args], callee)
        rhs = payload
        m = re.match(r"^&(?:mut )?(_\d+)$", rhs)
        if m:
            return self.local(m.group(1), depth + 1)
        m = re.match(r"^&(?:mut )?\(\(\*(_\d+)\)\.(\d+): (.*)\)$", rhs)
        if m:
            return ("FIELDREF", self.local(m.group(1), depth + 1), int(m.group(2)), m.group(3))
        m = re.match(r"^&\(\*(_\d+)\)$", rhs)
        if m:
            return self.local(m.group(1), depth + 1)
        m = re.match(r"^\((.*),\)$", rhs)
        if m:
            return ("TUPLE", [self.operand(x, depth + 1) for x in M.split_top(m.group(1))])
        m = re.match(r"^\((.*)\)$", rhs)
        if m and "," in rhs and not rhs.startswith("(("):
            return ("TUPLE", [self.operand(x, depth + 1) for x in M.split_top(m.group(1))])
        m = re.match(r"^\[(.*)\]$", rhs)
        if m:
            return ("ARRAY", [self.operand(x, depth + 1) for x in M.split_top(m.group(1))])
        m = re.match(r"^(Mul|Add|Sub|Div)\((.*)\)$", rhs)
        if m:
            a, b = M.split_top(m.group(2))
            return ("BIN", m.group(1), self.operand(a, depth + 1), self.operand(b, depth + 1))
        m = re.match(r"^(.*) as (\w+) \((\w+)\)$", rhs)
        if m:
            return ("CAST", self.operand(m.group(1), depth + 1), m.group(2), m.group(3))
        m = re.match(r"^(?:format::)?([A-Z]\w+)\((.*)\)$", rhs)
        if m:
            return ("AGG", m.group(1), [self.operand(x, depth + 1) for x in M.split_top(m.group(2))])
        return self.operand(rhs, depth + 1)

    # ---- semantic value
    def sem(self, t):
        k = t[0]
        if k == "CALL":
            name, args = t[1], t[2]
            if name == "ProgressState::pos" and args and args[0] == ("STATE",):
                return ("POS",)
            if name == "ProgressState::len" and args and args[0] == ("STATE",):
                return ("LEN",)
            m = re.match(r"^ProgressState::(fraction|per_sec|elapsed|eta|duration)$", name)
            if m and args and args[0] == ("STATE",):
                return ("G", m.group(1))
            if name == "Option::unwrap_or":
                return ("UNWRAP_OR", self.sem(args[0]), self.sem(args[1]))
            if name == "Option::unwrap_or_default":
                return ("UNWRAP_OR", self.sem(args[0]), ("K", 0))
            if name == "Option::unwrap_or_else" and self.mir is not None:
                # a closure whose body is a single getter call on the state
                m = re.search(r"(\{closure@[^}]*\})", t[3])
                if m:
                    for g in self.mir.fns:
                        if g.params and g.params[0][1].strip() == m.group(1):
                            calls = [CALL_RE.match(s_) for st in g.blocks.values() for s_ in st if CALL_RE.match(s_)]
                            if len(calls) == 1 and calls[0].group(1).strip() == "_0":
                                inner = re.sub(r"::<.*?>", "", calls[0].group(2).strip())
                                if inner == "ProgressState::pos":
                                    return ("UNWRAP_OR", self.sem(args[0]), ("POS",))
            if name == "TabExpandedString::expanded":
                a = args[0]
                if a[0] == "FIELDREF" and a[1] == ("STATE",):
                    fl = self.fields.get("ProgressState", [])
                    nm = fl[a[2]][0] if a[2] < len(fl) else "field%d" % a[2]
                    return ("EXPANDED", nm)
            if name == "ProgressStyle::current_tick_str" and args[:2] == [("SELF",), ("STATE",)]:
                return ("TICKSTR",)
            if name == "ProgressStyle::format_bar" and args and args[0] == ("SELF",):
                return ("BAR", self.sem(args[1]))
            if name == "<String as Deref>::deref" or name.endswith("as Deref>::deref") or name.endswith("::as_str"):
                return self.sem(args[0])
            return ("?", name)
        if k == "CONST":
            m = re.search(r"format_state::promoted\[(\d+)\]$", t[1])
            if m and int(m.group(1)) in self.promoted:
                return ("K", self.promoted[int(m.group(1))])
            m = re.match(r"^(\d+)_(?:u|i|usize)", t[1])
            if m:
                return ("K", int(m.group(1)))
            m = re.match(r"^([\d.]+)f32$", t[1])
            if m:
                return ("KF", float(m.group(1)))
            return ("?", "const " + t[1])
        if k == "BIN":
            a, b = self.sem(t[2]), self.sem(t[3])
            if t[1] == "Mul" and b == ("KF", 100.0):
                return ("MUL100", a)
            if t[1] == "Mul" and a == ("KF", 100.0):
                return ("MUL100", b)
            return ("?", "%s(%s,%s)" % (t[1], a, b))
        if k == "CAST":
            if t[3] == "FloatToInt" and t[2] == "u64":
                return ("AS_U64", self.sem(t[1]))
            return ("?", "cast %s" % t[2])
        return ("?", str(t)[:80])


def smt_of(v, decls):
    """semantic value -> (sort, smt text)"""
    k = v[0]
    if k == "POS":
        decls.add("(declare-const pos Int)")
        return "Int", "pos"
    if k == "K":
        return "Int", str(v[1])
    if k == "LEN":
        raise M.Unsupported("bare Option<u64> reaches a formatter")
    if k == "UNWRAP_OR":
        if v[1] != ("LEN",):
            raise M.Unsupported("unwrap_or on %s" % (v[1],))
        decls.add("(declare-const len_some Bool)")
        decls.add("(declare-const len_val Int)")
        s, d = smt_of(v[2], decls)
        return "Int", "(ite len_some len_val %s)" % d
    if k == "G":
        decls.add("(declare-const g_%s Real)" % v[1])
        return "Real", "g_" + v[1]
    if k == "MUL100":
        s, d = smt_of(v[1], decls)
        return "Real", "(* 100.0 %s)" % d
    if k == "AS_U64":
        decls.add("(declare-fun as_u64 (Real) Int)")
        s, d = smt_of(v[1], decls)
        return "Int", "(as_u64 %s)" % d
    if k in ("EXPANDED", "TICKSTR"):
        n = "s_" + "_".join(str(x) for x in v)
        decls.add("(declare-const %s Int)" % n)
        return "Int", n
    if k == "BAR":
        decls.add("(declare-fun bar (Real) Int)")
        s, d = smt_of(v[1], decls)
        return "Int", "(bar %s)" % d
    raise M.Unsupported("value not understood: %s" % (v,))


REPLAY_TEST = r'''
#[cfg(test)]
mod verif_c11_replay {
    use super::*;
    use crate::state::{AtomicPosition, ProgressState};
    use std::sync::Arc;

    #[test]
    fn verif_c11_replay_key() {
        let key = std::env::var("VERIF_C11_KEY").unwrap();
        let pos: u64 = std::env::var("VERIF_C11_POS").unwrap().parse().unwrap();
        let len: Option<u64> = std::env::var("VERIF_C11_LEN").ok().and_then(|s| s.parse().ok());
        let ap = AtomicPosition::new();
        ap.set(pos);
        let state = ProgressState::new(len, Arc::new(ap));
        let style = ProgressStyle::with_template(&format!("{{{key}}}")).unwrap();
        let mut lines = Vec::new();
        style.format_state(&state, &mut lines, 200);
        let got = lines.first().map(|l| l.as_ref().to_string()).unwrap_or_default();
        let total = state.len().unwrap_or(state.pos());
        let want = match key.as_str() {
            "pos" => format!("{}", state.pos()),
            "len" => format!("{}", total),
            "human_pos" => format!("{}", HumanCount(state.pos())),
            "human_len" => format!("{}", HumanCount(total)),
            "bytes" | "binary_bytes" => format!("{}", BinaryBytes(state.pos())),
            "total_bytes" | "binary_total_bytes" => format!("{}", BinaryBytes(total)),
            "decimal_bytes" => format!("{}", DecimalBytes(state.pos())),
            "decimal_total_bytes" => format!("{}", DecimalBytes(total)),
            _ => String::from("<no native reference for this key>"),
        };
        println!("REPLAY got={got:?} want={want:?} same={}", got == want);
    }
}
'''


CORPUS_TEST = r'''
#[cfg(test)]
mod verif_c11_corpus {
    use super::*;
    use crate::state::{AtomicPosition, ProgressState};
    use std::sync::Arc;
    use std::time::{Duration, Instant};

    fn reference(key: &str, st: &ProgressState) -> Option<String> {
        let total = st.len().unwrap_or(st.pos());
        Some(match key {
            "pos" => format!("{}", st.pos()),
            "len" => format!("{}", total),
            "human_pos" => format!("{}", HumanCount(st.pos())),
            "human_len" => format!("{}", HumanCount(total)),
            "percent" => format!("{:.*}", 0, st.fraction() * 100f32),
            "percent_precise" => format!("{:.*}", 3, st.fraction() * 100f32),
            "bytes" | "binary_bytes" => format!("{}", BinaryBytes(st.pos())),
            "total_bytes" | "binary_total_bytes" => format!("{}", BinaryBytes(total)),
            "decimal_bytes" => format!("{}", DecimalBytes(st.pos())),
            "decimal_total_bytes" => format!("{}", DecimalBytes(total)),
            "elapsed_precise" => format!("{}", FormattedDuration(st.elapsed())),
            "elapsed" => format!("{:#}", HumanDuration(st.elapsed())),
            "eta_precise" => format!("{}", FormattedDuration(st.eta())),
            "eta" => format!("{:#}", HumanDuration(st.eta())),
            "duration_precise" => format!("{}", FormattedDuration(st.duration())),
            "duration" => format!("{:#}", HumanDuration(st.duration())),
            "per_sec" => format!("{}/s", HumanFloatCount(st.per_sec())),
            "bytes_per_sec" | "binary_bytes_per_sec" => format!("{}/s", BinaryBytes(st.per_sec() as u64)),
            "decimal_bytes_per_sec" => format!("{}/s", DecimalBytes(st.per_sec() as u64)),
            "msg" => st.message.expanded().to_string(),
            "prefix" => st.prefix.expanded().to_string(),
            _ => return None,
        })
    }

    #[test]
    fn verif_c11_key_corpus() {
        let key = std::env::var("VERIF_C11_KEY").unwrap();
        let style = ProgressStyle::with_template(&format!("{{{key}}}")).unwrap();
        let mut n = 0;
        for (pos, len) in [(0u64, None), (7, None), (3, Some(10u64)), (10, Some(10)), (12, Some(10)), (0, Some(0)), (u64::MAX, Some(5)),
                           // fractions whose percentage is an exact decimal tie (x.5 at 0 decimals, x.xxx5 at 3) or just below a unit
                           (1, Some(8)), (3, Some(8)), (5, Some(8)), (1, Some(200)), (1, Some(64)), (3, Some(64)), (999, Some(1000)), (1, Some(3))] {
            for finished in [false, true] {
                for age in [0u64, 5, 4000] {
                    if key.contains("per_sec") && (age == 0 || pos > 1_000_000) {
                        continue; // position / (a few microseconds) is not stable between two clock reads
                    }
                    let ap = AtomicPosition::new();
                    ap.set(pos);
                    let mut st = ProgressState::new(len, Arc::new(ap));
                    st.started = Instant::now().checked_sub(Duration::from_secs(age)).unwrap();
                    st.message = crate::state::TabExpandedString::NoTabs("m".into());
                    st.prefix = crate::state::TabExpandedString::NoTabs("p".into());
                    if finished {
                        st.set_status_done_for_verif();
                    }
                    // time keys are read from the clock twice (once by the reference, once by the renderer): accept either neighbour
                    let before = reference(&key, &st);
                    let mut lines = Vec::new();
                    style.format_state(&st, &mut lines, 200);
                    let got = lines.first().map(|l| l.as_ref().to_string()).unwrap_or_default();
                    let after = reference(&key, &st);
                    n += 1;
                    if let (Some(b), Some(a)) = (before, after) {
                        if got != b && got != a {
                            println!("KEYCORPUS differs key={key} pos={pos} len={len:?} finished={finished} age={age}s rendered={got:?} reference={a:?}");
                            return;
                        }
                    } else {
                        println!("KEYCORPUS noreference key={key}");
                        return;
                    }
                }
            }
        }
        println!("KEYCORPUS same states={n}");
    }
}
'''


def native_key_corpus(root, key):
    """-> (True differs / False same / None no reference or could not run, detail)"""
    import props.C05 as C05
    old = C05.ENV
    C05.ENV = dict(old, VERIF_C11_KEY=key)
    helper = "\n#[cfg(test)]\nimpl ProgressState {\n    pub(crate) fn set_status_done_for_verif(&mut self) {\n        self.status = Status::DoneVisible;\n    }\n}\n"
    try:
        # the helper lives in state.rs (private field), the test in style.rs
        d_state = os.path.join(common.REPO, "src", "state.rs")
        rc, out = native_test_two(root, {"style.rs": CORPUS_TEST, "state.rs": helper}, "verif_c11_key_corpus")
    except Exception as e:  # noqa
        return None, repr(e)
    finally:
        C05.ENV = old
    m = re.search(r"KEYCORPUS (differs|same|noreference)(.*)", out)
    if not m:
        pm = re.search(r"(error[^\n]*\n[^\n]*|panicked at [^\n]*\n[^\n]*)", out)
        return None, (pm.group(0) if pm else out[-300:])
    if m.group(1) == "noreference":
        return None, "no native reference for this key"
    return (m.group(1) == "differs"), m.group(0)[:400]


def native_test_two(root, appends, test_name, timeout=900):
    """like C05.native_test, with code appended to several source files"""
    import shutil
    import subprocess
    import props.C05 as C05
    d = os.path.join(root, "native")
    shutil.rmtree(d, ignore_errors=True)
    os.makedirs(d)
    for f in ("Cargo.toml", "Cargo.lock"):
        shutil.copy2(os.path.join(common.REPO, f), os.path.join(d, f))
    shutil.copytree(os.path.join(common.REPO, "src"), os.path.join(d, "src"))
    for srcfile, code in appends.items():
        with open(os.path.join(d, "src", srcfile), "a") as f:
            f.write("\n" + code)
    env = dict(C05.ENV, CARGO_TARGET_DIR=os.path.join(root, "target_native"))
    p = subprocess.run(["cargo", "test", "--offline", "--lib", test_name, "--", "--nocapture", "--test-threads=1"], cwd=d, capture_output=True, text=True, env=env, timeout=timeout)
    return p.returncode, p.stdout + p.stderr


def native_replay(root, key, pos, len_):
    import props.C05 as C05
    env = {"VERIF_C11_KEY": key, "VERIF_C11_POS": str(pos)}
    if len_ is not None:
        env["VERIF_C11_LEN"] = str(len_)
    old = C05.ENV
    C05.ENV = dict(old, **env)
    if len_ is None:
        C05.ENV.pop("VERIF_C11_LEN", None)
    try:
        rc, out = native_test(root, "style.rs", REPLAY_TEST, "verif_c11_replay_key", timeout=900)
    finally:
        C05.ENV = old
    m = re.search(r"REPLAY got=(.*) want=(.*) same=(true|false)", out)
    if not m:
        return None, out[-600:]
    return m.group(3) == "false", "rendered %s, the formatter applied to the getter gives %s" % (m.group(1), m.group(2))


def run(tier, logdir):
    root = common.scratch_root()
    queries = []
    enc = []
    assumptions = [
        "engine M part: the getters (ProgressState::pos/len/fraction/per_sec/elapsed/eta/duration, TabExpandedString::expanded, current_tick_str, format_bar) are uninterpreted: the verdict is that each key formats THE getter's value with THE documented formatter, for every state; what the getters and formatters compute is decided by C07, C09, C13, C15, C16",
        "the arm of a key is located through `<str as PartialEq>::eq(key, \"<name>\")` in the MIR of format_state; custom keys (format_map lookup first) are covered by the Kani harnesses; the format-string flags ({:#}, precision) are read for percent / percent_precise only",
    ]
    try:
        mir, dt = dump_mir(root)
        srcs = [open(os.path.join(common.REPO, "src", f)).read() for f in ("state.rs",)]
        fields = {}
        for src in srcs:
            for sm in re.finditer(r"struct (\w+)\s*\{(.*?)\n\}", src, re.S):
                fl = []
                for ln in sm.group(2).split("\n"):
                    fm = re.match(r"^\s*(?:pub(?:\([\w ]+\))?\s+)?(\w+)\s*:\s*(.*?),?\s*$", ln)
                    if fm and not ln.strip().startswith(("//", "#")):
                        fl.append((fm.group(1), fm.group(2)))
                fields[sm.group(1)] = fl
        fn = mir.find("format_state", self_ty="ProgressStyle")
        F = Fn(fn)
        promoted = {int(a): int(b) for a, b in re.findall(r"^const [^\n]*format_state::promoted\[(\d+)\]: &usize = \{.*?_1 = const (\d+)_usize;", mir.text, re.S | re.M)}
        A = arms(F)
        missing = [k for k in EXPECT if k not in A]
        extra = [k for k in A if k not in EXPECT]
        if missing:
            queries.append({"name": "documented keys without an arm in format_state: %s" % ", ".join(missing), "verdict": "FAIL" if len(missing) < 6 else "BROKEN",
                            "why": "no `<str as PartialEq>::eq(key, \"%s\")` in the MIR of format_state" % missing[0], "replayed": True,
                            "replay_path": _art("missing_" + missing[0], {"property": "C11", "key": missing[0], "what": "no arm"}), "wall_s": 0})
        nq = 0
        tsol = 0.0
        okc = 0
        for key in sorted(EXPECT):
            if key not in A:
                continue
            kind, wrappers, want = EXPECT[key]
            paths = arm_paths(F, A[key], None)
            problems = []
            for path in paths:
                R = Resolver(F, path, fields, promoted, mir)
                stmts = [s for bb in path for s in F.blocks.get(bb, [])]
                ev = None
                for s in stmts:
                    c = CALL_RE.match(s)
                    if not c:
                        continue
                    cal = re.sub(r"::<.*?>", "", c.group(2).strip())
                    args = M.split_top(c.group(3)) if c.group(3).strip() else []
                    if cal == "String::push_str":
                        ev = ("push_str", R.operand(args[1]))
                    elif cal == "String::push":
                        ev = ("push", R.operand(args[1]))
                    elif cal.endswith("fmt::Write>::write_fmt"):
                        ev = ("fmt", R.operand(args[1]))
                if ev is None:
                    problems.append(("no output operation found in the arm", None))
                    continue
                if kind == "marker":
                    if not (ev[0] == "push" and ev[1][0] == "CONST" and "\\0" in ev[1][1]):
                        problems.append(("expected the wide-element marker push, found %s" % (ev,), None))
                    continue
                if kind == "push_str":
                    if ev[0] != "push_str":
                        problems.append(("expected push_str of %s, found %s" % (want, ev[0]), None))
                        continue
                    got = R.sem(ev[1])
                    wrap = None
                else:
                    if ev[0] != "fmt":
                        problems.append(("expected a formatted value, found %s" % ev[0], None))
                        continue
                    a = ev[1]
                    # Arguments::new(spec, &[Argument::new_display(&value), ...])
                    if not (a[0] == "CALL" and a[1].startswith("Arguments")):
                        problems.append(("format arguments not understood: %s" % (a,), None))
                        continue
                    arr = [x for x in a[2] if x[0] == "ARRAY"]
                    if not arr:
                        problems.append(("no argument array", None))
                        continue
                    first = arr[0][1][0]
                    if not (first[0] == "CALL" and "Argument" in first[1]):
                        problems.append(("first format argument not understood: %s" % (first,), None))
                        continue
                    ty = re.search(r"new_(?:display|debug)::<(.*)>$", first[3])
                    val = first[2][0]
                    wrap = None
                    if val[0] == "AGG":
                        wrap = val[1]
                        val = val[2][0]
                    got = R.sem(val)
                    if key in PRECISION:
                        # {:.*} passes the precision as a further argument (Argument::from_usize)
                        prec = [R.sem(x[2][0]) for x in arr[0][1][1:] if x[0] == "CALL" and "from_usize" in x[1]]
                        if ("K", PRECISION[key]) not in prec:
                            problems.append(("precision %d not passed to the formatter (found %s)" % (PRECISION[key], prec), None))
                if wrappers is not None and wrap not in wrappers:
                    problems.append(("formatter is %s, documented: %s" % (wrap, "/".join(wrappers)), None))
                if wrappers is None and kind == "fmt" and wrap is not None:
                    problems.append(("unexpected wrapper %s" % wrap, None))
                if got[0] == "?":
                    problems.append(("value handed to the formatter not understood: %s" % (got[1],), None))
                    continue
                decls = set()
                try:
                    s1, t1 = smt_of(got, decls)
                    s2, t2 = smt_of(want, decls)
                except M.Unsupported as e:
                    problems.append((str(e), None))
                    continue
                if s1 != s2:
                    problems.append(("value %s has a different type than the documented %s" % (got, want), None))
                    continue
                dom = []
                if "(declare-const pos Int)" in decls:
                    dom.append("(assert (and (<= 0 pos) (<= pos 18446744073709551615)))")
                if "(declare-const len_val Int)" in decls:
                    dom.append("(assert (and (<= 0 len_val) (<= len_val 18446744073709551615)))")
                t0 = time.time()
                gv = [x.split()[1] for x in sorted(decls) if x.startswith("(declare-const") and x.split()[1] in ("pos", "len_some", "len_val")]
                r = M.solve(sorted(decls), dom + ["(assert (not (= %s %s)))" % (t1, t2)], get_values=gv, timeout=30)
                tsol += time.time() - t0
                nq += 1
                if r["verdict"] == "unsat":
                    continue
                if r["verdict"] == "sat":
                    problems.append(("formats %s, documented %s" % (got, want), r.get("model") or {}))
                else:
                    problems.append(("solver verdict %s" % r["verdict"], "inconclusive"))
            if not problems:
                okc += 1
                continue
            for what, model in problems[:1]:
                if model == "inconclusive":
                    queries.append({"name": "key {%s}: %s" % (key, what), "verdict": "INCONCLUSIVE", "why": what, "wall_s": 0})
                    continue
                replayed, detail = True, "structural"
                art_d = {"property": "C11", "key": key, "what": what}
                if not (isinstance(model, dict) and model):
                    # the arm could not be matched against the documented value structurally: a candidate, confirmed (or not) by
                    # rendering the key for a corpus of states through the real format_state and comparing with the getter
                    differs, detail = native_key_corpus(root, key)
                    if differs is not True:
                        queries.append({"name": "key {%s}: %s" % (key, what), "verdict": "INCONCLUSIVE",
                                        "why": "%s; the native state corpus %s" % (what, "shows the documented rendering for every state tried" if differs is False else "could not decide: " + str(detail)[:200]), "wall_s": 0})
                        continue
                    art_d["corpus"] = detail
                if isinstance(model, dict) and model:
                    def iv(x):
                        try:
                            return int(str(x).replace("(", "").replace(")", "").replace(" ", ""))
                        except ValueError:
                            return 0
                    pos = iv(model.get("pos", 0))
                    some = model.get("len_some") in (True, "true")
                    lv = iv(model.get("len_val", 0)) if some else None
                    art_d.update({"pos": pos, "len": lv})
                    differs, detail = native_replay(root, key, pos, lv)
                    if differs is None:
                        queries.append({"name": "key {%s}: %s" % (key, what), "verdict": "INCONCLUSIVE", "why": "native replay did not run: " + detail, "wall_s": 0})
                        continue
                    if not differs:
                        queries.append({"name": "key {%s}: %s" % (key, what), "verdict": "INCONCLUSIVE", "why": "solver model pos=%s len=%s does not reproduce natively (%s): encoding suspect" % (pos, lv, detail), "wall_s": 0})
                        continue
                queries.append({"name": "key {%s}: %s" % (key, what), "verdict": "FAIL", "why": detail, "replayed": replayed,
                                "replay_path": _art("key_" + key, art_d), "wall_s": 0})
        name = "key dispatch: %d of %d documented keys format the documented getter value with the documented formatter (%d SMT queries)" % (okc, len(EXPECT), nq)
        queries.append({"name": name, "verdict": "PASS" if okc >= 2 else "VACUOUS", "why": "" if okc >= 2 else "fewer than 2 keys understood",
                        "bounds": "every (pos, Option<len>) in u64 x Option<u64>; getters uninterpreted", "wall_s": round(tsol, 2), "solver": {"z3+cvc5": "QF_UFLIRA equivalence"}})
        if extra:
            assumptions.append("keys present in format_state but not in the documented list (not judged): " + ", ".join(sorted(extra)))
        # vacuity witness: the equivalence query must be able to tell two different values apart
        wd = set()
        _, a = smt_of(("UNWRAP_OR", ("LEN",), ("K", 0)), wd)
        _, b = smt_of(LENP, wd)
        rw = M.solve(sorted(wd), ["(assert (and (<= 0 pos) (<= 0 len_val)))", "(assert (not (= %s %s)))" % (a, b)], get_values=["pos", "len_some"], timeout=30)
        queries.append({"name": "witness: `len or 0` is told apart from `len or position`", "verdict": "PASS" if rw["verdict"] == "sat" else "BROKEN",
                        "why": "" if rw["verdict"] == "sat" else "solver verdict %s" % rw["verdict"], "wall_s": 0})
        queries += tracker_rules(mir, root)
        enc = ["style::ProgressStyle::format_state (key dispatch arms, data flow to the formatter)"]
    except (M.Unsupported, KeyError, IndexError, AttributeError, ValueError) as e:
        queries.append({"name": "MIR key-dispatch analysis", "verdict": "BROKEN", "why": "%s: %s" % (type(e).__name__, e), "wall_s": 0})
    return {"queries": queries, "assumptions": assumptions, "encodes": enc, "bounds": ["engine M (key dispatch): all documented keys, every state"]}


TRACKER_TEST = r'''
#[cfg(test)]
mod verif_c11_trackers {
    use crate::style::ProgressTracker;
    use crate::{ProgressBar, ProgressState, ProgressStyle};
    use std::sync::atomic::{AtomicUsize, Ordering};
    use std::sync::Arc;
    use std::time::Instant;

    #[derive(Clone)]
    struct Probe(Arc<AtomicUsize>, Arc<AtomicUsize>);
    impl ProgressTracker for Probe {
        fn clone_box(&self) -> Box<dyn ProgressTracker> {
            Box::new(self.clone())
        }
        fn tick(&mut self, _s: &ProgressState, _n: Instant) {
            self.0.fetch_add(1, Ordering::SeqCst);
        }
        fn reset(&mut self, _s: &ProgressState, _n: Instant) {
            self.1.fetch_add(1, Ordering::SeqCst);
        }
        fn write(&self, _s: &ProgressState, _w: &mut dyn std::fmt::Write) {}
    }

    #[test]
    fn verif_c11_trackers_follow_the_bar() {
        type Op = (&'static str, fn(&ProgressBar));
        let ops: Vec<Op> = vec![
            ("tick", |p| p.tick()),
            ("set_length", |p| p.set_length(7)),
            ("inc_length", |p| p.inc_length(2)),
            ("dec_length", |p| p.dec_length(1)),
            ("unset_length", |p| p.unset_length()),
            ("set_message", |p| p.set_message("m")),
            ("set_prefix", |p| p.set_prefix("p")),
        ];
        let mut bad = Vec::new();
        for (name, op) in ops {
            let (t, r) = (Arc::new(AtomicUsize::new(0)), Arc::new(AtomicUsize::new(0)));
            let pb = ProgressBar::hidden();
            pb.set_style(ProgressStyle::with_template("{probe}").unwrap().with_key("probe", Probe(t.clone(), r.clone())));
            let before = t.load(Ordering::SeqCst);
            op(&pb);
            let d = t.load(Ordering::SeqCst) - before;
            if d != 1 {
                bad.push(format!("{name}: tracker ticked {d} times"));
            }
            let rb = r.load(Ordering::SeqCst);
            pb.reset();
            if r.load(Ordering::SeqCst) - rb != 1 {
                bad.push(format!("reset after {name}: tracker reset {} times", r.load(Ordering::SeqCst) - rb));
            }
        }
        if bad.is_empty() {
            println!("TRACKERS follow");
        } else {
            println!("TRACKERS differ {}", bad.join(" | "));
        }
    }
}
'''


def native_trackers(root):
    try:
        rc, out = native_test(root, "lib.rs", TRACKER_TEST, "verif_c11_trackers_follow_the_bar", timeout=900)
    except Exception as e:  # noqa
        return None, repr(e)
    m = re.search(r"TRACKERS (differ|follow)(.*)", out)
    if not m:
        pm = re.search(r"(error[^\n]*\n[^\n]*|panicked at [^\n]*\n[^\n]*)", out)
        return None, (pm.group(0) if pm else out[-300:])
    return (m.group(1) == "differ"), m.group(0)[:400]


def tracker_rules(mir, root):
    """custom keys are ticked and reset together with the bar"""
    import sympath as S
    out = []
    problems = []
    nfn = 0
    try:
        # T1: update_estimate_and_draw ticks every tracker (a loop over format_map.values_mut()) before it draws
        fn = mir.find("update_estimate_and_draw", self_ty="&mut BarState")
        ex = S.Exec(fn)
        paths = ex.run(want_call=r"BarState::draw$")
        cyc = S.in_cycle_blocks(fn)
        tick_in_loop = any(re.search(r"ProgressTracker>::tick\(", s_) for bb in cyc for s_ in fn.blocks.get(bb, []))
        over_map = any("values_mut" in e[1] for p in paths for e in p.events if e[0] == "call")
        if not paths or not tick_in_loop or not over_map:
            problems.append("update_estimate_and_draw does not tick the trackers of format_map in a loop before drawing")
        # every path to the draw that entered the loop body ticked with (&self.state, now)
        # T2: every updating method reaches update_estimate_and_draw on every path
        for meth in ("tick", "set_length", "inc_length", "dec_length", "unset_length"):
            f = mir.find(meth, self_ty="&mut BarState")
            nfn += 1
            rets = S.Exec(f).run(want_return=True)
            for p in rets:
                if not any(e[1].endswith("BarState::update_estimate_and_draw") for e in p.events if e[0] == "call"):
                    problems.append("BarState::%s has a path that does not reach update_estimate_and_draw" % meth)
                    break
        # T3: reset resets every tracker
        f = mir.find("reset", self_ty="&mut BarState")
        cyc = S.in_cycle_blocks(f)
        if not any(re.search(r"ProgressTracker>::reset\(", s_) for bb in cyc for s_ in f.blocks.get(bb, [])):
            problems.append("BarState::reset does not reset the trackers of format_map in a loop")
    except M.Unsupported as e:
        return [{"name": "custom keys follow the bar (MIR structure)", "verdict": "BROKEN", "why": str(e), "wall_s": 0}]
    label = "custom keys: update_estimate_and_draw ticks every tracker before drawing, %d updating methods reach it on every path, reset() resets every tracker" % nfn
    if not problems:
        return [{"name": label, "verdict": "PASS", "bounds": "every acyclic MIR path of the listed BarState methods", "wall_s": 0}]
    differs, detail = native_trackers(root)
    if differs is True:
        return [{"name": "custom keys are not ticked / reset together with the bar", "verdict": "FAIL", "why": "%s; native run: %s" % (problems[0], detail), "replayed": True,
                 "replay_path": _art("trackers", {"property": "C11", "key": "custom", "what": problems[0], "native": detail}), "wall_s": 0}]
    return [{"name": label, "verdict": "INCONCLUSIVE", "why": "%s; the native run %s" % (problems[0], "found every tracker ticked once per update and reset once per reset" if differs is False else "could not be run: " + str(detail)[:200]), "wall_s": 0}]


def _art(tag, d):
    art_dir = os.path.join(OUT_DIR, "replays", "C11")
    os.makedirs(art_dir, exist_ok=True)
    art = os.path.join(art_dir, re.sub(r"\W+", "_", tag)[:80] + ".json")
    d["how"] = "bin/check C11 --replay <this file>: renders {key} for the recorded state through the real format_state and compares with the public formatter applied to the getter"
    with open(art, "w") as fh:
        json.dump(d, fh, indent=1)
    return art


def replay(path):
    d = json.load(open(path))
    root = common.scratch_root()
    if "corpus" in d:
        differs, detail = native_key_corpus(root, d["key"])
        say(detail)
        return 2 if differs is None else (1 if differs else 0)
    if "native" in d:
        differs, detail = native_trackers(root)
        say(detail)
        return 2 if differs is None else (1 if differs else 0)
    if "pos" in d:
        differs, detail = native_replay(root, d["key"], d["pos"], d.get("len"))
        say("{%s} pos=%s len=%s: %s" % (d["key"], d["pos"], d.get("len"), detail))
        return 2 if differs is None else (1 if differs else 0)
    r = run("quick", None)
    hit = [q for q in r["queries"] if q["verdict"] == "FAIL" and ("{%s}" % d["key"]) in q["name"]]
    say("still flagged" if hit else "no longer flagged")
    return 1 if hit else 0
