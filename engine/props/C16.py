"""C16 (engine M part) — tab-width arithmetic in the expansion code is total for every legal width, 0 included.

The Kani harnesses of C16 decide WHAT the expansion produces through byte-wise models of str::replace / str::repeat (std's
CharSearcher / memchr is out of CBMC's reach). An expansion rewritten around other string primitives (split / matches / extend)
leaves those harnesses without a verdict (out of memory), so the one thing such a rewrite typically adds -- integer arithmetic on
the tab width (`tab_width - 1` extra columns per tab, ...) -- is decided here on the MIR of the current tree:

  in TabExpandedString::expanded (and its closures), TabExpandedString::set_tab_width, BarState::set_tab_width,
  ProgressStyle::set_tab_width, Template::set_tab_width and TabRewriter::write_str, every overflow-checked operation
  (Add/Sub/MulWithOverflow + assert) whose operands are tab-width inputs (a usize loaded through a reference, a field or a
  parameter -- not the result of a computation or a call) or constants cannot overflow for any width in 0..=MAXW.

The overflow condition is a query over the operands (z3 and cvc5); a model is replayed natively (dev profile, as the property's
`every tab width including 0` is stated for the code users build) through TabExpandedString / ProgressBar / TabRewriter with the
width of the model, and only a replay that panics or renders a wrong expansion is reported. Overflow checks whose operands are
computed values (string lengths, tab counts) are listed, not decided: their ranges depend on the text, which engine M does not model.
"""
import json
import os
import re
import sys
import time

sys.path.insert(0, os.path.dirname(os.path.dirname(os.path.abspath(__file__))))
import common  # noqa: E402
import mirsmt as M  # noqa: E402
import panicscan as P  # noqa: E402
from common import OUT_DIR, say  # noqa: E402
from props.C05 import dump_mir, native_test  # noqa: E402

MAXW = 64
SCOPE = re.compile(r"^(state::expanded(::\{closure#\d+\})*|state::set_tab_width|style::set_tab_width|style::write_str)$")
OVF = re.compile(r"^(_\d+) = (Add|Sub|Mul)WithOverflow\((?:copy |move )?(_\d+|const \d+_usize), (?:copy |move )?(_\d+|const \d+_usize)\);$")

REPLAY_TEST = r'''
#[cfg(test)]
mod verif_c16_replay {
    use super::*;
    use std::fmt::Write as _;

    #[test]
    fn verif_c16_tab_arith() {
        let tw: usize = std::env::var("VERIF_C16_TW").unwrap().parse().unwrap();
        let want = format!("a{}b", " ".repeat(tw));
        let r = std::panic::catch_unwind(|| {
            let mut ok = true;
            let t = crate::state::TabExpandedString::new("a\tb".into(), tw);
            ok &= t.expanded() == want;
            let mut t2 = crate::state::TabExpandedString::new("a\tb".into(), 3);
            t2.set_tab_width(tw);
            ok &= t2.expanded() == want;
            let pb = crate::ProgressBar::hidden().with_tab_width(tw).with_message("a\tb").with_prefix("a\tb");
            ok &= pb.message() == want && pb.prefix() == want;
            pb.set_tab_width(3);
            pb.set_tab_width(tw);
            ok &= pb.message() == want && pb.prefix() == want;
            let mut out = String::new();
            TabRewriter(&mut out, tw).write_str("a\tb").unwrap();
            ok &= out == want;
            ok
        });
        match r {
            Ok(ok) => println!("REPLAY tw={} panics=false wrong={}", tw, !ok),
            Err(_) => println!("REPLAY tw={} panics=true wrong=false", tw),
        }
    }
}
'''


def native(root, tw):
    import props.C05 as C05
    old = C05.ENV
    C05.ENV = dict(old, VERIF_C16_TW=str(tw))
    try:
        rc, out = native_test(root, "style.rs", REPLAY_TEST, "verif_c16_tab_arith", timeout=900)
    finally:
        C05.ENV = old
    m = re.search(r"REPLAY tw=(\d+) panics=(true|false) wrong=(true|false)", out)
    if not m:
        return None, out[-600:]
    return (m.group(2) == "true" or m.group(3) == "true"), "tab width %s: %s" % (m.group(1), "panics" if m.group(2) == "true" else ("wrong expansion" if m.group(3) == "true" else "expands correctly"))


def input_locals(fn):
    """usize locals that are plain loads (through a reference, a field or a parameter): candidates for `the tab width`.
    A local assigned more than once, or assigned from anything else, is not an input."""
    ty = dict(fn.local_ty)
    assigns = {}
    for bb, stmts in fn.blocks.items():
        for s in stmts:
            m = re.match(r"^(_\d+) = (.*?);?$", s)
            if m:
                assigns.setdefault(m.group(1), []).append(m.group(2))
    inputs = set(p for p, t in fn.params if t.strip() == "usize")

    def is_load(rhs):
        rhs = rhs.rstrip(";")
        if re.match(r"^(?:copy|move) \(\*_\d+\)$", rhs):
            return True
        if re.match(r"^(?:copy|move) \(.*: usize\)$", rhs):  # field projection typed usize
            return True
        m = re.match(r"^(?:copy|move) (_\d+)$", rhs)
        if m:
            return m.group(1) in inputs or (len(assigns.get(m.group(1), [])) == 1 and is_load(assigns[m.group(1)][0]))
        return False

    for loc, rs in assigns.items():
        if ty.get(loc, "").strip() == "usize" and len(rs) == 1 and is_load(rs[0]):
            inputs.add(loc)
    return inputs


def scan(fn, stats):
    """-> (decided candidates [(bb, stmt, op, a, b, model)], undecided [(bb, stmt)], n overflow checks)"""
    inputs = input_locals(fn)
    cands, undecided, n = [], [], 0
    for bb, stmts in fn.blocks.items():
        for s in stmts:
            m = OVF.match(s)
            if not m:
                continue
            n += 1
            op, a, b = m.group(2), m.group(3), m.group(4)

            def term(x):
                if x.startswith("const "):
                    return str(int(x.split()[1].split("_")[0])), None
                if x in inputs:
                    return "w" + x[1:], x
                return None, None

            ta, va = term(a)
            tb, vb = term(b)
            if ta is None or tb is None:
                undecided.append((bb, s))
                continue
            if P.path_to(fn, bb) is None:
                continue
            vs = sorted(set("w" + v[1:] for v in (va, vb) if v))
            decls = ["(declare-const %s Int)" % v for v in vs]
            asserts = ["(assert (and (<= 0 %s) (<= %s %d)))" % (v, v, MAXW) for v in vs]
            if op == "Sub":
                asserts.append("(assert (< (- %s %s) 0))" % (ta, tb))
            elif op == "Add":
                asserts.append("(assert (>= (+ %s %s) 18446744073709551616))" % (ta, tb))
            else:
                asserts.append("(assert (>= (* %s %s) 18446744073709551616))" % (ta, tb))
            t0 = time.time()
            r = M.solve(decls, asserts, get_values=vs or None, timeout=20)
            stats["n"] = stats.get("n", 0) + 1
            stats["s"] = stats.get("s", 0.0) + time.time() - t0
            if r["verdict"] == "sat":
                cands.append((bb, s, op, a, b, r["model"]))
            elif r["verdict"] != "unsat":
                undecided.append((bb, s + "  [solver: %s]" % r["verdict"]))
    return cands, undecided, n


def run(tier, logdir):
    root = common.scratch_root()
    queries, enc, assumptions = [], [], []
    try:
        mir, dt = dump_mir(root)
        fns = [f for f in mir.fns if SCOPE.match(P.short(f.name))]
        names = sorted(set(P.short(f.name) for f in fns))
        if not any(n.startswith("state::expanded") for n in names) or "style::write_str" not in names:
            raise M.Unsupported("expansion functions not found in the MIR dump: %s" % names)
        stats = {}
        cands, undec, nchecks = [], [], 0
        for f in fns:
            c, u, n = scan(f, stats)
            nchecks += n
            cands += [(P.short(f.name),) + x for x in c]
            undec += [(P.short(f.name),) + x for x in u]
        if undec:
            assumptions.append("engine M part: overflow checks on computed values (text lengths, tab counts) are not decided: " + "; ".join("%s %s `%s`" % (u[0], u[1], u[2][:70]) for u in undec[:8]))
        name = "tab-width arithmetic cannot overflow for widths 0..=%d: %d functions, %d overflow checks, %d solver queries" % (MAXW, len(fns), nchecks, stats.get("n", 0))
        if not cands:
            queries.append({"name": name, "verdict": "PASS", "bounds": "every tab width 0..=%d; operands that are tab-width inputs or constants" % MAXW,
                            "wall_s": round(stats.get("s", 0.0), 2), "solver": {"z3+cvc5": "overflow condition"}})
        else:
            t0 = time.time()
            confirmed = None
            notes = []
            for fnname, bb, s, op, a, b, model in cands:
                tw = sorted(model.values())[0] if model else 0
                bad, why = native(root, tw)
                notes.append("%s %s `%s` (width %s): %s" % (fnname, bb, s[:70], tw, why))
                if bad:
                    confirmed = (fnname, bb, s, tw, why)
                    break
            if confirmed:
                fnname, bb, s, tw, why = confirmed
                art_dir = os.path.join(OUT_DIR, "replays", "C16")
                os.makedirs(art_dir, exist_ok=True)
                art = os.path.join(art_dir, "tab_width_arith.json")
                with open(art, "w") as fh:
                    json.dump({"property": "C16", "tab_width": tw, "site": {"fn": fnname, "bb": bb, "stmt": s},
                               "how": "bin/check C16 --replay <this file>: expands \"a\\tb\" with this tab width through TabExpandedString, ProgressBar::{with_tab_width,set_tab_width,message,prefix} and TabRewriter natively against the current tree"}, fh, indent=1)
                queries.append({"name": "expansion with tab width %d" % tw, "verdict": "FAIL",
                                "why": "%s: `%s` overflows for tab width %d (solver model); native replay: %s" % (fnname, s[:90], tw, why),
                                "replayed": True, "replay_path": art, "wall_s": round(time.time() - t0, 1)})
            else:
                queries.append({"name": name, "verdict": "INCONCLUSIVE", "why": "overflow candidates not confirmed natively: " + "; ".join(notes)[:600], "wall_s": round(time.time() - t0, 1)})
        # witness: the scan flags a planted `tab_width - 1`
        planted = M.MirFn("fn planted(_1: &usize) -> usize {", "state::planted", [("_1", "&usize")], "usize", [
            "    let mut _2: usize;", "    let mut _3: (usize, bool);", "",
            "    bb0: {", "        _2 = copy (*_1);", "        _3 = SubWithOverflow(copy _2, const 1_usize);",
            "        assert(!move (_3.1: bool), \"attempt to compute `{} - {}`, which would overflow\", move _2, const 1_usize) -> [success: bb1, unwind continue];", "    }", "",
            "    bb1: {", "        _0 = move (_3.0: usize);", "        return;", "    }"])
        c, _, _ = scan(planted, {})
        okw = len(c) == 1 and (sorted(c[0][5].values()) or [None])[0] == 0
        queries.append({"name": "witness: a planted `tab_width - 1` is flagged with width 0", "verdict": "PASS" if okw else "BROKEN", "why": "" if okw else "planted site not recognised: %r" % (c,), "wall_s": 0})
        enc = names
    except (M.Unsupported, KeyError, IndexError, AttributeError) as e:
        queries.append({"name": "MIR tab-width arithmetic analysis", "verdict": "BROKEN", "why": "%s: %s" % (type(e).__name__, e), "wall_s": 0})
    return {"queries": queries, "assumptions": assumptions, "encodes": enc,
            "bounds": ["engine M (tab-width arithmetic): tab widths 0..=%d, every overflow-checked operation over tab-width inputs and constants in the expansion functions" % MAXW]}


def replay(path):
    d = json.load(open(path))
    root = common.scratch_root()
    bad, why = native(root, d["tab_width"])
    say("native replay: " + str(why))
    if bad is None:
        return 2
    return 1 if bad else 0
