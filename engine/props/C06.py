"""C06 (engine M part) — every terminal write passes one gate, and the gate is shut for hidden / non-tty targets.

Decided on the MIR of the current tree, for the whole library (all call histories, all arguments):

  (a) TermLike / console::Term OUTPUT methods (write_line, write_str, clear_line, flush, move_cursor_*) are called only from
      DrawState::draw_to_term (and from the `impl TermLike for Term` forwarding shims);
  (b) draw_to_term is called only from methods of Drawable;
  (c) Drawable::Term / Drawable::TermLike values are constructed only in ProgressDrawTarget::drawable (Drawable::Multi also in
      disconnect, which hands over to MultiState::clear -> its own drawable());
  (e) no function of the library branches on the result of an is_hidden() call (hidden-ness acts only through the gate); a
      branch is a candidate that is reported only after a native differential run (hidden vs. visible bar, every single
      operation and every ordered pair of operations, all getters compared) shows a difference;
  (d) in ProgressDrawTarget::drawable, symbolically executed path by path with the branch conditions as SMT terms (z3 and cvc5):
      no path constructs a Drawable while the target kind is Hidden, and no path constructs Drawable::Term unless
      Term::is_term() was called on it and returned true -- whatever force_draw and the rate limiter say.

Together: a bar or MultiProgress whose target is hidden, or a console::Term that is not a tty, never reaches a terminal write.
The state-equivalence half of C06 is decided by the Kani harnesses (same reference model as the visible bar in C07).
"""
import json
import os
import re
import sys
import time

sys.path.insert(0, os.path.dirname(os.path.dirname(os.path.abspath(__file__))))
import common  # noqa: E402
import mirsmt as M  # noqa: E402
import panicscan as P  # noqa: E402
from common import OUT_DIR, say  # noqa: E402
from props.C05 import dump_mir  # noqa: E402
from props.C08 import CALL_RE  # noqa: E402

TERM_OP = re.compile(r"(?:TermLike>::|Term::)(write_line|write_str|clear_line|flush|move_cursor_up|move_cursor_down|move_cursor_left|move_cursor_right|write_all|clear_last_lines|clear_to_end_of_screen|clear_screen)$")
DRAWABLE_CTOR = re.compile(r"= Drawable::<'_>::(Term|TermLike|Multi) \{|= Drawable::(Term|TermLike|Multi) \{")


def callee_of(s):
    c = CALL_RE.match(s)
    return c.group(2).strip() if c else None


def sym_paths(fn):
    """Path-by-path symbolic execution of a loop-free function: -> list of (conds, events); conds = list of SMT bool strings"""
    out = []
    decls = set()

    def term_of(env, op):
        op = op.strip()
        m = re.match(r"^(?:copy|move) (_\d+)$", op)
        if m:
            return env.get(m.group(1), fresh("u" + m.group(1)))
        if op == "const true":
            return "1"
        if op == "const false":
            return "0"
        m = re.match(r"^const (\d+)_\w+$", op)
        if m:
            return m.group(1)
        return fresh("x")

    cnt = [0]

    def fresh(base):
        cnt[0] += 1
        n = re.sub(r"\W", "_", base)[:60] + "_%d" % cnt[0]
        decls.add(n)
        return n

    def sym(name):
        n = re.sub(r"\W", "_", name)[:60]
        decls.add(n)
        return n

    work = [("bb0", {}, [], [], 0)]
    params = [p for p, _ in fn.params]
    while work:
        bb, env, conds, events, depth = work.pop()
        if depth > 200:
            raise M.Unsupported("path too long in %s (loop?)" % fn.name)
        env = dict(env)
        for p in params:
            env.setdefault(p, sym("arg" + p))
        conds = list(conds)
        events = list(events)
        nxt = None
        for s in fn.blocks.get(bb, []):
            m = DRAWABLE_CTOR.search(s)
            if m:
                events.append(("ctor", m.group(1) or m.group(2)))
            c = CALL_RE.match(s)
            if c:
                dst, callee, tgt = c.group(1).strip(), c.group(2).strip(), c.group(4)
                short = re.sub(r"::<.*?>", "", callee)
                # one symbol per (callee) on a path: the result of Term::is_term etc.
                v = sym("ret_" + short)
                events.append(("call", short))
                if re.match(r"^_\d+$", dst):
                    env[dst] = v
                nxt = [(tgt, None)]
                break
            m = re.match(r"^(_\d+) = discriminant\((.*)\);$", s)
            if m:
                env[m.group(1)] = sym("disc_" + m.group(2))
                continue
            m = re.match(r"^(_\d+) = (const \S+|(?:copy|move) _\d+);$", s)
            if m:
                env[m.group(1)] = term_of(env, m.group(2))
                continue
            m = re.match(r"^(_\d+) = ", s)
            if m:
                env[m.group(1)] = fresh("v" + m.group(1))
                continue
            sw = re.match(r"^switchInt\((.*?)\) -> \[(.*)\];$", s)
            if sw:
                t = term_of(env, sw.group(1))
                arms = [[x.strip() for x in a.split(":")] for a in sw.group(2).split(",")]
                explicit = [k for k, _ in arms if k != "otherwise"]
                nxt = []
                for k, tgt in arms:
                    if k == "otherwise":
                        cond = "(and %s)" % " ".join("(not (= %s %s))" % (t, e) for e in explicit) if explicit else "true"
                    else:
                        cond = "(= %s %s)" % (t, k)
                    nxt.append((tgt, cond))
                break
            g = re.match(r"^goto -> (bb\d+);$", s)
            if g:
                nxt = [(g.group(1), None)]
                break
            d = re.match(r"^drop\(.*\) -> \[return: (bb\d+)", s)
            if d:
                nxt = [(d.group(1), None)]
                break
            a = re.match(r"^assert\(.*\) -> \[success: (bb\d+)", s)
            if a:
                nxt = [(a.group(1), None)]
                break
            if s == "return;":
                out.append((conds, events))
                nxt = []
                break
            if s.startswith("unreachable"):
                nxt = []
                break
        for tgt, cond in (nxt or []):
            work.append((tgt, env, conds + ([cond] if cond else []), events, depth + 1))
    return out, sorted(decls)


def variant_index(src, enum, variant):
    m = re.search(r"enum %s\s*\{(.*?)\n\}" % enum, src, re.S)
    if not m:
        raise M.Unsupported("enum %s not found" % enum)
    names = re.findall(r"^\s{4}(\w+)\s*(?:\{|,|\()", m.group(1), re.M)
    return names.index(variant)


def run(tier, logdir):
    root = common.scratch_root()
    queries = []
    enc = []
    assumptions = [
        "engine M part: structural facts (a)-(c) are read off the MIR call sites of the whole library; calls through `dyn TermLike` appear as <dyn TermLike as TermLike>::method and are counted; user implementations of TermLike are outside the library",
        "(d): ProgressDrawTarget::drawable is executed path by path; results of callees (Term::is_term, RateLimiter::allow, Option::map_or) are uninterpreted symbols, so the verdict holds whatever they return",
    ]
    try:
        mir, dt = dump_mir(root)
        src = open(os.path.join(common.REPO, "src", "draw_target.rs")).read()
        t0 = time.time()
        bad_a, bad_b, bad_c = [], [], []
        n_ops = n_dtt = n_ctor = 0
        for f in mir.fns:
            name = P.short(f.name)
            if "verif" in name or "::tests::" in name or name.startswith("in_memory"):
                continue
            for bb, stmts in f.blocks.items():
                for s in stmts:
                    cal = callee_of(s)
                    if cal and TERM_OP.search(re.sub(r"::<.*?>", "", cal)):
                        n_ops += 1
                        if not (name.endswith("::draw_to_term") or name.startswith("term_like::")):
                            bad_a.append((name, s))
                    if cal and re.sub(r"::<.*?>", "", cal).endswith("draw_to_term"):
                        n_dtt += 1
                        if "Drawable" not in (f.params[0][1] if f.params else ""):
                            bad_b.append((name, s))
                    m = DRAWABLE_CTOR.search(s)
                    if m:
                        n_ctor += 1
                        v = m.group(1) or m.group(2)
                        ok = name == "draw_target::drawable" or (v == "Multi" and name == "draw_target::disconnect")
                        if not ok:
                            bad_c.append((name, s))

        def artefact(tag, d):
            art_dir = os.path.join(OUT_DIR, "replays", "C06")
            os.makedirs(art_dir, exist_ok=True)
            art = os.path.join(art_dir, re.sub(r"\W+", "_", tag)[:100] + ".json")
            d["how"] = "bin/check C06 --replay <this file>: re-runs the analysis on the current tree"
            with open(art, "w") as fh:
                json.dump(d, fh, indent=1)
            return art

        # (a)-(c) over the call graph: a function is BEHIND THE GATE if it is a method of Drawable, or if it has callers in the
        # library and every one of them is behind the gate (helpers of draw_to_term, draw_to_term itself). Every function that
        # calls a terminal output method must be behind the gate; the `impl TermLike for Term` shims are the terminal itself.
        import props.C08 as C08
        an = C08.Analysis(mir)
        callers = {}
        for name, fn in an.fns.items():
            if "verif" in name or "::tests::" in name:
                continue
            for bb, stmts in fn.blocks.items():
                for s_ in stmts:
                    c = CALL_RE.match(s_)
                    if not c:
                        continue
                    tgt = an.resolve(c.group(2).strip(), len(M.split_top(c.group(3))) if c.group(3).strip() else 0)
                    if tgt is not None:
                        callers.setdefault(tgt.name, set()).add(name)
        memo = {}

        def gated(name, stack=()):
            if name in memo:
                return memo[name]
            fn = an.fns[name]
            first = fn.f.params[0][1] if fn.f.params else ""
            if "Drawable" in first:
                memo[name] = True
                return True
            if name in stack:
                return True  # a cycle is as gated as its entries
            cs = callers.get(name, set())
            ok = bool(cs) and all(gated(c, stack + (name,)) for c in cs)
            memo[name] = ok
            return ok
        term_fns = sorted(set(P.short(n) for n, _ in bad_a) | set())
        ungated = []
        n_term_fns = 0
        for name, fn in an.fns.items():
            sname = P.short(name)
            if "verif" in name or "::tests::" in name or sname.startswith(("in_memory", "term_like")):
                continue
            has = any(callee_of(s_) and TERM_OP.search(re.sub(r"::<.*?>", "", callee_of(s_))) for st in fn.blocks.values() for s_ in st)
            if has:
                n_term_fns += 1
                if not gated(name):
                    ungated.append((sname, sorted(P.short(c) for c in callers.get(name, set()))))
        label_abc = "(a)-(c) every function that calls a terminal output method is behind the gate (a Drawable method, or only called from behind it); %d such functions, %d output call sites" % (n_term_fns, n_ops)
        if n_ops == 0:
            queries.append({"name": label_abc, "verdict": "VACUOUS", "why": "no terminal output calls found in the MIR: the code structure changed", "wall_s": 0})
        elif not ungated:
            queries.append({"name": label_abc, "verdict": "PASS", "bounds": "call graph of the whole library (calls through closures / trait objects other than TermLike are not followed)", "wall_s": 0})
        for sname, cs in ungated[:3]:
            art = artefact("ungated_" + sname, {"property": "C06", "rule": "(a)-(c)", "function": sname, "callers": cs})
            queries.append({"name": "(a)-(c): %s calls a terminal output method and is reachable without passing the gate" % sname, "verdict": "FAIL",
                            "why": "callers: %s" % (", ".join(cs) or "none inside the library (entry point)"), "replayed": True, "replay_path": art, "wall_s": 0})
        # Drawable values are built only by the gate itself
        if n_ctor == 0:
            queries.append({"name": "(c) Drawable constructions", "verdict": "VACUOUS", "why": "no Drawable construction found", "wall_s": 0})
        elif not bad_c:
            queries.append({"name": "(c) Drawable values are constructed only in ProgressDrawTarget::drawable (Multi: also disconnect) (%d sites)" % n_ctor, "verdict": "PASS", "bounds": "every function of the library", "wall_s": 0})
        for name, s_ in bad_c[:3]:
            art = artefact("ctor_" + name, {"property": "C06", "rule": "(c)", "function": name, "statement": s_})
            queries.append({"name": "(c): a Drawable is constructed outside the gate, in %s" % name, "verdict": "FAIL", "why": "at `%s`" % s_[:140], "replayed": True, "replay_path": art, "wall_s": 0})

        # (e) hidden-ness influences behaviour only through drawable(): no function branches on an is_hidden() result.
        #     A branch is only a CANDIDATE (skipping rendering work would be harmless); it is reported after the native
        #     differential run (hidden bar vs. visible bar, same calls, compare every getter) shows a difference.
        cand_e = []
        for f in mir.fns:
            name = P.short(f.name)
            if "verif" in name or "::tests::" in name or name.startswith("in_memory"):
                continue
            hidden_locals = set()
            for bb, stmts in f.blocks.items():
                for s_ in stmts:
                    cal = callee_of(s_)
                    if cal and re.sub(r"::<.*?>", "", cal).endswith("::is_hidden"):
                        c = CALL_RE.match(s_)
                        hidden_locals.add(c.group(1).strip())
            changed = True
            while changed:  # copies / negations of the result
                changed = False
                for bb, stmts in f.blocks.items():
                    for s_ in stmts:
                        m = re.match(r"^(_\d+) = (?:Not\()?(?:copy|move) (_\d+)\)?;$", s_)
                        if m and m.group(2) in hidden_locals and m.group(1) not in hidden_locals:
                            hidden_locals.add(m.group(1))
                            changed = True
            for bb, stmts in f.blocks.items():
                for s_ in stmts:
                    m = re.match(r"^switchInt\((?:copy|move) (_\d+)\)", s_)
                    if m and m.group(1) in hidden_locals:
                        cand_e.append((name, s_))
        label_e = "(e) no function branches on is_hidden(): hidden-ness acts only through drawable()"
        if not cand_e:
            queries.append({"name": label_e, "verdict": "PASS", "bounds": "every function of the library", "wall_s": 0})
        else:
            differs, detail = native_differential(root)
            if differs is True:
                art = artefact("hidden_vs_visible", {"property": "C06", "rule": "(e)", "function": cand_e[0][0], "statement": cand_e[0][1], "native": detail})
                queries.append({"name": "%s branches on is_hidden() and a hidden bar's logical state differs from a visible bar's" % cand_e[0][0], "verdict": "FAIL",
                                "why": detail, "replayed": True, "replay_path": art, "wall_s": 0})
            else:
                queries.append({"name": label_e, "verdict": "INCONCLUSIVE", "why": "%s branches on is_hidden() (`%s`); the native differential run %s" % (
                    cand_e[0][0], cand_e[0][1][:80], "found no difference between a hidden and a visible bar" if differs is False else "could not be run: " + str(detail)[:300]), "wall_s": 0})

        fn = mir.find("drawable", self_ty="ProgressDrawTarget")
        paths, decls = sym_paths(fn)
        hidden = variant_index(src, "TargetKind", "Hidden")
        term_k = variant_index(src, "TargetKind", "Term")
        dl = ["(declare-const %s Int)" % d for d in decls]
        disc = [d for d in decls if d.startswith("disc_")]
        if len(disc) != 1:
            raise M.Unsupported("expected exactly one discriminant read in drawable, got %s" % disc)
        kind = disc[0]
        nq = 0
        tsol = 0.0
        viol = []
        soft = []
        feas_term = False
        for conds, events in paths:
            ctors = [e[1] for e in events if e[0] == "ctor"]
            calls = [e[1] for e in events if e[0] == "call"]
            base = ["(assert %s)" % c for c in conds]
            if ctors:
                r = M.solve(dl, base + ["(assert (= %s %d))" % (kind, hidden)], timeout=20)
                nq += 1
                tsol += r.get("time", 0) or 0
                if r["verdict"] == "sat":
                    viol.append(("a Drawable::%s is offered although the target kind is Hidden" % ctors[0], conds))
                elif r["verdict"] != "unsat":
                    raise M.Unsupported("solver verdict %s" % r["verdict"])
            if "Term" in ctors:
                istty = [d for d in decls if d.startswith("ret_Term__is_term") or d == "ret_Term__is_term"]
                called = any(c.endswith("Term::is_term") for c in calls)
                extra = ["(assert (= %s 0))" % istty[0]] if (called and istty) else []
                r = M.solve(dl, base + extra, timeout=20)
                nq += 1
                if r["verdict"] == "sat":
                    guarded_otherwise = (not called) and any("place_" in c or "ret_" in c for c in conds)
                    if guarded_otherwise:
                        # is_term() is not called on the path but the path is guarded by some other value (e.g. a cached flag): this
                        # analysis cannot tell whether that value stands for "is a tty"
                        soft.append(("Drawable::Term is offered on a path that does not call Term::is_term() but is guarded by another value", conds))
                    else:
                        viol.append(("Drawable::Term is offered on a path where Term::is_term() %s" % ("returned false" if called else "is not consulted"), conds))
                elif r["verdict"] != "unsat":
                    raise M.Unsupported("solver verdict %s" % r["verdict"])
                r2 = M.solve(dl, base + (["(assert (not (= %s 0)))" % istty[0]] if istty else []), timeout=20)
                nq += 1
                feas_term = feas_term or r2["verdict"] == "sat"
        label = "(d) drawable(): no Drawable for a Hidden target, Drawable::Term only after is_term() == true (%d paths, %d queries)" % (len(paths), nq)
        if not feas_term:
            queries.append({"name": label, "verdict": "VACUOUS", "why": "no feasible path constructs Drawable::Term: the structure of drawable() changed", "wall_s": 0})
        elif soft and not viol:
            queries.append({"name": label, "verdict": "INCONCLUSIVE", "why": soft[0][0] + ": " + " ".join(soft[0][1])[:200], "wall_s": 0})
        elif not viol:
            queries.append({"name": label, "verdict": "PASS", "bounds": "every path of ProgressDrawTarget::drawable, callee results uninterpreted", "wall_s": round(time.time() - t0, 2), "solver": {"z3+cvc5": "QF_LIA"}})
        for what, conds in viol[:3]:
            art = artefact("drawable_" + what[:40], {"property": "C06", "rule": "(d)", "function": "draw_target::drawable", "what": what, "path_condition": conds})
            queries.append({"name": "drawable(): " + what, "verdict": "FAIL", "why": "path condition: " + " ".join(conds)[:300], "replayed": True, "replay_path": art, "wall_s": 0})
        enc = ["draw_target::ProgressDrawTarget::drawable (path-wise symbolic execution)", "call sites of every library function (rules a-c)"]
    except (M.Unsupported, KeyError, IndexError, AttributeError, ValueError) as e:
        queries.append({"name": "MIR terminal-gate analysis", "verdict": "BROKEN", "why": "%s: %s" % (type(e).__name__, e), "wall_s": 0})
    return {"queries": queries, "assumptions": assumptions, "encodes": enc, "bounds": ["engine M (terminal gate): all call sites of the library; every path of ProgressDrawTarget::drawable"]}


DIFF_TEST = r'''
#[cfg(test)]
mod verif_c06_differential {
    use crate::{InMemoryTerm, ProgressBar, ProgressDrawTarget, ProgressStyle};

    fn snapshot(pb: &ProgressBar) -> String {
        format!("pos={} len={:?} finished={} msg={:?} prefix={:?}", pb.position(), pb.length(), pb.is_finished(), pb.message(), pb.prefix())
    }

    #[test]
    fn verif_c06_hidden_vs_visible() {
        type Op = (&'static str, fn(&ProgressBar));
        let ops: Vec<Op> = vec![
            ("inc(3)", |p| p.inc(3)),
            ("set_position(7)", |p| p.set_position(7)),
            ("set_length(9)", |p| p.set_length(9)),
            ("inc_length(2)", |p| p.inc_length(2)),
            ("dec_length(1)", |p| p.dec_length(1)),
            ("unset_length", |p| p.unset_length()),
            ("set_message(a<TAB>b)", |p| p.set_message("a\tb")),
            ("set_prefix(<TAB>p)", |p| p.set_prefix("\tp")),
            ("set_tab_width(3)", |p| p.set_tab_width(3)),
            ("set_style", |p| p.set_style(ProgressStyle::with_template("{prefix}|{msg}").unwrap())),
            ("tick", |p| p.tick()),
            ("println", |p| p.println("x")),
            ("suspend", |p| p.suspend(|| ())),
            ("reset", |p| p.reset()),
            ("reset_eta", |p| p.reset_eta()),
            ("finish_with_message(<TAB>z)", |p| p.finish_with_message("\tz")),
            ("abandon", |p| p.abandon()),
            ("finish_and_clear", |p| p.finish_and_clear()),
            ("finish", |p| p.finish()),
        ];
        // every operation alone, and every ordered pair of operations
        let mut n = 0u64;
        for i in 0..ops.len() {
            for j in 0..=ops.len() {
                let hidden = ProgressBar::with_draw_target(Some(10), ProgressDrawTarget::hidden());
                let visible = ProgressBar::with_draw_target(Some(10), ProgressDrawTarget::term_like(Box::new(InMemoryTerm::new(10, 80))));
                let mut desc = String::from(ops[i].0);
                (ops[i].1)(&hidden);
                (ops[i].1)(&visible);
                if j < ops.len() {
                    desc = format!("{desc}; {}", ops[j].0);
                    (ops[j].1)(&hidden);
                    (ops[j].1)(&visible);
                }
                n += 1;
                let (h, v) = (snapshot(&hidden), snapshot(&visible));
                if h != v {
                    println!("DIFFERENTIAL differs after [{desc}]: hidden {h} / visible {v}");
                    return;
                }
            }
        }
        println!("DIFFERENTIAL same histories={n}");
    }
}
'''


def native_differential(root):
    """-> (True differs / False same / None could not run, detail)"""
    from props.C05 import native_test
    try:
        rc, out = native_test(root, "lib.rs", DIFF_TEST, "verif_c06_hidden_vs_visible", timeout=900, features="in_memory")
    except Exception as e:  # noqa
        return None, repr(e)
    m = re.search(r"DIFFERENTIAL (differs|same) (.*)", out)
    if not m:
        pm = re.search(r"(error[^\n]*\n[^\n]*|panicked at [^\n]*\n[^\n]*)", out)
        return None, (pm.group(0) if pm else out[-400:])
    return (m.group(1) == "differs"), m.group(0)


def replay(path):
    d = json.load(open(path))
    if "native" in d:
        differs, detail = native_differential(common.scratch_root())
        say(detail)
        return 2 if differs is None else (1 if differs else 0)
    r = run("quick", None)
    hit = [q for q in r["queries"] if q["verdict"] == "FAIL" and (d.get("function", "") in q["name"] or d.get("what", "@@") in q["name"])]
    if hit:
        say("still flagged: %s" % hit[0]["name"])
        return 1
    say("no longer flagged")
    return 0
