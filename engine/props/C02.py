"""C02 (engine M part) — the rows handed over to the log when finished bars are reaped are the rows reaped in THIS draw.

The Kani harnesses of C02 decide insert / remove_idx / mark_zombie from any state of the slot invariant and MultiState::draw with ONE
member; the interior of MultiState::draw with two or more members exhausts CBMC's memory (DESIGN 8.2). The part of that interior
which decides whether a live bar below a reaped one is shown exactly once is the row hand-over after the paint:
`adjust_last_line_count(LineAdjust::Keep(n))` must receive the number of rows of the head zombies painted for the last time by this
very draw. Decided here on the MIR of the current tree:

  R1  in MultiState::draw every `LineAdjust::Keep(x)` takes x from a local VisualLines accumulator of this call (a local that is the
      target of `<VisualLines as AddAssign>::add_assign`), never from a field of the MultiState or another call's result
      (def chain; path feasibility of the site by z3 / cvc5);

A candidate is reported only after a native run of the reaping scenarios (three / four visibly finished bars dropped in and out of
order above a live bar that keeps redrawing; InMemoryTerm) shows a final rendering missing, duplicated or out of order.
"""
import json
import os
import re
import sys
import time

sys.path.insert(0, os.path.dirname(os.path.dirname(os.path.abspath(__file__))))
import common  # noqa: E402
import mirsmt as M  # noqa: E402
import panicscan as P  # noqa: E402
from common import OUT_DIR, say  # noqa: E402
from props.C05 import dump_mir, native_test  # noqa: E402
from props.C08 import CALL_RE  # noqa: E402

SCENARIO = r'''
#[cfg(test)]
mod verif_c02_reaping {
    use crate::{InMemoryTerm, MultiProgress, ProgressBar, ProgressDrawTarget, ProgressFinish, ProgressStyle};

    /// n finished bars above one live bar; the finished ones are dropped in the given order, the live one redraws in between
    fn scenario(n: usize, order: &[usize], redraw_between: bool) -> Option<String> {
        let term = InMemoryTerm::new(12, 30);
        let mp = MultiProgress::with_draw_target(ProgressDrawTarget::term_like(Box::new(term.clone())));
        let style = ProgressStyle::with_template("{msg}").unwrap();
        let mut bars: Vec<Option<ProgressBar>> = (0..n)
            .map(|i| Some(mp.add(ProgressBar::new(1).with_style(style.clone()).with_finish(ProgressFinish::AndLeave).with_message(format!("done{i}")))))
            .collect();
        let live = mp.add(ProgressBar::new(9).with_style(style.clone()).with_message("live"));
        for b in bars.iter().flatten() {
            b.tick();
        }
        live.tick();
        for &k in order {
            let b = bars[k].take().unwrap();
            b.finish();
            drop(b);
            if redraw_between {
                live.tick();
            }
        }
        for r in 0..3 {
            live.set_message(format!("live{r}"));
        }
        let want: Vec<String> = (0..n).map(|i| format!("done{i}")).chain(std::iter::once("live2".to_string())).collect();
        let got: Vec<String> = term.contents().lines().map(|l| l.trim_end().to_string()).collect();
        if got == want {
            None
        } else {
            Some(format!("n={n} order={order:?} redraw_between={redraw_between}: screen {got:?}, expected {want:?}"))
        }
    }

    #[test]
    fn verif_c02_reaping_scenarios() {
        let mut bad = Vec::new();
        let orders: [(usize, &[usize]); 8] = [(2, &[0, 1]), (2, &[1, 0]), (3, &[0, 1, 2]), (3, &[1, 0, 2]), (3, &[2, 1, 0]), (3, &[1, 2, 0]), (4, &[2, 0, 3, 1]), (4, &[3, 2, 1, 0])];
        for (n, order) in orders {
            for rb in [true, false] {
                if let Some(b) = scenario(n, order, rb) {
                    bad.push(b);
                }
            }
        }
        if bad.is_empty() {
            println!("REAPING intact");
        } else {
            println!("REAPING broken {}", bad.join(" | "));
        }
    }
}
'''


def native_scenario(root):
    try:
        rc, out = native_test(root, "lib.rs", SCENARIO, "verif_c02_reaping_scenarios", timeout=900, features="in_memory")
    except Exception as e:  # noqa
        return None, repr(e)
    m = re.search(r"REAPING (broken|intact)(.*)", out)
    if not m:
        pm = re.search(r"(error[^\n]*\n[^\n]*|panicked at [^\n]*\n[^\n]*)", out)
        return None, (pm.group(0) if pm else out[-300:])
    return (m.group(1) == "broken"), m.group(0)[:600]


def analyse(f):
    """-> (problems, n Keep sites, n accumulators)"""
    # accumulators: locals _L with `_r = &mut _L` and add_assign(move _r, ..)
    refs = {}
    for bb, stmts in f.blocks.items():
        for s in stmts:
            m = re.match(r"^(_\d+) = &mut (_\d+);$", s)
            if m:
                refs[m.group(1)] = m.group(2)
    acc = {}
    for bb, stmts in f.blocks.items():
        for s in stmts:
            c = CALL_RE.match(s)
            if c and re.search(r"<VisualLines as (?:std::ops::|core::ops::)?AddAssign>::add_assign$", c.group(2).strip()):
                a0 = M.split_top(c.group(3))[0].strip()
                m = re.match(r"^(?:copy|move) (_\d+)$", a0)
                if m and m.group(1) in refs:
                    acc.setdefault(refs[m.group(1)], []).append(bb)
    problems = []
    nkeep = 0
    for bb, stmts in f.blocks.items():
        for s in stmts:
            m = re.match(r"^(_\d+) = LineAdjust::Keep\((.*)\);$", s)
            if not m:
                continue
            p0 = P.path_to(f, bb)
            if p0 is None:
                continue
            known = p0[1]
            r = M.solve(["(declare-const flag_%s Int)" % re.sub(r"\W", "", k) for k in known],
                        ["(assert (= flag_%s %d))" % (re.sub(r"\W", "", k), v) for k, v in known.items()], timeout=20)
            if r["verdict"] == "unsat":
                continue
            nkeep += 1
            arg = m.group(2).strip()
            am = re.match(r"^(?:copy|move) (_\d+)$", arg)
            src = None
            if am:
                # follow plain copies of locals
                cur, hops = am.group(1), 0
                while hops < 10:
                    hops += 1
                    if cur in acc:
                        src = cur
                        break
                    d = [x for st in f.blocks.values() for x in st if re.match(r"^%s = " % re.escape(cur), x)]
                    if len(d) != 1:
                        break
                    mm = re.match(r"^%s = (?:copy|move) (_\d+);$" % re.escape(cur), d[0])
                    if not mm:
                        problems.append("LineAdjust::Keep in %s takes `%s` (not a row count accumulated in this draw)" % (bb, d[0][:110]))
                        src = "reported"
                        break
                    cur = mm.group(1)
            if src is None:
                problems.append("LineAdjust::Keep in %s takes `%s`, which is not a local VisualLines accumulator of this draw" % (bb, arg[:80]))
    return problems, nkeep, len(acc)


def run(tier, logdir):
    root = common.scratch_root()
    queries, enc = [], []
    assumptions = ["engine M part: only the row hand-over after reaping (R1) is decided on the MIR; what a multi draw paints is the subject of the Kani harnesses (one member) and, for two or more members, not decided"]
    try:
        mir, dt = dump_mir(root)
        t0 = time.time()
        f = mir.find("draw", self_ty="&mut MultiState")
        problems, nkeep, nacc = analyse(f)
        if nkeep == 0:
            raise M.Unsupported("MultiState::draw has no LineAdjust::Keep site any more: the reaping hand-over must be re-derived")
        label = "MultiState::draw hands over exactly the rows reaped in this draw: %d Keep site(s), %d local accumulator(s), %d MIR blocks" % (nkeep, nacc, len(f.blocks))
        if not problems:
            queries.append({"name": label, "verdict": "PASS", "bounds": "every non-unwind MIR path of MultiState::draw", "wall_s": round(time.time() - t0, 2)})
        else:
            broken, detail = native_scenario(root)
            if broken is True:
                art_dir = os.path.join(OUT_DIR, "replays", "C02")
                os.makedirs(art_dir, exist_ok=True)
                art = os.path.join(art_dir, "reaping.json")
                with open(art, "w") as fh:
                    json.dump({"property": "C02", "what": problems[0], "native": detail,
                               "how": "bin/check C02 --replay <this file>: re-runs the reaping scenarios natively against the current tree"}, fh, indent=1)
                queries.append({"name": "rows handed over after reaping are not the rows reaped in this draw", "verdict": "FAIL", "why": "%s; native run: %s" % (problems[0], detail), "replayed": True, "replay_path": art, "wall_s": round(time.time() - t0, 1)})
            else:
                queries.append({"name": label, "verdict": "INCONCLUSIVE", "why": "%s; the native reaping scenarios %s" % (problems[0], "show every bar once and in order" if broken is False else "could not be run: " + str(detail)[:200]), "wall_s": round(time.time() - t0, 1)})
        # witness: the rule flags a planted Keep(field)
        planted = M.MirFn("fn planted(_1: &mut MultiState) -> () {", "multi::planted", [("_1", "&mut MultiState")], "()", [
            "    let mut _2: draw_target::VisualLines;", "    let mut _3: draw_target::LineAdjust;", "",
            "    bb0: {", "        _2 = copy ((*_1).5: draw_target::VisualLines);", "        _3 = LineAdjust::Keep(move _2);", "        return;", "    }"])
        pp, nk, _ = analyse(planted)
        okw = nk == 1 and len(pp) == 1
        queries.append({"name": "witness: a planted Keep(self.field) is flagged", "verdict": "PASS" if okw else "BROKEN", "why": "" if okw else "planted site not recognised: %r" % (pp,), "wall_s": 0})
        enc = ["multi::MultiState::draw (reaping hand-over)"]
    except (M.Unsupported, KeyError, IndexError, AttributeError, ValueError) as e:
        queries.append({"name": "MIR reaping hand-over analysis", "verdict": "BROKEN", "why": "%s: %s" % (type(e).__name__, e), "wall_s": 0})
    return {"queries": queries, "assumptions": assumptions, "encodes": enc, "bounds": ["engine M (reaping hand-over): every LineAdjust::Keep site of MultiState::draw"]}


def replay(path):
    json.load(open(path))
    broken, detail = native_scenario(common.scratch_root())
    say(detail)
    return 2 if broken is None else (1 if broken else 0)
