"""C19 (engine M part) — the row accounting is kept in ROWS (wrapped lines), never in logical lines.

The Kani harnesses of C19 decide DrawState::draw_to_term for frames whose lines wrap or do not fit. The same unit must be
used wherever the library remembers how many rows something occupies outside draw_to_term: the zombie rows a MultiProgress
keeps on screen (mark_zombie, MultiState::draw), the rows handed to adjust_last_line_count, orphan lines. These live in
MultiState, which CBMC does not finish. Decided here on the MIR of the current tree:

  U1  no VisualLines value is built from a line COUNT: in every function of the library, the argument of
      <VisualLines as From<usize>>::from / <usize as Into<VisualLines>>::into is resolved along its def chain (path feasibility by
      z3 / cvc5); a `len()` of a vector / slice / string at the origin is a candidate;
  U2  MultiState::mark_zombie and MultiState::draw obtain the height of a member's frame from
      DrawState::visual_line_count (called with the terminal width), and the orphan lines' height from visual_line_count.

A candidate is reported only after a native run of the wrapped-zombie scenario (a finished head bar that wraps to several rows
is dropped while another bar keeps redrawing; InMemoryTerm) shows rows of the finished bar erased.
"""
import json
import os
import re
import sys
import time

sys.path.insert(0, os.path.dirname(os.path.dirname(os.path.abspath(__file__))))
import common  # noqa: E402
import mirsmt as M  # noqa: E402
import panicscan as P  # noqa: E402
from common import OUT_DIR, say  # noqa: E402
from props.C05 import dump_mir, native_test  # noqa: E402
from props.C08 import CALL_RE  # noqa: E402

SCENARIO = r'''
#[cfg(test)]
mod verif_c19_wrapped_zombie {
    use crate::{InMemoryTerm, MultiProgress, ProgressBar, ProgressDrawTarget, ProgressFinish, ProgressStyle};

    #[test]
    fn verif_c19_wrapped_zombie_rows_survive() {
        let mut bad = Vec::new();
        for (cols, w) in [(20usize, 21usize), (20, 40), (20, 41), (7, 15), (20, 20), (20, 5)] {
            let term = InMemoryTerm::new(10, cols as u16);
            let mp = MultiProgress::with_draw_target(ProgressDrawTarget::term_like(Box::new(term.clone())));
            let style = ProgressStyle::with_template("{msg}").unwrap();
            let head = mp.add(ProgressBar::new(1).with_style(style.clone()).with_finish(ProgressFinish::AndLeave).with_message("a".repeat(w)));
            let second = mp.add(ProgressBar::new(5).with_style(style.clone()).with_message("second"));
            head.tick();
            second.tick();
            head.finish();
            drop(head);
            for _ in 0..3 {
                second.tick();
            }
            let out = term.contents();
            let a_count = out.chars().filter(|c| *c == 'a').count();
            if a_count != w || !out.contains("second") {
                bad.push(format!("cols={cols} width={w}: {} of {w} cells of the finished bar left, screen {:?}", a_count, out));
            }
        }
        if bad.is_empty() {
            println!("WRAPPEDZOMBIE intact");
        } else {
            println!("WRAPPEDZOMBIE erased {}", bad.join(" | "));
        }
    }
}
'''


def native_scenario(root):
    try:
        rc, out = native_test(root, "lib.rs", SCENARIO, "verif_c19_wrapped_zombie_rows_survive", timeout=900, features="in_memory")
    except Exception as e:  # noqa
        return None, repr(e)
    m = re.search(r"WRAPPEDZOMBIE (erased|intact)(.*)", out)
    if not m:
        pm = re.search(r"(error[^\n]*\n[^\n]*|panicked at [^\n]*\n[^\n]*)", out)
        return None, (pm.group(0) if pm else out[-300:])
    return (m.group(1) == "erased"), m.group(0)[:500]


def resolve_origin(fn, local, depth=0, seen=None):
    """follow copies / moves / casts / field reads back to the defining call (callee name) or a constant"""
    seen = seen or set()
    if depth > 25 or local in seen:
        return "?"
    seen.add(local)
    defs = []
    for bb, stmts in fn.blocks.items():
        for s in stmts:
            c = CALL_RE.match(s)
            if c and c.group(1).strip() == local:
                defs.append(("call", re.sub(r"::<.*?>", "", c.group(2).strip())))
            else:
                m = re.match(r"^%s = (.*);$" % re.escape(local), s)
                if m:
                    defs.append(("assign", m.group(1)))
    out = []
    for kind, v in defs:
        if kind == "call":
            out.append(v)
        else:
            m = re.match(r"^(?:copy|move) (_\d+)(?: as \w+ \(\w+\))?$", v)
            if m:
                out.append(resolve_origin(fn, m.group(1), depth + 1, seen))
            elif v.startswith("const "):
                out.append("const")
            else:
                m = re.search(r"(_\d+)", v)
                out.append(resolve_origin(fn, m.group(1), depth + 1, seen) if m else "?")
    return "|".join(sorted(set(out))) if out else "param"


def run(tier, logdir):
    root = common.scratch_root()
    queries = []
    enc = []
    assumptions = ["engine M part: unit discipline of the row accounting outside draw_to_term (U1, U2); what draw_to_term does with wrapped and non-fitting lines is the subject of the Kani step harnesses"]
    try:
        mir, dt = dump_mir(root)
        t0 = time.time()
        cands = []
        nconv = 0
        for f in mir.fns:
            name = P.short(f.name)
            if "verif" in name or "::tests::" in name or name.startswith("in_memory"):
                continue
            for bb, stmts in f.blocks.items():
                for s in stmts:
                    c = CALL_RE.match(s)
                    if not c:
                        continue
                    cal = c.group(2).strip()
                    if not re.search(r"<VisualLines as From<usize>>::from$|<usize as Into<VisualLines>>::into$", cal):
                        continue
                    nconv += 1
                    arg = c.group(3).strip()
                    m = re.match(r"^(?:copy|move) (_\d+)$", arg)
                    origin = resolve_origin(f, m.group(1)) if m else ("const" if arg.startswith("const") else "?")
                    if re.search(r"::len$|::len\||::count$", origin + "|"):
                        # inside VisualLines' own helpers (visual_line_count / wrapped_height) a len() never reaches a conversion
                        p = P.path_to(f, bb)
                        if p is not None:
                            cands.append((name, s, origin))
        # U2 (over the call graph, 3 levels deep, closures included)
        import props.C08 as C08
        an = C08.Analysis(mir)

        def reaches_vlc(fn, depth=0, seen=None):
            seen = seen or set()
            if fn.name in seen or depth > 3:
                return False
            seen.add(fn.name)
            for st in fn.blocks.values():
                for s_ in st:
                    c = CALL_RE.match(s_)
                    if not c:
                        continue
                    cal = re.sub(r"::<.*?>", "", c.group(2).strip())
                    if cal.endswith("visual_line_count"):
                        return True
                    tgt = an.resolve(c.group(2).strip(), len(M.split_top(c.group(3))) if c.group(3).strip() else 0)
                    if tgt is not None and reaches_vlc(tgt.f, depth + 1, seen):
                        return True
            for g in mir.fns:
                if g.name.startswith(fn.name + "::{closure") and reaches_vlc(g, depth + 1, seen):
                    return True
            return False
        u2 = []
        for meth in ("mark_zombie", "draw"):
            f = mir.find(meth, self_ty="&mut MultiState")
            if not reaches_vlc(f):
                u2.append("MultiState::%s does not obtain a frame height from visual_line_count" % meth)
        problems = ["%s builds a VisualLines from %s (`%s`)" % (n, o, s[:90]) for n, s, o in cands] + u2
        label = "row accounting outside draw_to_term is kept in wrapped rows: %d VisualLines conversions inspected, mark_zombie / MultiState::draw measure frames with visual_line_count" % nconv
        if not problems:
            queries.append({"name": label, "verdict": "PASS", "bounds": "every function of the library", "wall_s": round(time.time() - t0, 2)})
        else:
            erased, detail = native_scenario(root)
            if erased is True:
                art_dir = os.path.join(OUT_DIR, "replays", "C19")
                os.makedirs(art_dir, exist_ok=True)
                art = os.path.join(art_dir, "wrapped_zombie.json")
                with open(art, "w") as fh:
                    json.dump({"property": "C19", "what": problems[0], "native": detail,
                               "how": "bin/check C19 --replay <this file>: re-runs the wrapped-zombie scenario natively against the current tree"}, fh, indent=1)
                queries.append({"name": "rows of a wrapped finished bar are accounted in logical lines", "verdict": "FAIL", "why": "%s; native run: %s" % (problems[0], detail), "replayed": True, "replay_path": art, "wall_s": 0})
            else:
                queries.append({"name": label, "verdict": "INCONCLUSIVE", "why": "%s; the native wrapped-zombie scenario %s" % (problems[0], "kept every row" if erased is False else "could not be run: " + str(detail)[:200]), "wall_s": 0})
        enc = ["multi::MultiState::mark_zombie", "multi::MultiState::draw", "VisualLines conversions in every library function"]
    except (M.Unsupported, KeyError, IndexError, AttributeError, ValueError) as e:
        queries.append({"name": "MIR unit-discipline analysis", "verdict": "BROKEN", "why": "%s: %s" % (type(e).__name__, e), "wall_s": 0})
    return {"queries": queries, "assumptions": assumptions, "encodes": enc, "bounds": ["engine M (row units): every VisualLines conversion of the library"]}


def replay(path):
    d = json.load(open(path))
    erased, detail = native_scenario(common.scratch_root())
    say(detail)
    return 2 if erased is None else (1 if erased else 0)
