"""C10 (engine M part) — the template parser is total: no diverging operation is reachable in it.

ProgressStyle::with_template / ProgressStyle::template -> Template::from_str -> Template::from_str_with_tab_width (one loop over
the characters, a 9-state machine) -> TabExpandedString::new. The Kani harnesses decide the parser transition by transition
(one symbolic character per parser state) and the fidelity part of the property; they are bounded by the length of the
template. What is decided here, on the MIR of the current tree and for templates of ANY length, is the absence of panic
sites: in the functions above no operation that can diverge (panic call, Option/Result unwrap/expect, arithmetic-overflow /
bounds `assert` terminator, indexing / slicing / removal by position) lies on a feasible control-flow path (z3 and cvc5 agree
on path feasibility). Every other callee is a std String / Vec / char / iterator operation that does not panic (allocation
failure aborts, it is outside the claim); the callee list is reported as an assumption.

A candidate site is not yet a violation: the replay step searches a concrete template that panics natively (all strings of
<= 5 letters over the parser's 16 character classes, plus long digit runs in every numeric position). Found -> VIOLATION with the
template as the replay artefact; not found -> INCONCLUSIVE (exit 2), never a silent pass.
"""
import json
import os
import re
import sys
import time

sys.path.insert(0, os.path.dirname(os.path.dirname(os.path.abspath(__file__))))
import common  # noqa: E402
import mirsmt as M  # noqa: E402
import panicscan as P  # noqa: E402
from common import OUT_DIR, say  # noqa: E402
from props.C05 import dump_mir, native_test  # noqa: E402

TARGETS = [("with_template", "style"), ("template", "style"), ("from_str", "style"), ("from_str_with_tab_width", "style"), ("new", "state::<impl at src/state.rs")]

CORPUS_TEST = r'''
#[cfg(test)]
mod verif_c10_corpus {
    use super::*;
    const ALPHA: [&str; 16] = ["{", "}", ":", "!", ".", "/", "<", "^", ">", "0", "9", "a", " ", "\n", "\u{e9}", "\u{4e16}"];

    fn try_one(s: &str) -> bool {
        let r = std::panic::catch_unwind(|| {
            let a = ProgressStyle::with_template(s).is_ok();
            let b = ProgressStyle::default_bar().template(s).is_ok();
            assert_eq!(a, b);
        });
        r.is_err()
    }

    #[test]
    fn verif_c10_corpus_search() {
        std::panic::set_hook(Box::new(|_| {}));
        if let Ok(one) = std::env::var("VERIF_C10_TEMPLATE") {
            let s: String = serde_free_unescape(&one);
            println!("REPLAY panics={}", try_one(&s));
            return;
        }
        let mut n = 0u64;
        let mut idx = [0usize; 5];
        for len in 0..=5usize {
            let total = 16usize.pow(len as u32);
            for code in 0..total {
                let mut c = code;
                let mut s = String::new();
                for k in 0..len {
                    idx[k] = c % 16;
                    c /= 16;
                    s.push_str(ALPHA[idx[k]]);
                }
                n += 1;
                if try_one(&s) {
                    println!("PANIC template={:?}", s);
                    return;
                }
            }
        }
        for pre in ["{a:", "{a:<", "{a:>0", "x{b!", "{a:^", "{{{a:", "{ {a:"] {
            for digits in 1..=25usize {
                for d in ["0", "1", "6", "9"] {
                    for post in ["}", "!}", ".red}", ".red/blue}", "", "}}", "} {"] {
                        let s = format!("{pre}{}{post}", d.repeat(digits));
                        n += 1;
                        if try_one(&s) {
                            println!("PANIC template={:?}", s);
                            return;
                        }
                    }
                }
            }
        }
        println!("CORPUS clean n={n}");
    }

    fn serde_free_unescape(s: &str) -> String {
        // the artefact stores the template with \n and \\ escaped
        let mut out = String::new();
        let mut it = s.chars();
        while let Some(c) = it.next() {
            if c == '\\' {
                match it.next() {
                    Some('n') => out.push('\n'),
                    Some('t') => out.push('\t'),
                    Some('\\') => out.push('\\'),
                    Some(o) => {
                        out.push('\\');
                        out.push(o)
                    }
                    None => out.push('\\'),
                }
            } else {
                out.push(c);
            }
        }
        out
    }
}
'''


def corpus(root, template=None):
    env_backup = os.environ.get("VERIF_C10_TEMPLATE")
    if template is not None:
        os.environ["VERIF_C10_TEMPLATE"] = template.replace("\\", "\\\\").replace("\n", "\\n").replace("\t", "\\t")
    try:
        import props.C05 as C05
        C05.ENV = dict(C05.ENV, **({"VERIF_C10_TEMPLATE": os.environ["VERIF_C10_TEMPLATE"]} if template is not None else {}))
        rc, out = native_test(root, "style.rs", CORPUS_TEST, "verif_c10_corpus_search", timeout=1500)
    finally:
        if template is not None:
            if env_backup is None:
                os.environ.pop("VERIF_C10_TEMPLATE", None)
            else:
                os.environ["VERIF_C10_TEMPLATE"] = env_backup
    return rc, out


def run(tier, logdir):
    root = common.scratch_root()
    queries = []
    enc = []
    assumptions = []
    try:
        mir, dt = dump_mir(root)
        fns = []
        for f in mir.fns:
            n = P.short(f.name)
            if re.search(r"^style::(with_template|template|from_str|from_str_with_tab_width)(::\{closure#\d+\})*$", n):
                fns.append(f)
            elif re.search(r"^state::new$", n) and f.params and "Cow<'static, str>" in f.params[0][1]:
                fns.append(f)  # TabExpandedString::new
        names = sorted(P.short(f.name) for f in fns)
        if not any("from_str_with_tab_width" in n for n in names) or not any(n == "style::with_template" for n in names):
            raise M.Unsupported("parser functions not found in the MIR dump: %s" % names)
        stats = {}
        cand = []
        others = set()
        nblocks = 0
        for f in fns:
            nblocks += len(f.blocks)
            res, oth = P.feasible_sites(f, stats)
            for o in oth:
                others.add(re.sub(r"::<.*?>", "", o)[:80])
            for r in res:
                r["fn"] = P.short(f.name)
                cand.append(r)
        crate_callees = sorted(o for o in others if re.match(r"^(Template|TabExpandedString|ProgressStyle|TemplatePart|segment|width|Style::from_dotted_str)", o))
        assumptions.append("engine M part: callees of the parser treated as total (std String / Vec / char / iterator / parse operations, console::Style::from_dotted_str; allocation failure aborts and is outside the claim): " + ", ".join(sorted(others))[:1500])
        assumptions.append("ProgressStyle::new (default tick / progress characters) does not depend on the template and is exercised concretely by every native run")
        name = "template parser has no reachable diverging operation: %d functions, %d MIR blocks, %d candidate sites, %d feasibility queries" % (len(fns), nblocks, len(cand), stats.get("n", 0))
        if not cand:
            queries.append({"name": name, "verdict": "PASS", "bounds": "every non-unwind MIR path; templates of any length", "wall_s": round(stats.get("s", 0.0), 2), "solver": {"z3+cvc5": "path feasibility"}})
        else:
            t0 = time.time()
            rc, out = corpus(root)
            m = re.search(r"PANIC template=(\".*\")", out)
            if m:
                tpl = json.loads(re.sub(r"\\u\{([0-9a-f]+)\}", lambda k: chr(int(k.group(1), 16)), m.group(1))) if True else None
                art_dir = os.path.join(OUT_DIR, "replays", "C10")
                os.makedirs(art_dir, exist_ok=True)
                art = os.path.join(art_dir, "template_panics.json")
                with open(art, "w") as fh:
                    json.dump({"property": "C10", "template": tpl, "sites": [{"fn": c["fn"], "stmt": c["stmt"], "class": c["cls"]} for c in cand],
                               "how": "bin/check C10 --replay <this file>: runs ProgressStyle::with_template(template) natively against the current tree"}, fh, indent=1)
                queries.append({"name": "with_template(%r) panics" % tpl, "verdict": "FAIL",
                                "why": "diverging operation in the parser: %s at `%s`; native run of the template panics" % (cand[0]["cls"], cand[0]["stmt"][:100]),
                                "replayed": True, "replay_path": art, "wall_s": round(time.time() - t0, 1)})
            else:
                ok = "CORPUS clean" in out
                queries.append({"name": name, "verdict": "INCONCLUSIVE",
                                "why": "candidate panic site(s) %s; the native search over the template corpus %s" % (
                                    "; ".join("%s: %s `%s`" % (c["fn"], c["cls"], c["what"][:60]) for c in cand[:4]),
                                    "found no panicking template" if ok else "did not run: " + out[-300:]), "wall_s": round(time.time() - t0, 1)})
        # witness: the scanner recognises a planted unwrap
        planted = M.MirFn("fn planted(_1: &str) -> () {", "style::planted", [("_1", "&str")], "()", [
            "    let mut _2: std::result::Result<u16, std::num::ParseIntError>;", "    let _3: u16;", "",
            "    bb0: {", "        _2 = core::str::<impl str>::parse::<u16>(copy _1) -> [return: bb1, unwind continue];", "    }", "",
            "    bb1: {", "        _3 = Result::<u16, ParseIntError>::unwrap(move _2) -> [return: bb2, unwind continue];", "    }", "",
            "    bb2: {", "        return;", "    }"])
        res, _ = P.feasible_sites(planted)
        queries.append({"name": "witness: the scanner flags a planted parse().unwrap()", "verdict": "PASS" if len(res) == 1 else "BROKEN", "why": "" if len(res) == 1 else "planted site not recognised", "wall_s": 0})
        enc = names
    except (M.Unsupported, KeyError, IndexError, AttributeError) as e:
        queries.append({"name": "MIR parser totality analysis", "verdict": "BROKEN", "why": "%s: %s" % (type(e).__name__, e), "wall_s": 0})
    return {"queries": queries, "assumptions": assumptions, "encodes": enc, "bounds": ["engine M (parser totality): every non-unwind MIR path of the parser functions, templates of any length"]}


def replay(path):
    d = json.load(open(path))
    root = common.scratch_root()
    rc, out = corpus(root, d["template"])
    if "REPLAY panics=true" in out:
        say("with_template(%r) panics on the current tree" % d["template"])
        return 1
    if "REPLAY panics=false" in out:
        say("with_template(%r) does not panic on the current tree" % d["template"])
        return 0
    say(out[-800:])
    return 2
