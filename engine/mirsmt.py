"""Engine M: a small MIR -> SMT-LIB2 symbolic executor for loop-free integer kernels.

* input: the nightly compiler's MIR dump (-Zunpretty=mir, overflow-checks=on) of the *current* tree
* integers are mathematical Ints with explicit ranges; every cast / wrap is an explicit mod 2^k
  (eliminated only when an interval analysis proves it is the identity); Div/Rem by a constant use the
  division lemma (fresh q, r with a = q*c + r, 0 <= r < c) instead of div/mod terms
* control flow: paths are enumerated per function and merged with ite into fresh constants at the exit,
  so k unrolled calls cost O(k) paths, not O(paths^k)
* `assert` terminators and Option::unwrap become *panic obligations* (path condition /\ not cond)
* std functions are modelled (MODELS below); anything else raises Unsupported -> the check reports BROKEN

Time model: Instant = ns since an arbitrary origin (Int >= 0), Duration = ns (Int >= 0).
"""
import re
import subprocess
import time

# ----------------------------------------------------------------------------- terms


class T:
    """SMT term (Int or Bool) with a known constant value and/or integer interval when available."""
    __slots__ = ("s", "c", "lo", "hi", "sort")

    def __init__(self, s, sort="Int", c=None, lo=None, hi=None):
        self.s, self.sort, self.c, self.lo, self.hi = s, sort, c, lo, hi

    def __repr__(self):
        return "T(%s)" % self.s


def num(v):
    s = str(v) if v >= 0 else "(- %d)" % (-v)
    return T(s, "Int", c=v, lo=v, hi=v)


def boolc(b):
    return T("true" if b else "false", "Bool", c=bool(b))


def _lo(*xs):
    return None if any(x is None for x in xs) else min(xs)


def _hi(*xs):
    return None if any(x is None for x in xs) else max(xs)


def add(a, b):
    if a.c is not None and b.c is not None:
        return num(a.c + b.c)
    if a.c == 0:
        return b
    if b.c == 0:
        return a
    lo = None if a.lo is None or b.lo is None else a.lo + b.lo
    hi = None if a.hi is None or b.hi is None else a.hi + b.hi
    return T("(+ %s %s)" % (a.s, b.s), "Int", lo=lo, hi=hi)


def sub(a, b):
    if a.c is not None and b.c is not None:
        return num(a.c - b.c)
    if b.c == 0:
        return a
    lo = None if a.lo is None or b.hi is None else a.lo - b.hi
    hi = None if a.hi is None or b.lo is None else a.hi - b.lo
    return T("(- %s %s)" % (a.s, b.s), "Int", lo=lo, hi=hi)


class Nonlinear(Exception):
    pass


def mul(a, b):
    if a.c is not None and b.c is not None:
        return num(a.c * b.c)
    if a.c is None and b.c is None:
        raise Nonlinear("symbolic * symbolic: %s * %s" % (a.s, b.s))
    if a.c is None:
        a, b = b, a
    k = a.c
    if k == 0:
        return num(0)
    if k == 1:
        return b
    xs = [None if b.lo is None else k * b.lo, None if b.hi is None else k * b.hi]
    return T("(* %s %s)" % (a.s, b.s), "Int", lo=_lo(*xs), hi=_hi(*xs))


def cmp(op, a, b):
    if a.c is not None and b.c is not None:
        return boolc({"<": a.c < b.c, "<=": a.c <= b.c, "=": a.c == b.c, ">": a.c > b.c, ">=": a.c >= b.c}[op])
    # interval decisions
    if op == "<" and a.hi is not None and b.lo is not None and a.hi < b.lo:
        return boolc(True)
    if op == "<" and a.lo is not None and b.hi is not None and a.lo >= b.hi:
        return boolc(False)
    if op == "<=" and a.hi is not None and b.lo is not None and a.hi <= b.lo:
        return boolc(True)
    if op == "<=" and a.lo is not None and b.hi is not None and a.lo > b.hi:
        return boolc(False)
    if op == ">":
        return cmp("<", b, a)
    if op == ">=":
        return cmp("<=", b, a)
    if op == "=" and ((a.hi is not None and b.lo is not None and a.hi < b.lo) or (a.lo is not None and b.hi is not None and a.lo > b.hi)):
        return boolc(False)
    return T("(%s %s %s)" % (op, a.s, b.s), "Bool")


def beq(a, b):
    if a.c is not None and b.c is not None:
        return boolc(a.c == b.c)
    return T("(= %s %s)" % (a.s, b.s), "Bool")


def bnot(a):
    if a.c is not None:
        return boolc(not a.c)
    if a.s.startswith("(not ") and a.s.endswith(")"):
        return T(a.s[5:-1], "Bool")
    return T("(not %s)" % a.s, "Bool")


def band(*xs):
    ys = []
    for x in xs:
        if x.c is False:
            return boolc(False)
        if x.c is True:
            continue
        ys.append(x)
    if not ys:
        return boolc(True)
    if len(ys) == 1:
        return ys[0]
    return T("(and %s)" % " ".join(y.s for y in ys), "Bool")


def bor(*xs):
    ys = []
    for x in xs:
        if x.c is True:
            return boolc(True)
        if x.c is False:
            continue
        ys.append(x)
    if not ys:
        return boolc(False)
    if len(ys) == 1:
        return ys[0]
    return T("(or %s)" % " ".join(y.s for y in ys), "Bool")


def ite(c, a, b):
    if c.c is True:
        return a
    if c.c is False:
        return b
    if a.sort == "Bool":
        if a.s == b.s:
            return a
        return T("(ite %s %s %s)" % (c.s, a.s, b.s), "Bool")
    if a.s == b.s:
        return a
    return T("(ite %s %s %s)" % (c.s, a.s, b.s), "Int", lo=_lo(a.lo, b.lo), hi=_hi(a.hi, b.hi))


# ----------------------------------------------------------------------------- values

INT_TYPES = {"u8": (8, False), "u16": (16, False), "u32": (32, False), "u64": (64, False), "u128": (128, False),
             "usize": (64, False), "i8": (8, True), "i16": (16, True), "i32": (32, True), "i64": (64, True),
             "i128": (128, True), "isize": (64, True)}


def ty_range(ty):
    bits, signed = INT_TYPES[ty]
    return (-(1 << (bits - 1)), (1 << (bits - 1)) - 1) if signed else (0, (1 << bits) - 1)


class Agg:
    """tuple / struct / Option value: list of field values (+ optional tag for Option)"""
    def __init__(self, fields, kind="agg", tag=None):
        self.f, self.kind, self.tag = list(fields), kind, tag

    def clone(self):
        return Agg([clone_val(x) for x in self.f], self.kind, self.tag)


class Ref:
    def __init__(self, obj, path):
        self.obj, self.path = obj, tuple(path)


class Opaque:
    def __init__(self, name):
        self.name = name


class Boxed:
    """A local whose address was taken: it lives in the heap from then on."""
    def __init__(self, key):
        self.key = key


UNIT = Opaque("()")


def clone_val(v):
    return v.clone() if isinstance(v, Agg) else v


class Unsupported(Exception):
    pass


# ----------------------------------------------------------------------------- MIR parsing

class MirFn:
    def __init__(self, header, name, params, ret, body):
        self.header, self.name, self.params, self.ret = header, name, params, ret
        self.blocks = {}
        self.local_ty = {}
        cur = None
        for ln in body:
            s = ln.strip()
            m = re.match(r"let (mut )?(_\d+): (.*);$", s)
            if m:
                self.local_ty[m.group(2)] = m.group(3)
                continue
            m = re.match(r"(bb\d+)( \(cleanup\))?: \{$", s)
            if m:
                cur = m.group(1)
                self.blocks[cur] = []
                continue
            if s == "}" or not s or s.startswith("debug ") or s.startswith("scope ") or s.startswith("//"):
                if s == "}":
                    cur = None if cur else cur
                continue
            if cur is not None:
                self.blocks[cur].append(s)
        for p, t in params:
            self.local_ty[p] = t


def split_top(s, sep=","):
    out, depth, cur = [], 0, ""
    i = 0
    while i < len(s):
        ch = s[i]
        if ch in "([{<":
            depth += 1
        elif ch in ")]}>":
            if ch == ">" and i > 0 and s[i - 1] == "-":
                pass
            else:
                depth -= 1
        if ch == sep and depth == 0:
            out.append(cur.strip())
            cur = ""
        else:
            cur += ch
        i += 1
    if cur.strip():
        out.append(cur.strip())
    return out


class Mir:
    def __init__(self, text, src_files):
        self.fns = []
        self.consts = {}
        self.structs = {}
        self.text = text
        lines = text.split("\n")
        i = 0
        while i < len(lines):
            ln = lines[i]
            m = re.match(r"^fn (.*?)\((.*)\) -> (.*) \{$", ln)
            if m:
                j = i + 1
                body = []
                while j < len(lines) and lines[j] != "}":
                    body.append(lines[j])
                    j += 1
                params = []
                for p in split_top(m.group(2)):
                    pm = re.match(r"(_\d+): (.*)$", p)
                    if pm:
                        params.append((pm.group(1), pm.group(2)))
                self.fns.append(MirFn(ln, m.group(1), params, m.group(3), body))
                i = j
            else:
                m = re.match(r"^const (\S+): (\w+) = const (-?[\d_]+)_?(\w+)?;$", ln)
                if m:
                    self.consts[m.group(1)] = (int(m.group(3).replace("_", "")), m.group(2))
            i += 1
        for src in src_files:
            for sm in re.finditer(r"struct (\w+)\s*\{(.*?)\n\}", src, re.S):
                fields = []
                for fl in sm.group(2).split("\n"):
                    fl = fl.strip()
                    fm = re.match(r"(pub(\([\w ]+\))?\s+)?(\w+)\s*:\s*(.*?),?\s*(//.*)?$", fl)
                    if fm and not fl.startswith("//") and not fl.startswith("#"):
                        fields.append((fm.group(3), fm.group(4)))
                self.structs[sm.group(1)] = fields

    def const(self, path):
        if path in self.consts:
            return self.consts[path]
        last = path.split("::")[-1]
        c = [k for k in self.consts if k.split("::")[-1] == last]
        if len(c) == 1:
            return self.consts[c[0]]
        # qualified match on trailing segments
        c2 = [k for k in c if path.endswith(k) or k.endswith(path)]
        if len(c2) == 1:
            return self.consts[c2[0]]
        raise Unsupported("constant %s not found or ambiguous in MIR (candidates %s)" % (path, c))

    def find(self, method, self_ty=None, nparams=None):
        """Locate a function by its last path segment and (optionally) the type of its first parameter / return."""
        c = []
        for f in self.fns:
            if f.name.split("::")[-1] != method or "{closure" in f.name:
                continue
            if nparams is not None and len(f.params) != nparams:
                continue
            if self_ty is not None:
                first = f.params[0][1] if f.params else ""
                if self_ty not in first and self_ty not in f.ret:
                    continue
            c.append(f)
        if len(c) != 1:
            raise Unsupported("function %s (self %s) not found uniquely in MIR: %d candidates" % (method, self_ty, len(c)))
        return c[0]


# ----------------------------------------------------------------------------- executor

class Ctx:
    def __init__(self, mir):
        self.mir = mir
        self.decls = []      # smt declarations/assertions (strings)
        self.n = 0
        self.heap = {}
        self.panics = []     # (description, condition term)
        self.pc = boolc(True)
        self.trace_fns = set()
        self.lemmas = 0

    # ---- smt helpers
    def fresh(self, base, lo=None, hi=None, sort="Int"):
        self.n += 1
        name = "%s_%d" % (re.sub(r"\W", "_", base), self.n)
        self.decls.append("(declare-const %s %s)" % (name, sort))
        t = T(name, sort, lo=lo, hi=hi)
        if sort == "Int":
            if lo is not None:
                self.decls.append("(assert (>= %s %s))" % (name, num(lo).s))
            if hi is not None:
                self.decls.append("(assert (<= %s %s))" % (name, num(hi).s))
        return t

    def define(self, base, t):
        """Name a term (keeps the formula a DAG instead of a tree)."""
        if t.c is not None or re.match(r"^[\w]+$", t.s):
            return t
        self.n += 1
        name = "%s_%d" % (re.sub(r"\W", "_", base), self.n)
        self.decls.append("(declare-const %s %s)" % (name, t.sort))
        self.decls.append("(assert (= %s %s))" % (name, t.s))
        return T(name, t.sort, lo=t.lo, hi=t.hi)

    def assert_(self, t):
        self.decls.append("(assert %s)" % t.s)

    def divrem(self, a, c, what):
        """Division lemma: a = q*c + r, 0 <= r < c (c a positive constant, a >= 0)."""
        if c.c is None:
            raise Nonlinear("division by a non-constant divisor %s" % c.s)
        if c.c <= 0:
            raise Unsupported("division by non-positive constant")
        if a.c is not None:
            return num(a.c // c.c), num(a.c % c.c)
        if a.lo is None or a.lo < 0:
            raise Unsupported("division of a possibly negative value")
        self.lemmas += 1
        q = self.fresh(what + "_q", lo=a.lo // c.c, hi=None if a.hi is None else a.hi // c.c)
        r = self.fresh(what + "_r", lo=0, hi=c.c - 1)
        self.decls.append("(assert (= %s (+ (* %d %s) %s)))" % (a.s, c.c, q.s, r.s))
        return q, r

    def wrap(self, v, ty, what):
        lo, hi = ty_range(ty)
        if v.lo is not None and v.hi is not None and v.lo >= lo and v.hi <= hi:
            return v
        if lo != 0:
            raise Unsupported("signed wrap")
        if v.lo is None or v.hi is None:
            raise Unsupported("wrap of unbounded value")
        if v.lo >= 0:
            q, r = self.divrem(v, num(hi + 1), what + "_wrap")
            return r
        # possibly negative: shift by a multiple of the modulus first
        k = (-v.lo + hi) // (hi + 1)
        q, r = self.divrem(add(v, num(k * (hi + 1))), num(hi + 1), what + "_wrap")
        return r

    # ---- heap
    def alloc(self, val):
        self.n += 1
        oid = "o%d" % self.n
        self.heap[oid] = val
        return oid

    def load(self, ref):
        v = self.heap[ref.obj]
        for k in ref.path:
            if not isinstance(v, Agg):
                raise Unsupported("field projection on non-aggregate")
            v = v.f[k]
        return v

    def store(self, ref, val):
        if not ref.path:
            self.heap[ref.obj] = val
            return
        v = self.heap[ref.obj]
        for k in ref.path[:-1]:
            v = v.f[k]
        v.f[ref.path[-1]] = val

    def snapshot(self):
        return {k: clone_val(v) for k, v in self.heap.items()}

    # ---- calling
    def call(self, fn, args):
        """Symbolically execute MIR function `fn` with argument values; returns merged return value.
        Side effects on the heap through references are merged as well."""
        self.trace_fns.add(fn.header.split("(")[0][3:])
        for bb, stmts in fn.blocks.items():
            for i, st in enumerate(stmts):
                mo = re.match(r"^(_\d+) = (Add|Sub|Mul)WithOverflow\(", st)
                if mo and not re.match(r"^assert\(!move \(%s\.1: bool\)" % mo.group(1), stmts[-1]):
                    raise Unsupported("checked arithmetic result %s is not guarded by assert(!overflow) in %s" % (mo.group(1), fn.name))
        frame = self.alloc(Agg([]))  # placeholder id for uniqueness
        outer_pc = self.pc
        base_heap = self.snapshot()
        results = []  # (pc, retval, heap)
        work = [("bb0", boolc(True), {p: a for (p, _), a in zip(fn.params, args)}, base_heap)]
        steps = 0
        while work:
            bb, pc, loc, heap = work.pop()
            steps += 1
            if steps > 400:
                raise Unsupported("too many paths / loop in %s" % fn.name)
            self.heap = heap
            self.pc = band(outer_pc, pc)
            stmts = fn.blocks[bb]
            nxt = None
            for s in stmts:
                nxt = self.stmt(fn, s, loc)
                if nxt is not None:
                    break
            if nxt is None:
                raise Unsupported("block without terminator: %s %s" % (fn.name, bb))
            kind = nxt[0]
            if kind == "goto":
                work.append((nxt[1], pc, loc, self.heap))
            elif kind == "return":
                results.append((pc, loc.get("_0", UNIT), self.heap))
            elif kind == "branch":
                for cond, tgt in nxt[1]:
                    if cond.c is False:
                        continue
                    work.append((tgt, band(pc, cond), dict(loc), {k: clone_val(v) for k, v in self.heap.items()}))
            elif kind == "abort":
                pass
        self.pc = outer_pc
        if not results:
            raise Unsupported("no returning path in %s" % fn.name)
        # merge
        ret = self.merge([(pc, r) for pc, r, _ in results], fn.name.split("::")[-1] + "_ret")
        merged_heap = {}
        keys = set()
        for _, _, h in results:
            keys |= set(h.keys())
        for k in keys:
            if k not in base_heap:
                continue  # objects allocated inside the call are dead after return unless returned by value
            merged_heap[k] = self.merge([(pc, h[k]) for pc, _, h in results], k)
        self.heap = merged_heap
        return ret

    def merge(self, alts, what):
        vals = [v for _, v in alts]
        v0 = vals[0]
        if len(alts) == 1:
            return v0
        if isinstance(v0, T):
            if all(isinstance(v, T) and v.s == v0.s for v in vals):
                return v0
            acc = vals[-1]
            for pc, v in reversed(alts[:-1]):
                acc = ite(pc, v, acc)
            return self.define("m_" + what, acc)
        if isinstance(v0, Agg):
            if any(not isinstance(v, Agg) or len(v.f) != len(v0.f) for v in vals):
                raise Unsupported("merge of differently shaped aggregates")
            tag = None
            if v0.kind == "option":
                tag = self.merge([(pc, v.tag) for pc, v in alts], what + "_tag")
            return Agg([self.merge([(pc, v.f[i]) for pc, v in alts], "%s_%d" % (what, i)) for i in range(len(v0.f))], v0.kind, tag)
        if isinstance(v0, Ref):
            if all(isinstance(v, Ref) and v.obj == v0.obj and v.path == v0.path for v in vals):
                return v0
            raise Unsupported("merge of different references")
        return v0

    # ---- operands / places
    def place(self, fn, p, loc):
        """-> ('local', name, path) or ('ref', Ref)"""
        p = p.strip()
        m = re.match(r"^\((.*)\.(\d+): [^()]*(\([^()]*\))?[^()]*\)$", p)
        if m and _balanced(m.group(1)):
            base = self.place(fn, m.group(1), loc)
            k = int(m.group(2))
            if base[0] == "local":
                return ("local", base[1], base[2] + (k,))
            return ("ref", Ref(base[1].obj, base[1].path + (k,)))
        m = re.match(r"^\(\*(.*)\)$", p)
        if m:
            inner = self.read_place(fn, self.place(fn, m.group(1), loc), loc)
            if not isinstance(inner, Ref):
                raise Unsupported("deref of non-reference %s" % p)
            return ("ref", inner)
        if re.match(r"^_\d+$", p):
            return ("local", p, ())
        raise Unsupported("place syntax: %s" % p)

    def read_place(self, fn, pl, loc):
        if pl[0] == "local":
            if pl[1] not in loc:
                raise Unsupported("read of unassigned local %s in %s" % (pl[1], fn.name))
            v = loc[pl[1]]
            if isinstance(v, Boxed):
                return self.load(Ref(v.key, pl[2]))
            for k in pl[2]:
                if not isinstance(v, Agg):
                    raise Unsupported("projection on non-aggregate local %s" % pl[1])
                v = v.f[k]
            return v
        return self.load(pl[1])

    def write_place(self, fn, pl, val, loc):
        if pl[0] == "local":
            if isinstance(loc.get(pl[1]), Boxed):
                self.store(Ref(loc[pl[1]].key, pl[2]), val)
                return
            if not pl[2]:
                loc[pl[1]] = val
                return
            v = loc[pl[1]]
            for k in pl[2][:-1]:
                v = v.f[k]
            v.f[pl[2][-1]] = val
        else:
            self.store(pl[1], val)

    def operand(self, fn, o, loc):
        o = o.strip()
        if o.startswith("copy ") or o.startswith("move "):
            v = self.read_place(fn, self.place(fn, o[5:], loc), loc)
            return clone_val(v)
        if o.startswith("const "):
            c = o[6:].strip()
            if c == "true":
                return boolc(True)
            if c == "false":
                return boolc(False)
            m = re.match(r"^(-?[\d_]+)_(\w+)$", c)
            if m:
                return num(int(m.group(1).replace("_", "")))
            if c == "()":
                return UNIT
            if re.match(r"^[\w:<> ]+$", c):
                v, ty = self.mir.const(c)
                return num(v)
            raise Unsupported("constant operand %s" % c)
        raise Unsupported("operand %s" % o)

    def stmt(self, fn, s, loc):
        if s.startswith("StorageLive") or s.startswith("StorageDead") or s.startswith("nop") or s.startswith("FakeRead") \
                or s.startswith("PlaceMention") or s.startswith("AscribeUserType") or s.startswith("Retag") or s.startswith("ConstEvalCounter"):
            return None
        if s == "return;":
            return ("return",)
        m = re.match(r"^goto -> (bb\d+);$", s)
        if m:
            return ("goto", m.group(1))
        if s.startswith("unreachable"):
            return ("abort",)
        m = re.match(r"^switchInt\((.*)\) -> \[(.*)\];$", s)
        if m:
            v = self.operand(fn, m.group(1), loc)
            arms = []
            taken = []
            for arm in split_top(m.group(2)):
                k, tgt = [x.strip() for x in arm.split(":")]
                if k == "otherwise":
                    cond = band(*[bnot(t) for t in taken]) if taken else boolc(True)
                    arms.append((cond, tgt))
                else:
                    kv = int(k)
                    if v.sort == "Bool":
                        c = v if kv != 0 else bnot(v)
                    else:
                        c = beq(v, num(kv)) if v.c is None else boolc(v.c == kv)
                    taken.append(c)
                    arms.append((c, tgt))
            return ("branch", arms)
        m = re.match(r"^assert\((!?)(.*?), \"(.*?)\".*\) -> \[success: (bb\d+), unwind.*\];$", s)
        if m:
            c = self.operand(fn, m.group(2), loc)
            if m.group(1) == "!":
                c = bnot(c)
            self.panics.append(("%s: %s" % (fn.name.split("::")[-1], m.group(3)), band(self.pc, bnot(c))))
            return ("branch", [(c, m.group(4))])
        m = re.match(r"^(.*?) = (.*) -> \[return: (bb\d+), unwind.*\];$", s)
        if m:
            dst, callee, tgt = m.group(1), m.group(2), m.group(3)
            fname, argstr = split_call(callee)
            args = [self.operand_or_ref(fn, a, loc) for a in split_top(argstr)] if argstr.strip() else []
            val = self.model_call(fname, args)
            self.write_place(fn, self.place(fn, dst, loc), val, loc)
            return ("goto", tgt)
        m = re.match(r"^(.*?) = (.*);$", s)
        if m:
            dst, rv = m.group(1), m.group(2)
            val = self.rvalue(fn, rv, loc)
            self.write_place(fn, self.place(fn, dst, loc), val, loc)
            return None
        raise Unsupported("statement: %s" % s)

    def operand_or_ref(self, fn, a, loc):
        return self.operand(fn, a, loc)

    def rvalue(self, fn, rv, loc):
        rv = rv.strip()
        m = re.match(r"^&(mut )?(raw )?(.*)$", rv)
        if m and not rv.startswith("&&"):
            pl = self.place(fn, m.group(3), loc)
            if pl[0] == "ref":
                return pl[1]
            # reference to a local: box the local in the heap (locals referenced this way are read-only afterwards here)
            name = pl[1]
            if isinstance(loc.get(name), Boxed):
                return Ref(loc[name].key, pl[2])
            if name not in loc:
                raise Unsupported("address of unassigned local %s" % name)
            self.n += 1
            key = "frame%d_%s" % (self.n, name)
            self.heap[key] = loc[name]
            loc[name] = Boxed(key)
            return Ref(key, pl[2])
        m = re.match(r"^(.*) as (\w+) \(IntToInt\)$", rv)
        if m:
            v = self.operand(fn, m.group(1), loc)
            return self.wrap(v, m.group(2), "cast_" + m.group(2))
        m = re.match(r"^(\w+)\((.*)\)$", rv)
        if m and m.group(1) in ("Eq", "Ne", "Lt", "Le", "Gt", "Ge", "Add", "Sub", "Mul", "Div", "Rem", "AddWithOverflow", "SubWithOverflow",
                                "MulWithOverflow", "AddUnchecked", "SubUnchecked", "MulUnchecked", "BitAnd", "BitOr", "Not"):
            op = m.group(1)
            ops = split_top(m.group(2))
            if op == "Not":
                return bnot(self.operand(fn, ops[0], loc))
            a = self.operand(fn, ops[0], loc)
            b = self.operand(fn, ops[1], loc)
            ty = self.operand_ty(fn, ops[0], loc) or self.operand_ty(fn, ops[1], loc)
            if op in ("Eq", "Ne", "Lt", "Le", "Gt", "Ge"):
                if a.sort == "Bool":
                    r = beq(a, b)
                    return r if op == "Eq" else bnot(r)
                r = cmp({"Eq": "=", "Ne": "=", "Lt": "<", "Le": "<=", "Gt": ">", "Ge": ">="}[op], a, b)
                return bnot(r) if op == "Ne" else r
            if op in ("BitAnd", "BitOr"):
                if a.sort != "Bool":
                    raise Unsupported("bitwise op on integers")
                return band(a, b) if op == "BitAnd" else bor(a, b)
            if op in ("AddWithOverflow", "SubWithOverflow", "MulWithOverflow"):
                if ty is None:
                    raise Unsupported("cannot type %s" % rv)
                r = {"A": add, "S": sub, "M": mul}[op[0]](a, b)
                lo, hi = ty_range(ty)
                ovf = bor(cmp("<", r, num(lo)), cmp(">", r, num(hi)))
                # the value is used only after `assert(!ovf)`: checked structurally by the caller of rvalue (see check_overflow_use)
                return Agg([r, ovf])
            if op in ("Add", "Sub", "Mul", "AddUnchecked", "SubUnchecked", "MulUnchecked"):
                r = {"A": add, "S": sub, "M": mul}[op[0]](a, b)
                if ty is None:
                    raise Unsupported("cannot type %s" % rv)
                return self.wrap(r, ty, op.lower())
            if op in ("Div", "Rem"):
                q, r = self.divrem(a, b, op.lower())
                return q if op == "Div" else r
        if rv.startswith("copy ") or rv.startswith("move ") or rv.startswith("const "):
            return self.operand(fn, rv, loc)
        if rv.startswith("(") and rv.endswith(")"):
            return Agg([self.operand(fn, x, loc) for x in split_top(rv[1:-1])])
        m = re.match(r"^([\w:]+) \{(.*)\}$", rv)
        if m:
            sname = m.group(1).split("::")[-1]
            given = {}
            for fld in split_top(m.group(2)):
                k, v = fld.split(":", 1)
                given[k.strip()] = self.operand(fn, v, loc)
            order = [f for f, _ in self.mir.structs.get(sname, [])]
            if not order or set(order) != set(given):
                raise Unsupported("struct %s: field list mismatch between source and MIR" % sname)
            return Agg([given[f] for f in order], "struct:" + sname)
        if re.match(r"^[\w:]+::\w+$", rv):
            return Opaque(rv)
        raise Unsupported("rvalue: %s" % rv)

    def operand_ty(self, fn, o, loc):
        o = o.strip()
        m = re.match(r"^const -?[\d_]+_(\w+)$", o)
        if m:
            return m.group(1)
        m = re.match(r"^const ([\w:<> ]+)$", o)
        if m and m.group(1) not in ("true", "false"):
            try:
                return self.mir.const(m.group(1))[1]
            except Unsupported:
                return None
        m = re.match(r"^(copy|move) (_\d+)$", o)
        if m:
            t = fn.local_ty.get(m.group(2))
            return t if t in INT_TYPES else None
        m = re.match(r"^(copy|move) \(.*: (\w+)\)$", o)
        if m:
            return m.group(2) if m.group(2) in INT_TYPES else None
        return None

    # ---- std models
    def deref(self, v):
        return self.load(v) if isinstance(v, Ref) else v

    def model_call(self, fname, args):
        f = fname.strip()
        short = re.sub(r"<impl [^>]*>", "", f)
        a = args

        def I(x):
            x = self.deref(x)
            if not isinstance(x, T):
                raise Unsupported("model %s: expected scalar" % f)
            return x
        if f == "Instant::now":
            if getattr(self, "now_value", None) is None:
                raise Unsupported("Instant::now() reached without a harness-provided instant")
            return self.now_value
        if f in ("<Instant as PartialOrd>::lt", "<Duration as PartialOrd>::lt"):
            return cmp("<", I(a[0]), I(a[1]))
        if f in ("<Instant as PartialOrd>::le", "<Duration as PartialOrd>::le"):
            return cmp("<=", I(a[0]), I(a[1]))
        if f in ("<Instant as PartialOrd>::gt", "<Duration as PartialOrd>::gt"):
            return cmp(">", I(a[0]), I(a[1]))
        if f in ("<Instant as PartialOrd>::ge", "<Duration as PartialOrd>::ge"):
            return cmp(">=", I(a[0]), I(a[1]))
        if f in ("<Instant as Sub>::sub", "Instant::duration_since", "Instant::saturating_duration_since"):
            x, y = I(a[0]), I(a[1])
            d = sub(x, y)
            r = ite(cmp(">=", x, y), d, num(0))
            if r.lo is not None and r.lo < 0:
                r = T(r.s, "Int", lo=0, hi=r.hi)
            return self.define("dur", r)
        if f == "Duration::from_millis":
            return mul(num(1_000_000), I(a[0]))
        if f == "Duration::from_micros":
            return mul(num(1_000), I(a[0]))
        if f == "Duration::from_secs":
            return mul(num(1_000_000_000), I(a[0]))
        if f == "Duration::from_nanos":
            return I(a[0])
        if f == "Duration::as_nanos":
            return I(a[0])
        if f == "Duration::as_millis":
            return self.divrem(I(a[0]), num(1_000_000), "as_millis")[0]
        if f == "Duration::as_micros":
            return self.divrem(I(a[0]), num(1_000), "as_micros")[0]
        if f == "Duration::as_secs":
            return self.divrem(I(a[0]), num(1_000_000_000), "as_secs")[0]
        if f == "Instant::checked_sub":
            x, d = I(a[0]), I(a[1])
            ok = cmp(">=", x, d)
            return Agg([sub(x, d)], "option", tag=ok)
        if f == "Instant::checked_add":
            return Agg([add(I(a[0]), I(a[1]))], "option", tag=boolc(True))
        if f in ("<Instant as Add<Duration>>::add",):
            return add(I(a[0]), I(a[1]))
        if re.match(r"^Option::<.*>::unwrap$", f) or f == "Option::unwrap":
            o = a[0]
            if not (isinstance(o, Agg) and o.kind == "option"):
                raise Unsupported("unwrap of non-option")
            self.panics.append(("Option::unwrap on None", band(self.pc, bnot(o.tag))))
            return o.f[0]
        m = re.match(r"^<(u\d+|usize) as Ord>::(min|max)$", f)
        if m:
            x, y = I(a[0]), I(a[1])
            if m.group(2) == "min":
                return ite(cmp("<=", x, y), x, y)
            return ite(cmp(">=", x, y), x, y)
        m = re.match(r"^core::num::<impl (u\d+|usize)>::(saturating_sub|saturating_add|wrapping_sub|wrapping_add|min|max)$", f)
        if m:
            x, y = I(a[0]), I(a[1])
            lo, hi = ty_range(m.group(1))
            k = m.group(2)
            if k == "saturating_sub":
                r = ite(cmp(">=", x, y), sub(x, y), num(0))
                return T(r.s, "Int", lo=0, hi=x.hi) if r.c is None else r
            if k == "saturating_add":
                s_ = add(x, y)
                return ite(cmp("<=", s_, num(hi)), s_, num(hi))
            if k == "wrapping_sub":
                return self.wrap(sub(x, y), m.group(1), "wsub")
            if k == "wrapping_add":
                return self.wrap(add(x, y), m.group(1), "wadd")
            if k == "min":
                return ite(cmp("<=", x, y), x, y)
            return ite(cmp(">=", x, y), x, y)
        m = re.match(r"^Atomic(U8|U64|U32|Usize)::(load|store|new|fetch_add|fetch_sub)$", f)
        if m:
            k = m.group(2)
            ty = {"U8": "u8", "U64": "u64", "U32": "u32", "Usize": "usize"}[m.group(1)]
            if k == "new":
                return I(a[0])
            if k == "load":
                return I(a[0])
            if not isinstance(a[0], Ref):
                raise Unsupported("atomic op on non-reference")
            if k == "store":
                self.store(a[0], I(a[1]))
                return UNIT
            old = self.load(a[0])
            r = add(old, I(a[1])) if k == "fetch_add" else sub(old, I(a[1]))
            self.store(a[0], self.wrap(r, ty, k))
            return old
        # a function of the crate itself
        mm = re.match(r"^(?:<)?(\w+)(?:>)?::(\w+)$", f)
        if mm:
            try:
                callee = self.mir.find(mm.group(2), self_ty=mm.group(1))
            except Unsupported:
                callee = None
            if callee is not None:
                return self.call(callee, a)
        raise Unsupported("no model for call `%s`" % f)


def split_call(callexpr):
    """`path::<(A, B)>::f(arg1, (x, y))` -> (callee, argstr): the argument list is the LAST balanced parenthesis group"""
    callexpr = callexpr.strip()
    if not callexpr.endswith(")"):
        return None
    depth = 0
    i = len(callexpr) - 1
    while i >= 0:
        ch = callexpr[i]
        if ch == ")":
            depth += 1
        elif ch == "(":
            depth -= 1
            if depth == 0:
                return callexpr[:i], callexpr[i + 1:-1]
        i -= 1
    return None


def _balanced(s):
    d = 0
    for ch in s:
        if ch == "(":
            d += 1
        elif ch == ")":
            d -= 1
            if d < 0:
                return False
    return d == 0


# ----------------------------------------------------------------------------- solving

def run_solver(binary, args, script, timeout):
    t0 = time.time()
    try:
        p = subprocess.run([binary] + args, input=script, capture_output=True, text=True, timeout=timeout)
        out = p.stdout + p.stderr
    except subprocess.TimeoutExpired:
        return "timeout", "", time.time() - t0
    dt = time.time() - t0
    if out.strip().split("\n")[0].strip() in ("timeout",) or "interrupted by timeout" in out:
        return "timeout", out, dt
    if "(error" in out:
        return "error", out, dt
    first = out.strip().split("\n")[0].strip() if out.strip() else ""
    if first in ("sat", "unsat", "unknown"):
        return first, out, dt
    return "error", out, dt


def solve(decls, goal_asserts, get_values=None, timeout=120, solvers=("z3", "cvc5")):
    """Returns dict(verdict in unsat/sat/unknown/error/disagree, model, times)."""
    script = "(set-logic ALL)\n(set-option :produce-models true)\n" + "\n".join(decls) + "\n" + "\n".join(goal_asserts) + "\n(check-sat)\n"
    if get_values:
        script_m = script + "(get-value (%s))\n" % " ".join(get_values)
    else:
        script_m = script
    res = {}
    for s in solvers:
        if s == "z3":
            v, out, dt = run_solver("z3", ["-in", "-T:%d" % timeout], script_m, timeout + 5)
        else:
            v, out, dt = run_solver("cvc5", ["--lang", "smt2", "--tlimit=%d" % (timeout * 1000), "--produce-models"], script_m, timeout + 5)
        if v == "error" and ("unsat" in out.split("\n")[0:1]):
            v = "unsat"
        res[s] = (v, out, round(dt, 2))
    verdicts = {v for v, _, _ in res.values() if v in ("sat", "unsat")}
    if len(verdicts) == 2:
        verdict = "disagree"
    elif len(verdicts) == 1:
        # a solver that times out / answers unknown does not contradict the other one; an (error line does
        verdict = verdicts.pop()
        if any(v == "error" for v, _, _ in res.values()):
            verdict = "error"
    else:
        verdict = "error" if any(v == "error" for v, _, _ in res.values()) else "unknown"
    model = {}
    if verdict == "sat" and get_values:
        for s in solvers:
            if res[s][0] == "sat":
                for mm in re.finditer(r"\((\w+) (\(- (\d+)\)|\d+|true|false)\)", res[s][1]):
                    val = mm.group(2)
                    if val.startswith("(-"):
                        model[mm.group(1)] = -int(mm.group(3))
                    elif val in ("true", "false"):
                        model[mm.group(1)] = val == "true"
                    else:
                        model[mm.group(1)] = int(val)
                break
    return {"verdict": verdict, "model": model, "times": {s: res[s][2] for s in res}, "raw": {s: res[s][0] for s in res},
            "errors": {s: res[s][1][:300] for s in res if res[s][0] == "error"}}
