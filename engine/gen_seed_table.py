#!/usr/bin/env python3
"""Builds seeded/MATRIX.md from seeded/RESULTS.txt (latest run per seed) and the seeds' meta.json."""
import glob
import json
import os
import re

V = os.path.dirname(os.path.dirname(os.path.abspath(__file__)))
rows = {}
for ln in open(os.path.join(V, "seeded", "RESULTS.txt")):
    m = re.match(r"^(\S+) SEED (\S+) on (\S+) \((\w+)\): exit=(\d+) (\d+) violation line\(s\); == \S+ tier=\w+: (\d+) queries, (\d+) hold, (\d+) violations, (\d+) broken, (\d+) known findings, (\d+)s \| ?(.*)$", ln.strip())
    if not m:
        continue
    t, tag, prop, tier, rc, nv, q, hold, viol, broken, known, secs, det = m.groups()
    rows[tag] = dict(time=t, prop=prop, rc=int(rc), viol=int(viol), secs=int(secs), det=det.strip())
out = ["| seed | what the change needs to manifest (from the seed's demo) | quick check of its property | first counter-example / reason |", "|---|---|---|---|"]
n_det = n_miss = n_inc = 0
for d in sorted(glob.glob(os.path.join(V, "seeded", "C*_*"))):
    tag = os.path.basename(d)
    meta = json.load(open(os.path.join(d, "meta.json"))) if os.path.exists(os.path.join(d, "meta.json")) else {}
    need = re.sub(r"\s+", " ", meta.get("needs_to_manifest", ""))[:170].replace("|", "/")
    r = rows.get(tag)
    if r is None:
        status, det = "not run", ""
    elif r["rc"] == 1 and r["viol"] > 0:
        status, det = "**detected** (%d s)" % r["secs"], r["det"]
        n_det += 1
    elif r["rc"] == 0:
        status, det = "missed (exit 0, %d s)" % r["secs"], ""
        n_miss += 1
    else:
        status, det = "inconclusive (exit %d)" % r["rc"], r["det"]
        n_inc += 1
    det = re.sub(r"^\s*detail: ", "", det)[:150].replace("|", "/")
    out.append("| %s | %s | %s | %s |" % (tag, need, status, det))
out.append("")
out.append("Totals: %d detected, %d missed, %d inconclusive, of %d seeds run." % (n_det, n_miss, n_inc, n_det + n_miss + n_inc))
open(os.path.join(V, "seeded", "MATRIX.md"), "w").write("\n".join(out) + "\n")
print(out[-1])
