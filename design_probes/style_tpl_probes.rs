// Throw-away design-phase probe (appended to a scratch copy of src/style.rs); see DESIGN.md section 3.6.
#[cfg(kani)]
mod verif_tpl {
    use super::*;

    const ALPHA: [u8; 10] = [b'{', b'}', b':', b'a', b' ', b'!', b'9', b'.', b'/', b'<'];

    fn run(n: usize) {
        let mut bytes = [0u8; 6];
        let mut i = 0;
        while i < n { let k: usize = kani::any(); kani::assume(k < ALPHA.len()); bytes[i] = ALPHA[k]; i += 1; }
        let s = unsafe { std::str::from_utf8_unchecked(&bytes[..n]) };
        let r = Template::from_str_with_tab_width(s, 8);
        std::mem::forget(r);
    }

    #[kani::proof]
    #[kani::unwind(8)]
    fn tpl_nopanic_a3() { run(3); }

    #[kani::proof]
    #[kani::unwind(8)]
    fn tpl_nopanic_a4() { run(4); }
}
