import sys, time
from z3 import *
cnt=[0]
def divmod_c(s, a, c):
    cnt[0]+=1
    q=Int(f'q{cnt[0]}'); r=Int(f'r{cnt[0]}')
    s.add(a == q*c + r, r >= 0, r < c)
    return q, r
def allow(s, cap, prev, now, I_ms, MAXB=20):
    I_ns = I_ms*1000000
    el = now - prev
    early = now < prev
    blocked = And(cap == 0, el < I_ns)
    ms,_ = divmod_c(s, el, 1000000)
    new,_ = divmod_c(s, ms, I_ms)
    _,rem = divmod_c(s, el, I_ns)
    ncap = cap + new - 1
    ncap = If(ncap > MAXB, MAXB, ncap)
    ok = And(Not(early), Not(blocked))
    return ok, If(ok, ncap, cap), If(ok, now - rem, prev)

def run(rate, k, fresh=False):
    I_ms = 1000//rate
    s = Solver()
    cap = Int('cap0'); prev = Int('prev0')
    s.add(cap >= 0, cap <= 20, prev >= 0)
    if fresh: s.add(cap == 20)
    ts=[Int(f't{i}') for i in range(k)]
    s.add(ts[0] >= prev)
    for i in range(1,k): s.add(ts[i] >= ts[i-1])
    admitted=[]
    for i in range(k):
        ok, cap, prev = allow(s, cap, prev, ts[i], I_ms)
        admitted.append(ok)
    n = Sum([If(a,1,0) for a in admitted])
    T = ts[k-1]-ts[0]
    s.add(n*1000000000 > (21)*1000000000 + rate*T)
    t0=time.time(); r = s.check(); dt=time.time()-t0
    print(rate,k,r,round(dt,2), flush=True)
    if r==sat:
        m=s.model(); print([m[t] for t in ts], m[Int('cap0')], m[Int('prev0')], m.eval(n), flush=True)
run(255, 8)
run(20, 8)
run(20, int(sys.argv[1]) if len(sys.argv)>1 else 23)
