#!/bin/bash
# usage: run.sh <harness> [timeout_s] [extra kani args...]
h=$1; t=${2:-300}; shift; shift
cd /var/tmp/probe/${IND:-ind}
( ulimit -v 40000000; CARGO_NET_OFFLINE=true timeout $t cargo kani --harness "$h" "$@" > /var/tmp/probe/log.$h 2>&1; echo "exit=$?" >> /var/tmp/probe/log.$h )
grep -E "^(Verification Time|VERIFICATION|exit=| - Status|Check [0-9]+:|Failed Checks| \*\* |error|warning: unused)" /var/tmp/probe/log.$h | grep -v "Status: SUCCESS" | head -40
