// Throw-away design-phase probe (appended to a scratch copy of src/format.rs); see DESIGN.md section 3.6.
#[cfg(kani)]
mod verif_fmt {
    use super::*;
    use std::fmt::Write;

    pub(crate) struct Buf { pub b: [u8; 40], pub n: usize, pub overflow: bool }
    impl Buf { pub fn new() -> Self { Buf { b: [0; 40], n: 0, overflow: false } } }
    impl Write for Buf {
        fn write_str(&mut self, s: &str) -> fmt::Result {
            let bs = s.as_bytes();
            let mut i = 0;
            while i < bs.len() {
                if self.n < 40 { self.b[self.n] = bs[i]; self.n += 1; } else { self.overflow = true; }
                i += 1;
            }
            Ok(())
        }
    }

    #[kani::proof]
    #[kani::unwind(24)]
    fn fd_small() {
        let secs: u64 = kani::any();
        kani::assume(secs < 100 * 86400);
        let mut out = Buf::new();
        let r = write!(out, "{}", FormattedDuration(Duration::from_secs(secs)));
        assert!(r.is_ok());
        let s = secs % 60; let m = (secs / 60) % 60; let h = (secs / 3600) % 24; let d = secs / 86400;
        // last 8 bytes are HH:MM:SS
        assert!(out.n >= 8);
        let t = &out.b[out.n - 8..out.n];
        assert!(t[0] == b'0' + (h / 10) as u8 && t[1] == b'0' + (h % 10) as u8 && t[2] == b':');
        assert!(t[3] == b'0' + (m / 10) as u8 && t[4] == b'0' + (m % 10) as u8 && t[5] == b':');
        assert!(t[6] == b'0' + (s / 10) as u8 && t[7] == b'0' + (s % 10) as u8);
        if d == 0 { assert!(out.n == 8); } else { assert!(out.n > 10 && out.b[out.n - 9] == b' ' && out.b[out.n - 10] == b'd'); }
    }

    #[kani::proof]
    #[kani::unwind(24)]
    fn hc_small() {
        let v: u64 = kani::any();
        kani::assume(v < 10_000_000);
        let mut out = Buf::new();
        let r = write!(out, "{}", HumanCount(v));
        assert!(r.is_ok());
        // strip commas and re-read the number; commas exactly every 3 digits from the right
        let mut val: u64 = 0; let mut i = 0; let mut digits_from_right;
        while i < out.n {
            let c = out.b[i];
            digits_from_right = out.n - 1 - i;
            if digits_from_right % 4 == 3 { assert!(c == b','); } else { assert!(c >= b'0' && c <= b'9'); val = val * 10 + (c - b'0') as u64; }
            i += 1;
        }
        assert!(val == v);
        assert!(out.n >= 1 && (out.b[0] != b'0' || out.n == 1));
    }
}
