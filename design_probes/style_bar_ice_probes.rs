// Throw-away design-phase probe (appended to a scratch copy of src/style.rs); see DESIGN.md section 3.6.
#[cfg(kani)]
mod verif_ice4 {
    use super::*;
    use std::fmt::Write;
    #[kani::proof] fn ice_styled() { let mut s = String::new(); let _ = write!(s, "{}", Style::new().apply_to("x")); }
    #[kani::proof] fn ice_dotted() { let st = Style::from_dotted_str("red"); std::mem::forget(st); }
    #[kani::proof] fn ice_tpl() { let t = Template::from_str("{a}"); std::mem::forget(t); }
    #[kani::proof] fn ice_hashmap() { let m: HashMap<&'static str, u8> = HashMap::default(); let _ = m.get("a"); std::mem::forget(m); }
    #[kani::proof] fn ice_pad() { let mut s = String::new(); let _ = write!(s, "{}", PaddedStringDisplay{ str: "a", width: 3, align: Alignment::Left, truncate: false }); }
}

#[cfg(kani)]
mod verif_ice5 {
    use super::*;
    use std::fmt::Write;
    fn no_colors() -> bool { false }
    #[kani::proof]
    #[kani::stub(console::colors_enabled, no_colors)]
    #[kani::stub(console::colors_enabled_stderr, no_colors)]
    fn ice_styled_stub() { let mut s = String::new(); let _ = write!(s, "{}", Style::new().apply_to("x")); }
}

#[cfg(kani)]
mod verif_fb {
    use super::*;
    fn no_colors() -> bool { false }
    fn stub_rs() -> std::hash::RandomState { unsafe { std::mem::transmute::<[u64; 2], std::hash::RandomState>([1, 2]) } }

    struct Cnt { a: usize, b: usize, c: usize, other: usize }
    impl fmt::Write for Cnt {
        fn write_str(&mut self, s: &str) -> fmt::Result {
            match s.as_bytes().first() { Some(b'#') => self.a += 1, Some(b'>') => self.b += 1, Some(b'-') => self.c += 1, None => {}, _ => self.other += 1 }
            Ok(())
        }
    }

    #[kani::proof]
    #[kani::unwind(12)]
    #[kani::stub(console::colors_enabled, no_colors)]
    #[kani::stub(console::colors_enabled_stderr, no_colors)]
    #[kani::stub(std::hash::RandomState::new, stub_rs)]
    fn fb_cells() {
        let st = ProgressStyle {
            tick_strings: Vec::new(),
            progress_chars: vec!["#".into(), ">".into(), "-".into()],
            template: Template { parts: Vec::new() },
            char_width: 1,
            tab_width: 8,
            format_map: HashMap::default(),
        };
        let width: usize = kani::any(); kani::assume(width <= 8);
        let num: u32 = kani::any(); let den: u32 = kani::any();
        kani::assume(den >= 1 && den <= 1 << 24 && num <= den);
        let fract = num as f32 / den as f32;
        let d = st.format_bar(fract, width, None);
        let mut c = Cnt { a: 0, b: 0, c: 0, other: 0 };
        use std::fmt::Write;
        let r = write!(c, "{}", d);
        assert!(r.is_ok());
        assert!(c.other == 0);
        assert!(c.a + c.b + c.c == width);
        assert!(c.b <= 1);
        if num == den { assert!(c.a == width); }
        if num == 0 { assert!(c.a == 0 && c.b == 0); }
        std::mem::forget(st);
    }
}
