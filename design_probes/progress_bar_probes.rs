// Throw-away design-phase probe (appended to a scratch copy of src/progress_bar.rs); see DESIGN.md section 3.6.
#[cfg(kani)]
mod verif_pb {
    use super::*;

    pub(crate) fn stub_now() -> Instant {
        #[repr(C)]
        struct Raw { s: i64, n: u32 }
        let s: u32 = kani::any();
        let n: u32 = kani::any();
        kani::assume(n < 1_000_000_000);
        unsafe { std::mem::transmute::<Raw, Instant>(Raw { s: 1_000_000 + s as i64, n }) }
    }

    #[kani::proof]
    #[kani::stub(std::time::Instant::now, stub_now)]
    #[kani::unwind(40)]
    fn pb_hidden_inc() {
        let len: u64 = kani::any();
        let pb = ProgressBar::with_draw_target(Some(len), ProgressDrawTarget::hidden());
        let a: u64 = kani::any();
        let b: u64 = kani::any();
        pb.inc(a);
        pb.inc(b);
        assert_eq!(pb.position(), a.wrapping_add(b));
        pb.inc_length(b);
        assert_eq!(pb.length(), Some(len.saturating_add(b)));
        std::mem::forget(pb);
    }
}

#[cfg(kani)]
mod verif_pb2 {
    use super::*;

    #[kani::proof]
    #[kani::unwind(40)]
    fn pb_pos_only() {
        let pos = AtomicPosition::new();
        let a: u64 = kani::any();
        pos.inc(a);
    }

    #[kani::proof]
    #[kani::stub(std::time::Instant::now, super::verif_pb::stub_now)]
    #[kani::unwind(40)]
    fn pb_pos_only_stub() {
        let pos = AtomicPosition::new();
        let a: u64 = kani::any();
        pos.inc(a);
        assert!(pos.pos.load(portable_atomic::Ordering::SeqCst) == a);
    }
}

#[cfg(kani)]
mod verif_pb3 {
    use super::*;
    use super::verif_pb::stub_now;

    #[kani::proof]
    #[kani::stub(std::time::Instant::now, stub_now)]
    #[kani::unwind(40)]
    fn b1_barstate_new() {
        let pos = Arc::new(AtomicPosition::new());
        let bs = BarState::new(Some(3), ProgressDrawTarget::hidden(), pos);
        std::mem::forget(bs);
    }

    #[kani::proof]
    #[kani::stub(std::time::Instant::now, stub_now)]
    #[kani::unwind(40)]
    fn b2_pb_new() {
        let pb = ProgressBar::with_draw_target(Some(3), ProgressDrawTarget::hidden());
        std::mem::forget(pb);
    }

    #[kani::proof]
    #[kani::stub(std::time::Instant::now, stub_now)]
    #[kani::unwind(40)]
    fn b3_pb_position() {
        let pb = ProgressBar::with_draw_target(Some(3), ProgressDrawTarget::hidden());
        assert!(pb.position() == 0);
        std::mem::forget(pb);
    }
}
