// Throw-away design-phase probe (appended to a scratch copy of src/draw_target.rs); see DESIGN.md section 3.6.
#[cfg(kani)]
mod verif_rl {
    use super::*;

    fn mk_instant(secs: u64, nanos: u32) -> Instant {
        // layout probe: Instant { t: Timespec { tv_sec: i64, tv_nsec: u32(niche) } }
        #[repr(C)]
        struct Raw { s: i64, n: u32 }
        unsafe { std::mem::transmute::<Raw, Instant>(Raw { s: secs as i64, n: nanos }) }
    }

    #[kani::proof]
    fn rl_two_step() {
        let rate: u8 = 20;
        let cap: u8 = kani::any();
        kani::assume(cap <= MAX_BURST);
        let base = mk_instant(1_000_000, 0);
        let d0: u64 = kani::any();
        let d1: u64 = kani::any();
        kani::assume(d0 < 1u64 << 40);
        kani::assume(d1 < 1u64 << 40);
        let mut rl = RateLimiter { interval: 1000 / (rate as u16), capacity: cap, prev: base };
        let t1 = base + Duration::from_nanos(d0);
        let a = rl.allow(t1);
        assert!(rl.capacity <= MAX_BURST);
        if a {
            let t2 = t1 + Duration::from_nanos(d1);
            if d1 >= rl.interval as u64 * 1_000_000 {
                assert!(rl.allow(t2));
            }
        }
    }
}

#[cfg(kani)]
mod verif_dt {
    use super::*;
    use std::cell::Cell;

    #[derive(Debug)]
    struct MockTerm { w: u16, h: u16, row: Cell<i32>, calls: Cell<u32> }
    unsafe impl Sync for MockTerm {}
    impl TermLike for MockTerm {
        fn width(&self) -> u16 { self.w }
        fn height(&self) -> u16 { self.h }
        fn move_cursor_up(&self, n: usize) -> io::Result<()> { self.row.set(self.row.get() - n as i32); Ok(()) }
        fn move_cursor_down(&self, n: usize) -> io::Result<()> { self.row.set(self.row.get() + n as i32); Ok(()) }
        fn move_cursor_right(&self, _n: usize) -> io::Result<()> { Ok(()) }
        fn move_cursor_left(&self, _n: usize) -> io::Result<()> { Ok(()) }
        fn write_line(&self, _s: &str) -> io::Result<()> { self.row.set(self.row.get() + 1); Ok(()) }
        fn write_str(&self, _s: &str) -> io::Result<()> { self.calls.set(self.calls.get() + 1); Ok(()) }
        fn clear_line(&self) -> io::Result<()> { Ok(()) }
        fn flush(&self) -> io::Result<()> { Ok(()) }
    }

    fn stub_width(s: &str) -> usize { s.len() }

    #[kani::proof]
    #[kani::unwind(8)]
    #[kani::stub(console::measure_text_width, stub_width)]
    fn dt_draw_small() {
        let t = MockTerm { w: 4, h: 5, row: Cell::new(10), calls: Cell::new(0) };
        let mut ds = DrawState::default();
        ds.lines.push(LineType::Bar("abc".to_string()));
        let mut last = VisualLines::default();
        let n: usize = kani::any();
        kani::assume(n <= 3);
        last.0 = n;
        let r = ds.draw_to_term(&t, &mut last);
        assert!(r.is_ok());
        assert!(last.0 == 1);
        std::mem::forget(ds);
    }
}

#[cfg(kani)]
mod verif_scr {
    use super::*;
    use std::cell::Cell;

    const N: usize = 12; // absolute rows tracked

    #[derive(Debug)]
    pub(crate) struct Scr {
        pub w: usize,
        pub h: usize,
        pub row: Cell<usize>,
        pub col: Cell<usize>,
        pub maxrow: Cell<usize>,
        pub tags: [Cell<u8>; N],
        pub ok: Cell<bool>,
    }
    unsafe impl Sync for Scr {}
    impl Scr {
        fn top(&self) -> usize { (self.maxrow.get() + 1).saturating_sub(self.h) }
        fn goto_row(&self, r: usize) {
            if r >= N { self.ok.set(false); return; }
            self.row.set(r);
            if r > self.maxrow.get() { self.maxrow.set(r); }
        }
        fn mark(&self, r: usize, tag: u8) {
            if r >= N { self.ok.set(false); return; }
            if tag != b' ' { self.tags[r].set(tag); } else if self.tags[r].get() == 0 { self.tags[r].set(1); }
        }
    }
    impl TermLike for Scr {
        fn width(&self) -> u16 { self.w as u16 }
        fn height(&self) -> u16 { self.h as u16 }
        fn move_cursor_up(&self, n: usize) -> io::Result<()> {
            let t = self.top();
            let r = self.row.get().saturating_sub(n);
            self.row.set(if r < t { t } else { r });
            Ok(())
        }
        fn move_cursor_down(&self, n: usize) -> io::Result<()> {
            let r = self.row.get() + n;
            let m = self.maxrow.get();
            self.row.set(if r > m { m } else { r });
            Ok(())
        }
        fn move_cursor_right(&self, _n: usize) -> io::Result<()> { Ok(()) }
        fn move_cursor_left(&self, _n: usize) -> io::Result<()> { Ok(()) }
        fn write_line(&self, s: &str) -> io::Result<()> {
            self.write_str(s)?;
            self.goto_row(self.row.get() + 1);
            self.col.set(0);
            Ok(())
        }
        fn write_str(&self, s: &str) -> io::Result<()> {
            let b = s.as_bytes();
            let n = b.len();
            if n == 0 { return Ok(()); }
            if b[0] == b'\r' { self.col.set(0); return Ok(()); }
            let tag = b[0];
            // deferred wrap: a cursor parked at col == w moves to the next row before printing
            let (mut r, c) = if self.col.get() >= self.w { (self.row.get() + 1, 0) } else { (self.row.get(), self.col.get()) };
            let total = c + n;
            let rows = (total + self.w - 1) / self.w; // rows touched
            let mut j = 0;
            while j < rows { self.mark(r, tag); if j + 1 < rows { r += 1; } j += 1; }
            self.goto_row(r);
            self.col.set(total - (rows - 1) * self.w);
            Ok(())
        }
        fn clear_line(&self) -> io::Result<()> { self.tags[self.row.get()].set(0); self.col.set(0); Ok(()) }
        fn flush(&self) -> io::Result<()> { Ok(()) }
    }

    fn stub_width(s: &str) -> usize { s.len() }
    fn stub_repeat(_s: &str, n: usize) -> String { let mut s = String::from("                "); assert!(n <= 16); unsafe { s.as_mut_vec().set_len(n); } s }

    fn mk(k: usize, l: usize) -> String {
        let mut s = String::from(match k { 0 => "AAAAAAA", 1 => "BBBBBBB", _ => "CCCCCCC" });
        unsafe { s.as_mut_vec().set_len(l); }
        s
    }

    fn hgt(len: usize, w: usize) -> usize { if len == 0 { 1 } else { (len + w - 1) / w } }

    fn step(w: usize, h: usize, nl: usize) {
        let b: usize = kani::any(); kani::assume(b <= h);
        let r0: usize = 4;
        let scr = Scr { w, h, row: Cell::new(r0), col: Cell::new(w), maxrow: Cell::new(r0),
            tags: Default::default(), ok: Cell::new(true) };
        let fs = if b == 0 { r0 + 1 } else { r0 + 1 - b };
        let mut i = 0;
        while i < N { if i < fs { scr.tags[i].set(b'L'); } else if i <= r0 { scr.tags[i].set(b'O'); } i += 1; }
        let pending: bool = kani::any();
        if b == 0 && !pending { scr.row.set(r0 + 1); scr.maxrow.set(r0 + 1); scr.col.set(0); }

        let nt: usize = kani::any(); kani::assume(nt <= nl);
        let mut lens = [0usize; 3];
        let mut ds = DrawState::default();
        let mut k = 0;
        while k < nl {
            let l: usize = kani::any(); kani::assume(l <= 2 * w + 1 && l <= 7);
            lens[k] = l;
            let s = mk(k, l);
            ds.lines.push(if k < nt { LineType::Text(s) } else { LineType::Bar(s) });
            k += 1;
        }
        let mut last = VisualLines(b);
        let r = ds.draw_to_term(&scr, &mut last);
        assert!(r.is_ok());
        kani::assume(scr.ok.get());
        let mut i = 0;
        while i < fs { assert!(scr.tags[i].get() == b'L'); i += 1; }
        let mut i = 0;
        while i < N { assert!(scr.tags[i].get() != b'O'); i += 1; }
        let mut bars = 0; let mut k = 0;
        while k < nl { let hh = hgt(lens[k], w); if k >= nt { bars += hh; } k += 1; }
        if bars <= h {
            assert!(last.0 == bars);
            let base = if b == 0 && pending { r0 + 1 } else { fs };
            let mut row = base; let mut k = 0;
            while k < nl {
                let hh = hgt(lens[k], w);
                let mut j = 0;
                while j < hh {
                    let t = scr.tags[row].get();
                    if lens[k] == 0 { assert!(t == 0 || t == 1); } else { assert!(t == b'A' + k as u8); }
                    row += 1; j += 1;
                }
                k += 1;
            }
            if nl > 0 { assert!(scr.row.get() + 1 == row); assert!(scr.col.get() == w); }
        }
        std::mem::forget(ds);
    }

    #[kani::proof]
    #[kani::unwind(14)]
    #[kani::stub(console::measure_text_width, stub_width)]
    fn scr_step_w2h3n2() { step(2, 3, 2); }

    #[kani::proof]
    #[kani::unwind(14)]
    #[kani::stub(console::measure_text_width, stub_width)]
    fn scr_step_w2h2n1() { step(2, 2, 1); }

    #[kani::proof]
    #[kani::unwind(14)]
    #[kani::stub(console::measure_text_width, stub_width)]
    #[kani::stub(str::repeat, stub_repeat)]
    fn scr_step_rep() { step(2, 2, 1); }

    #[kani::proof]
    #[kani::unwind(14)]
    #[kani::stub(console::measure_text_width, stub_width)]
    #[kani::stub(str::repeat, stub_repeat)]
    fn scr_step_rep2() { step(2, 3, 2); }

    #[kani::proof]
    #[kani::unwind(14)]
    #[kani::stub(console::measure_text_width, stub_width)]
    #[kani::stub(str::repeat, stub_repeat)]
    fn scr_step_rep3() { step(3, 3, 3); }
}
