// Throw-away design-phase probe (appended to a scratch copy of src/state.rs); see DESIGN.md section 3.6.
#[cfg(kani)]
mod verif_est {
    use super::*;

    #[kani::proof]
    fn est_weight() {
        let a: u32 = kani::any();
        kani::assume(a >= 1 && a <= 1_000_000);
        let age = a as f64 / 1000.0;
        let w = estimator_weight(age);
        assert!(w > 0.0 && w < 1.0);
    }
}
