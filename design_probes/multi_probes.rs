// Throw-away design-phase probe (appended to a scratch copy of src/multi.rs); see DESIGN.md section 3.6.
#[cfg(kani)]
mod verif_ms {
    use super::*;

    const M: usize = 3;

    // arbitrary MultiState with M member slots satisfying the representation invariant
    fn any_state() -> (MultiState, [usize; M], usize) {
        let mut ms = MultiState::new(ProgressDrawTarget::hidden());
        ms.members = Vec::with_capacity(M + 1);
        ms.ordering = Vec::with_capacity(M + 1);
        ms.free_set = Vec::with_capacity(M + 1);
        let mut i = 0;
        while i < M { ms.members.push(MultiStateMember::default()); i += 1; }
        // symbolic permutation of 0..M
        let p0: usize = kani::any(); let p1: usize = kani::any(); let p2: usize = kani::any();
        kani::assume(p0 < M && p1 < M && p2 < M && p0 != p1 && p0 != p2 && p1 != p2);
        let perm = [p0, p1, p2];
        let live: usize = kani::any(); kani::assume(live <= M);
        let mut i = 0;
        while i < M { if i < live { ms.ordering.push(perm[i]); } else { ms.free_set.push(perm[i]); } i += 1; }
        (ms, perm, live)
    }

    #[kani::proof]
    #[kani::unwind(6)]
    fn ms_insert_step() {
        let (mut ms, perm, live) = any_state();
        let k: u8 = kani::any();
        let p: usize = kani::any(); kani::assume(p <= M + 1);
        let (loc, want) = match k % 5 {
            0 => (InsertLocation::End, live),
            1 => (InsertLocation::Index(p), if p < live { p } else { live }),
            2 => (InsertLocation::IndexFromBack(p), live.saturating_sub(p)),
            3 => { kani::assume(p < live); (InsertLocation::After(perm[p]), p + 1) }
            _ => { kani::assume(p < live); (InsertLocation::Before(perm[p]), p) }
        };
        let idx = ms.insert(loc);
        assert!(ms.ordering.len() == live + 1);
        assert!(ms.ordering[want] == idx);
        // others keep relative order
        let mut i = 0; let mut j = 0;
        while i < live + 1 { if i != want { assert!(ms.ordering[i] == perm[j]); j += 1; } i += 1; }
        // idx fresh or recycled from free set
        if live < M { assert!(idx == perm[M - 1]); } else { assert!(idx == M); }
        assert!(ms.ordering.len() + ms.free_set.len() == ms.members.len());
        std::mem::forget(ms);
    }
}
