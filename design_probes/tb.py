import sys, time
from z3 import *
# hand-written probe of RateLimiter::allow in LIA; times in ns (Int)
def allow(cap, prev, now, I_ms, MAXB=20):
    I_ns = I_ms*1000000
    el = now - prev
    early = now < prev
    blocked = And(cap == 0, el < I_ns)
    new = (el / 1000000) / I_ms
    rem = el % I_ns
    ncap = cap + new - 1
    ncap = If(ncap > MAXB, MAXB, ncap)
    ok = And(Not(early), Not(blocked))
    return ok, If(ok, ncap, cap), If(ok, now - rem, prev)

def run(rate, k):
    I_ms = 1000//rate
    s = Solver()
    cap = Int('cap0'); prev = Int('prev0')
    s.add(cap >= 0, cap <= 20, prev >= 0)
    ts=[Int(f't{i}') for i in range(k)]
    s.add(ts[0] >= prev)
    for i in range(1,k): s.add(ts[i] >= ts[i-1])
    admitted=[]
    for i in range(k):
        ok, cap, prev = allow(cap, prev, ts[i], I_ms)
        admitted.append(ok)
    n = Sum([If(a,1,0) for a in admitted])
    # window from first to last call: T = ts[k-1]-ts[0]; bound 20 + R*T + 1  (R*T in frames: rate*T/1e9)
    T = ts[k-1]-ts[0]
    s.add(n*1000000000 > (21)*1000000000 + rate*T)
    t0=time.time(); r = s.check(); dt=time.time()-t0
    print(rate,k,r,round(dt,2))
    if r==sat:
        m=s.model(); print([m[t] for t in ts], m[Int('cap0')], m[Int('prev0')], m.eval(n))
run(20, int(sys.argv[1]) if len(sys.argv)>1 else 23)
run(255, 8)
