// Throw-away design-phase probe (appended to a scratch copy of src/style.rs); see DESIGN.md section 3.6.
#[cfg(kani)]
mod verif_pad {
    use super::*;

    struct Buf { b: [u8; 16], n: usize }
    impl fmt::Write for Buf {
        fn write_str(&mut self, s: &str) -> fmt::Result {
            let bs = s.as_bytes();
            let mut i = 0;
            while i < bs.len() { if self.n < 16 { self.b[self.n] = bs[i]; self.n += 1; } i += 1; }
            Ok(())
        }
    }

    // model of console::measure_text_width for the alphabet {ASCII, 2-byte (1 col)}
    fn stub_width(s: &str) -> usize {
        let b = s.as_bytes();
        let mut i = 0; let mut w = 0;
        while i < b.len() { if b[i] < 0x80 { i += 1; } else { i += 2; } w += 1; }
        w
    }

    #[kani::proof]
    #[kani::unwind(18)]
    #[kani::stub(console::measure_text_width, stub_width)]
    fn pad_cols() {
        // up to 3 chars, each 'a' or 'é' (C3 A9), in a fixed array
        let mut bytes = [0u8; 6];
        let n: usize = kani::any(); kani::assume(n <= 3);
        let mut len = 0; let mut i = 0;
        while i < n { let two: bool = kani::any(); if two { bytes[len] = 0xC3; bytes[len+1] = 0xA9; len += 2; } else { bytes[len] = b'a'; len += 1; } i += 1; }
        let s = unsafe { std::str::from_utf8_unchecked(&bytes[..len]) };
        let width: usize = kani::any(); kani::assume(width <= 4);
        let al: u8 = kani::any();
        let align = match al % 3 { 0 => Alignment::Left, 1 => Alignment::Center, _ => Alignment::Right };
        let truncate: bool = kani::any();
        let cols = n;
        let p = PaddedStringDisplay { str: s, width, align, truncate };
        let mut out = Buf { b: [0; 16], n: 0 };
        let r = fmt::Display::fmt(&p, &mut fmt::Formatter::new(&mut out, fmt::FormattingOptions::new()));
        assert!(r.is_ok());
        let o = unsafe { std::str::from_utf8_unchecked(&out.b[..out.n]) };
        let ocols = stub_width(o);
        if cols <= width || truncate { assert!(ocols == width); } else { assert!(ocols == cols); }
    }
}

#[cfg(kani)]
mod verif_tpl2 {
    use super::*;

    const ALPHA: [u8; 10] = [b'{', b'}', b':', b'a', b' ', b'!', b'9', b'.', b'/', b'<'];
    fn stub_dotted(_s: &str) -> Style { Style::new() }

    fn run(n: usize) {
        let mut bytes = [0u8; 6];
        let mut i = 0;
        while i < n { let k: usize = kani::any(); kani::assume(k < ALPHA.len()); bytes[i] = ALPHA[k]; i += 1; }
        let s = unsafe { std::str::from_utf8_unchecked(&bytes[..n]) };
        let r = Template::from_str_with_tab_width(s, 8);
        std::mem::forget(r);
    }

    #[kani::proof]
    #[kani::unwind(8)]
    #[kani::stub(console::Style::from_dotted_str, stub_dotted)]
    fn tpl_nopanic_s4() { run(4); }
}
